(* C12/Lemmas.v -- proofs about the table model (C12/Model.v). *)
From Coq Require Import ZArith List Bool Arith Lia.
From AK Require Import Common.Sx Common.Err gen.C12_Consts C12.Model C12.Run C12.Spec.
Import ListNotations.

(* ------------------------------------------------------------------ constants *)
Lemma slack_pos : 1 <= limit_slack.
Proof. vm_compute. lia. Qed.

Lemma dots_pos : 1 <= dots_max.
Proof. vm_compute. lia. Qed.

Lemma dflt_widths_ok : dflt_min_width <= dflt_max_width.
Proof. vm_compute. lia. Qed.

(* ------------------------------------------------------------------ small list facts *)
Lemma spaces_len : forall n, length (spaces n) = n.
Proof. intros. unfold spaces. apply repeat_length. Qed.

Lemma total_len_concat : forall ch, total_len ch = length (concat ch).
Proof.
  induction ch as [|c r IH]; simpl; auto.
  rewrite app_length, IH. reflexivity.
Qed.

Lemma firstn_all_ge : forall (A : Type) (l : list A) n, length l <= n -> firstn n l = l.
Proof. intros. apply firstn_all2. assumption. Qed.

Lemma firstn_app_le : forall (A : Type) (a b : list A) n, n <= length a -> firstn n (a ++ b) = firstn n a.
Proof.
  intros. rewrite firstn_app. replace (n - length a) with 0 by lia.
  simpl. apply app_nil_r.
Qed.

Lemma firstn_app_ge : forall (A : Type) (a b : list A) n, length a <= n ->
  firstn n (a ++ b) = a ++ firstn (n - length a) b.
Proof. intros. rewrite firstn_app. rewrite firstn_all2 by assumption. reflexivity. Qed.

Lemma concat_single : forall (A : Type) (x : list A), concat [x] = x.
Proof. intros. simpl. apply app_nil_r. Qed.

(* ------------------------------------------------------------------ resize_chunks_list *)
Lemma resize_loop_zero : forall items, concat (resize_loop items 0) = [].
Proof. destruct items; reflexivity. Qed.

Lemma resize_loop_spec : forall items n,
  concat (resize_loop items n) = firstn n (concat items) ++ spaces (n - total_len items).
Proof.
  induction items as [|it rest IH]; intros n.
  - simpl. rewrite firstn_nil, app_nil_r, Nat.sub_0_r. reflexivity.
  - simpl resize_loop. destruct (n =? 0) eqn:E0.
    + apply Nat.eqb_eq in E0. subst n. reflexivity.
    + apply Nat.eqb_neq in E0. destruct (length it <=? n) eqn:E1.
      * apply Nat.leb_le in E1. simpl concat. rewrite IH.
        rewrite firstn_app_ge by assumption. rewrite <- app_assoc.
        simpl total_len. replace (n - (length it + total_len rest)) with (n - length it - total_len rest) by lia.
        reflexivity.
      * apply Nat.leb_gt in E1. simpl concat. rewrite resize_loop_zero, app_nil_r.
        rewrite firstn_app_le by lia. simpl total_len.
        replace (n - (length it + total_len rest)) with 0 by lia. simpl. rewrite app_nil_r. reflexivity.
Qed.

Lemma resize_spec : forall ch n,
  concat (resize_chunks_list ch n) = firstn n (concat ch) ++ spaces (n - total_len ch).
Proof.
  intros. unfold resize_chunks_list.
  destruct (total_len ch =? n) eqn:E0.
  - apply Nat.eqb_eq in E0. rewrite firstn_all_ge by (rewrite <- total_len_concat; lia).
    replace (n - total_len ch) with 0 by lia. simpl. rewrite app_nil_r. reflexivity.
  - apply Nat.eqb_neq in E0. destruct (total_len ch <? n) eqn:E1.
    + apply Nat.ltb_lt in E1. rewrite concat_app. simpl. rewrite app_nil_r.
      rewrite firstn_all_ge by (rewrite <- total_len_concat; lia). reflexivity.
    + apply resize_loop_spec.
Qed.

(* ------------------------------------------------------------------ fit_to_width *)



Lemma fit_content_l : forall ch w al, fit_text ch w al = shown al (concat ch) w.
Proof.
  intros. unfold fit_text, fit_to_width, shown. rewrite total_len_concat.
  set (t := concat ch). destruct (length t =? w) eqn:E0.
  - apply Nat.eqb_eq in E0. fold t. replace (length t <=? w) with true by (symmetry; apply Nat.leb_le; lia).
    unfold pad. replace (w - length t) with 0 by lia. destruct al; simpl; rewrite ?app_nil_r; reflexivity.
  - apply Nat.eqb_neq in E0. destruct (length t <? w) eqn:E1.
    + apply Nat.ltb_lt in E1. replace (length t <=? w) with true by (symmetry; apply Nat.leb_le; lia).
      unfold pad. destruct al.
      * rewrite concat_app, concat_single. reflexivity.
      * rewrite !concat_app, !concat_single. reflexivity.
      * reflexivity.
    + apply Nat.ltb_ge in E1. replace (length t <=? w) with false by (symmetry; apply Nat.leb_gt; lia).
      unfold truncate_dots. rewrite concat_app, resize_spec, concat_single.
      rewrite total_len_concat. fold t.
      replace (w - Nat.min dots_max w - length t) with 0 by lia.
      change (spaces 0) with (@nil Z). rewrite app_nil_r. reflexivity.
Qed.

Lemma shown_len : forall al t w, length (shown al t w) = w.
Proof.
  intros. unfold shown. destruct (length t <=? w) eqn:E.
  - apply Nat.leb_le in E. unfold pad. destruct al; rewrite ?app_length, ?spaces_len.
    + lia.
    + assert (H := Nat.div_le_upper_bound (w - length t) 2 (w - length t)).
      assert ((w - length t) / 2 <= w - length t) by (apply Nat.div_le_upper_bound; lia). lia.
    + lia.
  - apply Nat.leb_gt in E. unfold truncate_dots. rewrite app_length, firstn_length, repeat_length. lia.
Qed.

Lemma fit_exact_l : forall ch w al, length (fit_text ch w al) = w.
Proof. intros. rewrite fit_content_l. apply shown_len. Qed.

(* ------------------------------------------------------------------ geometry of a line
   Border, title and record lines all have the shape  h b1 h b2 ... h bn h . *)
Definition rows (h : Z) (bodies : list str) : str := concat (map (cons h) bodies) ++ [h].

(* offset of the j-th mark (0 <= j <= number of columns) *)


Lemma rows_cons : forall h b bs, rows h (b :: bs) = h :: b ++ rows h bs.
Proof. intros. unfold rows. simpl. rewrite <- app_assoc. reflexivity. Qed.

Lemma rows_len : forall h bs, length (rows h bs) = table_width (map (@length Z) bs).
Proof.
  intros h bs. unfold table_width. induction bs as [|b r IH].
  - reflexivity.
  - rewrite rows_cons. simpl. rewrite app_length, IH, map_length. rewrite map_length in IH. lia.
Qed.

Lemma rows_mark : forall h bs j d, j <= length bs ->
  nth (offset (map (@length Z) bs) j) (rows h bs) d = h.
Proof.
  intros h bs. induction bs as [|b r IH]; intros j d Hj.
  - simpl in Hj. replace j with 0 by lia. reflexivity.
  - destruct j as [|j].
    + reflexivity.
    + rewrite rows_cons. unfold offset. simpl firstn. simpl sum_nat.
      replace (length b + sum_nat (firstn j (map (@length Z) r)) + S j)
        with (S (length b + offset (map (@length Z) r) j)) by (unfold offset; lia).
      simpl nth. rewrite app_nth2 by lia.
      replace (length b + offset (map (@length Z) r) j - length b) with (offset (map (@length Z) r) j) by lia.
      apply IH. simpl in Hj. lia.
Qed.

Lemma skipn_app_exact : forall (A : Type) (a b : list A) n, n = length a -> skipn n (a ++ b) = b.
Proof.
  intros. subst. rewrite skipn_app. rewrite skipn_all. rewrite Nat.sub_diag. reflexivity.
Qed.

Lemma skipn_add : forall (A : Type) (l : list A) a b, skipn (a + b) l = skipn b (skipn a l).
Proof.
  intros A l a. revert l. induction a as [|a IH]; intros l b.
  - reflexivity.
  - destruct l as [|x l]; simpl.
    + rewrite skipn_nil. reflexivity.
    + apply IH.
Qed.

Lemma rows_body : forall h bs j, j < length bs ->
  slice (offset (map (@length Z) bs) j + 1) (length (nth j bs [])) (rows h bs) = nth j bs [].
Proof.
  intros h bs. induction bs as [|b r IH]; intros j Hj.
  - simpl in Hj. lia.
  - destruct j as [|j].
    + rewrite rows_cons. unfold slice, offset. simpl.
      rewrite firstn_app_le by lia. apply firstn_all.
    + rewrite rows_cons. unfold slice. simpl nth.
      replace (offset (map (@length Z) (b :: r)) (S j) + 1)
        with (S (length b + (offset (map (@length Z) r) j + 1))) by (unfold offset; simpl; lia).
      simpl skipn. rewrite skipn_add. rewrite skipn_app_exact by reflexivity.
      apply IH. simpl in Hj. lia.
Qed.

(* table_line and border_line are instances of [rows] *)
Lemma join_cells_rows : forall c cells, c_sep :: join_cells (c :: cells) = concat (map (cons c_sep) (c :: cells)).
Proof.
  intros c cells. revert c. induction cells as [|c2 r IH]; intros c.
  - simpl. rewrite app_nil_r. reflexivity.
  - change (join_cells (c :: c2 :: r)) with (c ++ c_sep :: join_cells (c2 :: r)).
    rewrite IH. simpl. reflexivity.
Qed.

Lemma table_line_rows : forall cells, cells <> [] -> table_line cells = rows c_sep cells.
Proof.
  intros cells H. destruct cells as [|c r]; [contradiction|].
  unfold table_line, rows. rewrite <- join_cells_rows. reflexivity.
Qed.

Lemma border_line_rows : forall ws, border_line ws = rows c_plus (map (repeat c_minus) ws).
Proof.
  intros. unfold border_line, rows. rewrite flat_map_concat_map, map_map. reflexivity.
Qed.

Lemma map_length_repeat : forall ws, map (@length Z) (map (repeat c_minus) ws) = ws.
Proof.
  induction ws as [|w r IH]; simpl; [reflexivity|]. rewrite repeat_length, IH. reflexivity.
Qed.

Lemma border_len : forall ws, length (border_line ws) = table_width ws.
Proof. intros. rewrite border_line_rows, rows_len, map_length_repeat. reflexivity. Qed.

Lemma border_mark : forall ws j d, j <= length ws -> nth (offset ws j) (border_line ws) d = c_plus.
Proof.
  intros. rewrite border_line_rows. rewrite <- (map_length_repeat ws) at 1.
  apply rows_mark. rewrite map_length. assumption.
Qed.

Lemma table_line_len : forall cells ws, cells <> [] -> map (@length Z) cells = ws ->
  length (table_line cells) = table_width ws.
Proof. intros. rewrite table_line_rows by assumption. rewrite rows_len. congruence. Qed.

Lemma table_line_mark : forall cells ws j d, cells <> [] -> map (@length Z) cells = ws -> j <= length ws ->
  nth (offset ws j) (table_line cells) d = c_sep.
Proof.
  intros cells ws j d Hne Hl Hj. rewrite table_line_rows by assumption. subst ws.
  apply rows_mark. rewrite map_length in Hj. assumption.
Qed.

Lemma table_line_cell : forall cells ws j, map (@length Z) cells = ws -> j < length ws ->
  slice (offset ws j + 1) (nth j ws 0) (table_line cells) = nth j cells [].
Proof.
  intros cells ws j Hl Hj. subst ws. rewrite map_length in Hj.
  rewrite table_line_rows by (destruct cells; simpl in Hj; [lia|discriminate]).
  replace (nth j (map (@length Z) cells) 0) with (length (nth j cells [])).
  - apply rows_body. assumption.
  - change 0 with (length (@nil Z)). rewrite map_nth. reflexivity.
Qed.

(* ------------------------------------------------------------------ map2 *)
Lemma map2_length : forall (A B C : Type) (f : A -> B -> C) la lb, length la = length lb ->
  length (map2 f la lb) = length la.
Proof.
  intros A B C f la. induction la as [|a r IH]; intros lb H; destruct lb; simpl in *; try lia.
  rewrite IH; lia.
Qed.

Lemma map2_lengths : forall (A : Type) (f : A -> nat -> str) la ws,
  (forall a w, length (f a w) = w) -> length la = length ws ->
  map (@length Z) (map2 f la ws) = ws.
Proof.
  intros A f la. induction la as [|a r IH]; intros ws Hf H; destruct ws; simpl in *; try lia; try reflexivity.
  rewrite Hf, IH; auto.
Qed.

Lemma map2_nth : forall (A B C : Type) (f : A -> B -> C) la lb j da db dc,
  j < length la -> j < length lb -> nth j (map2 f la lb) dc = f (nth j la da) (nth j lb db).
Proof.
  intros A B C f la. induction la as [|a r IH]; intros lb j da db dc H1 H2; destruct lb; simpl in *; try lia.
  destruct j; [reflexivity|]. apply IH; lia.
Qed.

Lemma map2_nonempty : forall (A B C : Type) (f : A -> B -> C) la lb,
  la <> [] -> length la = length lb -> map2 f la lb <> [].
Proof. intros A B C f la lb H1 H2. destruct la; [contradiction|]. destruct lb; simpl in *; [lia|discriminate]. Qed.

(* ------------------------------------------------------------------ width negotiation *)
Lemma widen_all_length : forall fields r cols ws, length cols = length ws ->
  length (widen_all fields r cols ws) = length cols.
Proof.
  intros fields r cols. induction cols as [|c cr IH]; intros ws H; destruct ws; simpl in *; try lia.
  rewrite IH; lia.
Qed.

Lemma negotiate_length : forall fields cols recs ws, length cols = length ws ->
  length (negotiate fields cols ws recs) = length cols.
Proof.
  intros fields cols recs. induction recs as [|r rest IH]; intros ws H; simpl.
  - lia.
  - destruct (all_at_max cols (widen_all fields r cols ws)).
    + apply widen_all_length. assumption.
    + apply IH. rewrite widen_all_length; auto.
Qed.

Lemma widths_length : forall fields cols vis, length (widths fields cols vis) = length cols.
Proof. intros. unfold widths. apply negotiate_length. rewrite map_length. reflexivity. Qed.


Lemma init_width_bounds : forall fields c, col_min c <= col_max c -> in_bounds c (init_width fields c).
Proof. intros. unfold in_bounds, init_width. lia. Qed.

Lemma widen_bounds : forall fields r c w, in_bounds c w -> in_bounds c (widen fields r c w).
Proof.
  intros fields r c w H. unfold in_bounds, widen in *.
  destruct (w <? col_max c) eqn:E; [apply Nat.ltb_lt in E|]; lia.
Qed.

Lemma widen_all_bounds : forall fields r cols ws, Forall2 in_bounds cols ws ->
  Forall2 in_bounds cols (widen_all fields r cols ws).
Proof.
  intros fields r cols ws H. induction H; simpl; constructor; auto using widen_bounds.
Qed.

Lemma negotiate_bounds : forall fields cols recs ws, Forall2 in_bounds cols ws ->
  Forall2 in_bounds cols (negotiate fields cols ws recs).
Proof.
  intros fields cols recs. induction recs as [|r rest IH]; intros ws H; simpl.
  - assumption.
  - destruct (all_at_max cols (widen_all fields r cols ws)).
    + apply widen_all_bounds. assumption.
    + apply IH. apply widen_all_bounds. assumption.
Qed.

Lemma widths_bounds : forall fields cols vis, Forall (fun c => col_min c <= col_max c) cols ->
  Forall2 in_bounds cols (widths fields cols vis).
Proof.
  intros fields cols vis H. unfold widths. apply negotiate_bounds.
  induction H; simpl; constructor; auto using init_width_bounds.
Qed.

(* the early exit of the loop is harmless, and the result is the clipped maximum *)

Lemma widen_all_at_max : forall fields r cols ws, length cols = length ws ->
  all_at_max cols ws = true -> widen_all fields r cols ws = ws.
Proof.
  intros fields r cols. induction cols as [|c cr IH]; intros ws Hl H; destruct ws as [|w wr]; simpl in *; try reflexivity; try lia.
  apply andb_prop in H. destruct H as [H1 H2]. apply Nat.eqb_eq in H1.
  rewrite IH by (auto; lia). unfold widen. replace (w <? col_max c) with false; [reflexivity|].
  symmetry. apply Nat.ltb_ge. lia.
Qed.

Fixpoint negotiate_all (fields : list field) (cols : list col) (ws : list nat) (recs : list (list cell)) : list nat :=
  match recs with
  | [] => ws
  | r :: rest => negotiate_all fields cols (widen_all fields r cols ws) rest
  end.

Lemma negotiate_all_at_max : forall fields cols recs ws, length cols = length ws ->
  all_at_max cols ws = true -> negotiate_all fields cols ws recs = ws.
Proof.
  intros fields cols recs. induction recs as [|r rest IH]; intros ws Hl H; simpl; [reflexivity|].
  rewrite widen_all_at_max by assumption. apply IH; assumption.
Qed.

Lemma negotiate_no_exit : forall fields cols recs ws, length cols = length ws ->
  negotiate fields cols ws recs = negotiate_all fields cols ws recs.
Proof.
  intros fields cols recs. induction recs as [|r rest IH]; intros ws Hl; simpl; [reflexivity|].
  destruct (all_at_max cols (widen_all fields r cols ws)) eqn:E.
  - symmetry. apply negotiate_all_at_max; [rewrite widen_all_length; auto|assumption].
  - apply IH. rewrite widen_all_length; auto.
Qed.

Lemma widen_clip : forall fields r c w0, 
  widen fields r c (Nat.min (col_max c) w0) = Nat.min (col_max c) (Nat.max w0 (cell_len fields c r)).
Proof.
  intros. unfold widen. destruct (Nat.min (col_max c) w0 <? col_max c) eqn:E.
  - apply Nat.ltb_lt in E. lia.
  - apply Nat.ltb_ge in E. lia.
Qed.

Lemma negotiate_all_nth : forall fields cols recs ws0 j dc,
  length ws0 = length cols -> j < length cols ->
  nth j (negotiate_all fields cols (map2 (fun c w => Nat.min (col_max c) w) cols ws0) recs) 0 =
  Nat.min (col_max (nth j cols dc)) (fold_left Nat.max (map (cell_len fields (nth j cols dc)) recs) (nth j ws0 0)).
Proof.
  intros fields cols recs. induction recs as [|r rest IH]; intros ws0 j dc Hl Hj.
  - simpl. rewrite (map2_nth _ _ _ _ cols ws0 j dc 0 0) by lia. reflexivity.
  - simpl.
    replace (widen_all fields r cols (map2 (fun c w => Nat.min (col_max c) w) cols ws0))
      with (map2 (fun c w => Nat.min (col_max c) w) cols (map2 (fun c w => Nat.max w (cell_len fields c r)) cols ws0)).
    + rewrite (IH _ j dc) by (rewrite ?map2_length; lia).
      rewrite (map2_nth _ _ _ _ cols ws0 j dc 0 0) by lia.
      simpl. reflexivity.
    + clear IH Hj j. revert ws0 Hl. induction cols as [|c cr IHc]; intros ws0 Hl; destruct ws0 as [|w wr]; simpl in *; try lia; try reflexivity.
      rewrite widen_clip. f_equal. apply IHc. lia.
Qed.

Lemma nth_map_any : forall (A B : Type) (f : A -> B) l j d d', j < length l ->
  nth j (map f l) d = f (nth j l d').
Proof.
  intros A B f l. induction l as [|x r IH]; intros j d d' H; simpl in *; [lia|].
  destruct j; [reflexivity|]. apply IH. lia.
Qed.

Lemma widths_exact : forall fields cols vis j dc, j < length cols ->
  nth j (widths fields cols vis) 0 = want_width fields (nth j cols dc) (visible_recs vis).
Proof.
  intros fields cols vis j dc Hj. unfold widths, want_width. rewrite negotiate_no_exit by (rewrite map_length; reflexivity).
  replace (map (init_width fields) cols)
    with (map2 (fun c w => Nat.min (col_max c) w) cols
               (map (fun c => Nat.max (col_min c) (title_width (col_field fields c))) cols)).
  - rewrite (negotiate_all_nth fields cols (visible_recs vis) _ j dc) by (rewrite ?map_length; lia).
    f_equal. f_equal.
    rewrite (nth_map_any _ _ _ cols j 0 dc) by lia. reflexivity.
  - clear. induction cols as [|c cr IH]; simpl; [reflexivity|]. rewrite IH. reflexivity.
Qed.

(* ------------------------------------------------------------------ body lines and record limits *)
Lemma count_recs_app : forall a b, count_recs (a ++ b) = count_recs a + count_recs b.
Proof. intros. unfold count_recs. rewrite filter_app, app_length. reflexivity. Qed.

Lemma visible_recs_app : forall a b, visible_recs (a ++ b) = visible_recs a ++ visible_recs b.
Proof. intros. unfold visible_recs. apply flat_map_app. Qed.

Lemma visible_recs_length : forall l, length (visible_recs l) = count_recs l.
Proof.
  induction l as [|t r IH]; [reflexivity|].
  unfold visible_recs, count_recs in *. destruct t; simpl; rewrite ?IH; reflexivity.
Qed.

Lemma body_lines_recs : forall brk recs prev, visible_recs (body_lines brk prev recs) = recs.
Proof.
  intros brk recs. induction recs as [|r rest IH]; intros prev; [reflexivity|].
  simpl. destruct prev as [p|].
  - destruct (eq_keys p _); unfold visible_recs in *; simpl; rewrite IH; reflexivity.
  - unfold visible_recs in *; simpl; rewrite IH; reflexivity.
Qed.

Lemma body_lines_count : forall brk recs prev, count_recs (body_lines brk prev recs) = length recs.
Proof. intros. rewrite <- visible_recs_length, body_lines_recs. reflexivity. Qed.

(* a prefix / suffix of the lines shows a prefix / suffix of the records *)
Lemma visible_split : forall l n,
  visible_recs l = visible_recs (firstn n l) ++ visible_recs (skipn n l).
Proof. intros. rewrite <- visible_recs_app, firstn_skipn. reflexivity. Qed.

Lemma visible_firstn : forall l n,
  visible_recs (firstn n l) = firstn (count_recs (firstn n l)) (visible_recs l).
Proof.
  intros l n. rewrite (visible_split l n) at 1.
  rewrite firstn_app_le by (rewrite visible_recs_length; lia).
  rewrite (firstn_all_ge _ (visible_recs (firstn n l))) by (rewrite visible_recs_length; lia). reflexivity.
Qed.

Lemma visible_skipn : forall l n,
  visible_recs (skipn n l) = skipn (count_recs (firstn n l)) (visible_recs l).
Proof.
  intros l n. rewrite (visible_split l n) at 1.
  rewrite skipn_app_exact by (rewrite visible_recs_length; reflexivity). reflexivity.
Qed.

(* no two adjacent service lines: every break line is followed by a record *)
Fixpoint no_adj (l : list tline) : bool :=
  match l with
  | a :: (b :: _) as r => (is_rec a || is_rec b) && no_adj r
  | _ => true
  end.

Lemma body_lines_head : forall brk recs prev,
  match body_lines brk prev recs with
  | [] => True
  | TRec _ :: _ => True
  | TBreak :: TRec _ :: _ => True
  | _ => False
  end.
Proof.
  intros brk recs prev. destruct recs as [|r rest]; simpl; [exact I|].
  destruct prev as [p|]; [destruct (eq_keys p _)|]; exact I.
Qed.

Lemma body_lines_no_adj : forall brk recs prev, no_adj (body_lines brk prev recs) = true.
Proof.
  intros brk recs. induction recs as [|r rest IH]; intros prev; [reflexivity|].
  simpl body_lines.
  set (cur := map (fun c => v_eq (fetch r c)) brk).
  assert (H : no_adj (TRec r :: body_lines brk (Some cur) rest) = true).
  { specialize (IH (Some cur)). destruct (body_lines brk (Some cur) rest) eqn:E; [reflexivity|].
    simpl. simpl in IH. exact IH. }
  destruct prev as [p|]; [destruct (eq_keys p cur)|]; exact H.
Qed.

Lemma no_adj_tail : forall a l, no_adj (a :: l) = true -> no_adj l = true.
Proof. intros a l H. destruct l; [reflexivity|]. simpl in H. apply andb_prop in H. tauto. Qed.

Lemma no_adj_skipn : forall n l, no_adj l = true -> no_adj (skipn n l) = true.
Proof.
  induction n as [|n IH]; intros l H; [exact H|]. destruct l; [reflexivity|].
  simpl. apply IH. eapply no_adj_tail. exact H.
Qed.

Lemma no_adj_firstn : forall n l, no_adj l = true -> no_adj (firstn n l) = true.
Proof.
  induction n as [|n IH]; intros l H; [reflexivity|]. destruct l as [|a l]; [reflexivity|].
  simpl firstn. specialize (IH l (no_adj_tail _ _ H)).
  destruct n; [destruct l; reflexivity|]. destruct l as [|b l]; [reflexivity|].
  simpl firstn in *. simpl in H. apply andb_prop in H. destruct H as [H1 H2].
  simpl. rewrite H1. exact IH.
Qed.

Lemma no_adj_two : forall l, no_adj l = true -> 2 <= length l -> 1 <= count_recs l.
Proof.
  intros l H Hl. destruct l as [|a [|b r]]; simpl in Hl; try lia.
  simpl in H. apply andb_prop in H. destruct H as [H _].
  unfold count_recs. simpl. destruct (is_rec a); simpl; [lia|].
  simpl in H. rewrite H. simpl. lia.
Qed.

(* split of a list into first n, middle, last m *)
Lemma split3 : forall (A : Type) (l : list A) n m, n + m <= length l ->
  l = firstn n l ++ firstn (length l - m - n) (skipn n l) ++ skipn (length l - m) l.
Proof.
  intros A l n m H.
  replace (skipn (length l - m) l) with (skipn (length l - m - n) (skipn n l)).
  - rewrite firstn_skipn. rewrite firstn_skipn. reflexivity.
  - rewrite <- skipn_add. f_equal. lia.
Qed.

Definition limited_view (nf nl : nat) (tl : list tline) : list tline :=
  firstn nf tl ++ [TSkip] ++ skipn (length tl - nl) tl.

Lemma apply_limits_cases : forall lim n tl,
  (apply_limits lim n tl = (tl, 0) /\
   (forall nf nl, lim = (Some nf, Some nl) -> length tl <= nf + nl + limit_slack)) \/
  (exists nf nl, lim = (Some nf, Some nl) /\ nf + nl + limit_slack < length tl /\
     apply_limits lim n tl =
       (limited_view nf nl tl,
        n - (count_recs (firstn nf tl) + count_recs (skipn (length tl - nl) tl)))).
Proof.
  intros [[nf|] [nl|]] n tl; simpl; try (left; split; [reflexivity|intros; discriminate]).
  destruct (nf + nl + limit_slack <? length tl) eqn:E.
  - apply Nat.ltb_lt in E. right. exists nf, nl. split; [reflexivity|]. split; [assumption|].
    unfold limited_view.
    replace (if nf =? 0 then [] else firstn nf tl) with (firstn nf tl)
      by (destruct (nf =? 0) eqn:E0; [apply Nat.eqb_eq in E0; subst; reflexivity|reflexivity]).
    replace (if nl =? 0 then [] else skipn (length tl - nl) tl) with (skipn (length tl - nl) tl).
    + reflexivity.
    + destruct (nl =? 0) eqn:E0; [|reflexivity]. apply Nat.eqb_eq in E0. subst.
      rewrite Nat.sub_0_r. apply skipn_all.
  - apply Nat.ltb_ge in E. left. split; [reflexivity|]. intros a b H. inversion H. subst. assumption.
Qed.

(* the accounting facts about a limited view of lines that have no two adjacent service lines *)
Lemma limited_accounting : forall nf nl tl,
  no_adj tl = true -> nf + nl + limit_slack < length tl ->
  let first := firstn nf tl in
  let last := skipn (length tl - nl) tl in
  let k := count_recs tl - (count_recs first + count_recs last) in
  k + count_recs (limited_view nf nl tl) = count_recs tl /\ 1 <= k /\
  exists a b, a <= b /\ b <= count_recs tl /\ k = b - a /\
    visible_recs (limited_view nf nl tl) = firstn a (visible_recs tl) ++ skipn b (visible_recs tl).
Proof.
  intros nf nl tl Hadj Hlen first last k.
  assert (Hs := slack_pos).
  set (mid := firstn (length tl - nl - nf) (skipn nf tl)).
  assert (Hsplit : tl = first ++ mid ++ last) by (apply split3; lia).
  assert (Hc : count_recs tl = count_recs first + count_recs mid + count_recs last).
  { rewrite Hsplit at 1. rewrite !count_recs_app. lia. }
  assert (Hmid : 1 <= count_recs mid).
  { apply no_adj_two.
    - apply no_adj_firstn, no_adj_skipn. assumption.
    - unfold mid. rewrite firstn_length, skipn_length. lia. }
  assert (Hv : count_recs (limited_view nf nl tl) = count_recs first + count_recs last).
  { unfold limited_view. rewrite !count_recs_app. reflexivity. }
  split; [unfold k; lia|]. split; [unfold k; lia|].
  exists (count_recs first), (count_recs (firstn (length tl - nl) tl)).
  assert (Hb : count_recs (firstn (length tl - nl) tl) = count_recs first + count_recs mid).
  { rewrite <- count_recs_app. f_equal.
    assert (Hl2 : length (first ++ mid) = length tl - nl).
    { rewrite app_length. unfold first, mid. rewrite !firstn_length, skipn_length. lia. }
    rewrite Hsplit at 2. rewrite app_assoc.
    rewrite firstn_app_le by lia. rewrite firstn_all_ge by lia. reflexivity. }
  split; [lia|]. split; [lia|]. split; [unfold k; lia|].
  unfold limited_view. rewrite !visible_recs_app. simpl (visible_recs [TSkip]).
  fold first. fold last. unfold first at 1. rewrite visible_firstn. fold first.
  unfold last. rewrite visible_skipn. reflexivity.
Qed.

(* ------------------------------------------------------------------ the layout of a table *)
Definition t_limited (t : table) : list tline * nat :=
  apply_limits (limits t) (length (t_records t)) (all_table_lines t).
Definition t_vis (t : table) : list tline := fst (t_limited t).
Definition t_skipped (t : table) : nat := snd (t_limited t).
Definition t_ws (t : table) : list nat := widths (t_fields t) (columns t) (t_vis t).
Definition t_inner (t : table) : nat := table_width (t_ws t) - 2.
Definition t_ntitle (t : table) : nat :=
  max_list (map (fun c => length (title_lines (col_field (t_fields t) c))) (columns t)) 0.


Lemma layout_inv : forall t y, layout_of t = Ok y ->
  mods_ok t = true /\ columns t <> [] /\ titles_ok t = true /\
  l_ws y = t_ws t /\
  l_header y = match t_header t with
               | Some ((_ :: _) as h) => [service_line [h] (t_inner t)]
               | _ => []
               end /\
  l_titles y = map (fun i => table_line (map2 (title_cell (t_fields t) i) (columns t) (t_ws t))) (seq 0 (t_ntitle t)) /\
  l_body y = map (fun tl => (tl, render_tline (t_fields t) (columns t) (t_ws t) (t_inner t) (t_skipped t) tl)) (t_vis t) /\
  l_skipped y = t_skipped t /\
  l_footer y = match footer_text t with
               | [] => []
               | f => [fit_text [f] (table_width (t_ws t)) ALeft]
               end.
Proof.
  intros t y H. unfold layout_of in H.
  fold (mods_ok t) in H. destruct (mods_ok t) eqn:Em; simpl in H; [|discriminate].
  unfold t_inner, t_ntitle, titles_ok, t_ws, t_skipped, t_vis, t_limited.
  fold (all_table_lines t) in H.
  destruct (apply_limits (limits t) (length (t_records t)) (all_table_lines t)) as [vis k] eqn:El.
  destruct (columns t) as [|c0 cr] eqn:Ec; [discriminate|].
  destruct (existsb _ (c0 :: cr)) eqn:Et; [discriminate|].
  inversion H. subst y. clear H.
  cbn [l_ws l_header l_titles l_body l_skipped l_footer fst snd].
  repeat split; try reflexivity. discriminate.
Qed.

Lemma layout_ok_iff : forall t,
  (exists y, layout_of t = Ok y) <-> (mods_ok t = true /\ columns t <> [] /\ titles_ok t = true).
Proof.
  intros t. split.
  - intros [y H]. apply layout_inv in H. tauto.
  - intros [Hm [Hc Ht]]. unfold layout_of. fold (mods_ok t). rewrite Hm. simpl.
    fold (all_table_lines t).
    destruct (apply_limits (limits t) (length (t_records t)) (all_table_lines t)) as [vis k].
    unfold titles_ok in Ht. destruct (columns t) as [|c0 cr]; [contradiction|].
    apply negb_true_iff in Ht. rewrite Ht. eexists. reflexivity.
Qed.

Lemma layout_err : forall t e, layout_of t = Err e ->
  (mods_ok t = false /\ e = ValueErr) \/
  (mods_ok t = true /\ columns t = [] /\ e = AssertErr) \/
  (mods_ok t = true /\ columns t <> [] /\ titles_ok t = false /\ e = ValueErr).
Proof.
  intros t e H. unfold layout_of in H. fold (mods_ok t) in H.
  destruct (mods_ok t) eqn:Em; simpl in H; [|left; split; [reflexivity|congruence]].
  right. fold (all_table_lines t) in H.
  destruct (apply_limits (limits t) (length (t_records t)) (all_table_lines t)) as [vis k].
  unfold titles_ok. destruct (columns t) as [|c0 cr] eqn:Ec.
  - left. repeat split; congruence.
  - right. destruct (existsb _ (c0 :: cr)) eqn:Et; [|discriminate].
    repeat split; try congruence.
Qed.

Lemma t_ws_length : forall t, length (t_ws t) = length (columns t).
Proof. intros. apply widths_length. Qed.

Lemma tw_ge_2 : forall t, columns t <> [] -> 2 <= table_width (t_ws t).
Proof.
  intros t H. unfold table_width. rewrite t_ws_length.
  destruct (columns t); [contradiction|]. simpl. lia.
Qed.

Lemma title_cell_len : forall fields i c w, length (title_cell fields i c w) = w.
Proof.
  intros. unfold title_cell. destruct (nth_error _ i) as [[text rt]|]; apply fit_exact_l.
Qed.

Lemma cell_text_len : forall fields r c w, length (cell_text fields c w r) = w.
Proof.
  intros. unfold cell_text. destruct (cell_desired fields c r). apply fit_exact_l.
Qed.

Lemma service_line_len : forall ch inner, length (service_line ch inner) = inner + 2.
Proof. intros. unfold service_line. simpl. rewrite app_length, fit_exact_l. simpl. lia. Qed.

Lemma title_line_cells : forall t i,
  map (@length Z) (map2 (title_cell (t_fields t) i) (columns t) (t_ws t)) = t_ws t.
Proof. intros. apply map2_lengths; [apply title_cell_len|symmetry; apply t_ws_length]. Qed.

Lemma record_line_cells : forall t r,
  map (@length Z) (map2 (fun c w => cell_text (t_fields t) c w r) (columns t) (t_ws t)) = t_ws t.
Proof.
  intros. apply map2_lengths; [intros; apply cell_text_len|symmetry; apply t_ws_length].
Qed.

Lemma render_tline_len : forall t tl, columns t <> [] ->
  length (render_tline (t_fields t) (columns t) (t_ws t) (t_inner t) (t_skipped t) tl) = table_width (t_ws t).
Proof.
  intros t tl Hc. assert (H2 := tw_ge_2 t Hc). destruct tl; cbn [render_tline].
  - unfold record_line. apply table_line_len; [|apply record_line_cells].
    apply map2_nonempty; [assumption|symmetry; apply t_ws_length].
  - cbn [length]. rewrite app_length, spaces_len. unfold t_inner. cbn [length]. lia.
  - rewrite service_line_len. unfold t_inner. lia.
Qed.

Lemma rectangular_l : forall t y, layout_of t = Ok y ->
  Forall (fun l => length l = table_width (l_ws y)) (layout_lines y).
Proof.
  intros t y H. apply layout_inv in H.
  destruct H as (_ & Hc & _ & Hws & Hh & Ht & Hb & _ & Hf).
  assert (H2 := tw_ge_2 t Hc).
  unfold layout_lines. rewrite Hws, Hh, Ht, Hb, Hf. clear Hws Hh Ht Hb Hf.
  repeat (apply Forall_app; split).
  - constructor; [apply border_len|constructor].
  - destruct (t_header t) as [[|x h]|]; constructor; [|constructor].
    rewrite service_line_len. unfold t_inner. lia.
  - apply Forall_forall. intros l Hl. apply in_map_iff in Hl. destruct Hl as [i [Hl _]]. subst l.
    apply table_line_len; [|apply title_line_cells].
    apply map2_nonempty; [assumption|symmetry; apply t_ws_length].
  - constructor; [apply border_len|constructor].
  - rewrite map_map. simpl. apply Forall_forall. intros l Hl. apply in_map_iff in Hl.
    destruct Hl as [tl [Hl _]]. subst l. apply render_tline_len. assumption.
  - constructor; [apply border_len|constructor].
  - destruct (footer_text t); constructor; [|constructor]. apply fit_exact_l.
Qed.

(* ------------------------------------------------------------------ separators *)
Lemma offset_0 : forall ws, offset ws 0 = 0.
Proof. reflexivity. Qed.

Lemma offset_last : forall ws, offset ws (length ws) = table_width ws - 1.
Proof. intros. unfold offset, table_width. rewrite firstn_all. lia. Qed.

Lemma in_body_inv : forall t y tl line, layout_of t = Ok y -> In (tl, line) (l_body y) ->
  In tl (t_vis t) /\
  line = render_tline (t_fields t) (columns t) (t_ws t) (t_inner t) (t_skipped t) tl.
Proof.
  intros t y tl line H Hin. apply layout_inv in H.
  destruct H as (_ & _ & _ & _ & _ & _ & Hb & _). rewrite Hb in Hin.
  apply in_map_iff in Hin. destruct Hin as [x [E Hx]]. inversion E. subst. auto.
Qed.

Lemma separators_l : forall t y, layout_of t = Ok y ->
  forall j, j <= length (l_ws y) ->
    nth (offset (l_ws y) j) (border_line (l_ws y)) 0%Z = c_plus /\
    (forall line, In line (l_titles y) -> nth (offset (l_ws y) j) line 0%Z = c_sep) /\
    (forall r line, In (TRec r, line) (l_body y) -> nth (offset (l_ws y) j) line 0%Z = c_sep).
Proof.
  intros t y H j Hj. assert (Hi := layout_inv t y H).
  destruct Hi as (_ & Hc & _ & Hws & _ & Ht & _). rewrite Hws in *.
  split; [apply border_mark; assumption|]. split.
  - intros line Hl. rewrite Ht in Hl. apply in_map_iff in Hl. destruct Hl as [i [Hl _]]. subst line.
    apply table_line_mark; [|apply title_line_cells|assumption].
    apply map2_nonempty; [assumption|symmetry; apply t_ws_length].
  - intros r line Hl. apply (in_body_inv t y _ _ H) in Hl. destruct Hl as [_ Hl]. subst line.
    cbn [render_tline]. unfold record_line.
    apply table_line_mark; [|apply record_line_cells|assumption].
    apply map2_nonempty; [assumption|symmetry; apply t_ws_length].
Qed.

Lemma last_nth : forall (l : str) x d, nth (length l) (l ++ [x]) d = x.
Proof. intros. rewrite app_nth2 by lia. rewrite Nat.sub_diag. reflexivity. Qed.

(* every line between the borders starts and ends with the separator *)
Lemma edges_l : forall t y, layout_of t = Ok y ->
  forall line, In line (l_header y ++ l_titles y ++ map snd (l_body y)) ->
    nth 0 line 0%Z = c_sep /\ nth (table_width (l_ws y) - 1) line 0%Z = c_sep.
Proof.
  intros t y H line Hin. assert (Hi := layout_inv t y H).
  destruct Hi as (_ & Hc & _ & Hws & Hh & Ht & Hb & _).
  assert (H2 := tw_ge_2 t Hc).
  assert (Hsvc : forall ch, nth 0 (service_line ch (t_inner t)) 0%Z = c_sep /\
                            nth (table_width (t_ws t) - 1) (service_line ch (t_inner t)) 0%Z = c_sep).
  { intros ch. split; [reflexivity|]. unfold service_line.
    replace (table_width (t_ws t) - 1) with (S (length (fit_text ch (t_inner t) ALeft)))
      by (rewrite fit_exact_l; unfold t_inner; lia).
    cbn [nth]. apply last_nth. }
  assert (Hrow : forall cells, cells <> [] -> map (@length Z) cells = t_ws t ->
                   nth 0 (table_line cells) 0%Z = c_sep /\
                   nth (table_width (t_ws t) - 1) (table_line cells) 0%Z = c_sep).
  { intros cells Hne Hl. split.
    - rewrite <- (offset_0 (t_ws t)). apply table_line_mark; auto. lia.
    - rewrite <- offset_last. apply table_line_mark; auto. }
  rewrite Hws. apply in_app_or in Hin. destruct Hin as [Hin|Hin].
  - rewrite Hh in Hin. destruct (t_header t) as [[|x h]|]; simpl in Hin; try contradiction.
    destruct Hin as [Hin|[]]. subst line. apply Hsvc.
  - apply in_app_or in Hin. destruct Hin as [Hin|Hin].
    + rewrite Ht in Hin. apply in_map_iff in Hin. destruct Hin as [i [Hl _]]. subst line.
      apply Hrow; [|apply title_line_cells].
      apply map2_nonempty; [assumption|symmetry; apply t_ws_length].
    + rewrite Hb, map_map in Hin. cbn [snd] in Hin. apply in_map_iff in Hin.
      destruct Hin as [tl [Hl _]]. subst line. destruct tl; cbn [render_tline].
      * unfold record_line. apply Hrow; [|apply record_line_cells].
        apply map2_nonempty; [assumption|symmetry; apply t_ws_length].
      * split; [reflexivity|].
        replace (table_width (t_ws t) - 1) with (S (length (spaces (t_inner t))))
          by (rewrite spaces_len; unfold t_inner; lia).
        cbn [nth]. apply last_nth.
      * apply Hsvc.
Qed.

(* ------------------------------------------------------------------ cell content *)

(* the full text a cell wants to show, and its alignment *)

Lemma cell_text_shown : forall fields c w r,
  cell_text fields c w r = shown (cell_align fields c r) (cell_full fields c r) w.
Proof.
  intros. unfold cell_text, cell_align, cell_full. destruct (cell_desired fields c r) as [ch al].
  apply fit_content_l.
Qed.

Lemma cell_content_l : forall t y r line j, layout_of t = Ok y ->
  In (TRec r, line) (l_body y) -> j < length (columns t) ->
  let c := nth j (columns t) dummy_col in
  let w := nth j (l_ws y) 0 in
  slice (offset (l_ws y) j + 1) w line = shown (cell_align (t_fields t) c r) (cell_full (t_fields t) c r) w.
Proof.
  intros t y r line j H Hin Hj c w. assert (Hi := layout_inv t y H).
  destruct Hi as (_ & Hc & _ & Hws & _). unfold w. rewrite Hws.
  apply (in_body_inv t y _ _ H) in Hin. destruct Hin as [_ Hl]. subst line.
  cbn [render_tline]. unfold record_line.
  rewrite table_line_cell; [|apply record_line_cells|rewrite t_ws_length; assumption].
  rewrite (map2_nth _ _ _ _ (columns t) (t_ws t) j dummy_col 0 []) by (rewrite ?t_ws_length; assumption).
  apply cell_text_shown.
Qed.

(* the full text of a default-type cell is str(value); enum cells per modifier *)
Lemma default_cell_full : forall fields c r, f_kind (col_field fields c) = KDefault ->
  cell_full fields c r = v_text (fetch r c) /\ cell_align fields c r = align_of (v_right (fetch r c)).
Proof.
  intros fields c r H. unfold cell_full, cell_align, cell_desired. rewrite H. simpl.
  rewrite app_nil_r. auto.
Qed.


Lemma enum_cell_full : forall fields c r e, f_kind (col_field fields c) = KEnum e ->
  cell_full fields c r = enum_full e (c_mod c) (fetch r c).
Proof.
  intros fields c r e H. unfold cell_full, cell_desired, enum_full, enum_chunks. rewrite H.
  destruct (enum_entry e (fetch r c)) as [[name vl]|]; [|simpl; apply app_nil_r].
  assert (Hfull : concat ((if 0 <? vl - length (v_text (fetch r c)) then [spaces (vl - length (v_text (fetch r c)))] else [])
                          ++ [v_text (fetch r c); [c_space]; name]) =
                  spaces (vl - length (v_text (fetch r c))) ++ v_text (fetch r c) ++ [c_space] ++ name).
  { destruct (0 <? vl - length (v_text (fetch r c))) eqn:E.
    - simpl. rewrite app_nil_r. reflexivity.
    - apply Nat.ltb_ge in E. replace (vl - length (v_text (fetch r c))) with 0 by lia.
      simpl. rewrite app_nil_r. reflexivity. }
  destruct (c_mod c); cbn [fst]; try exact Hfull; simpl; apply app_nil_r.
Qed.

(* the separately computed length of an enum cell is never smaller than its text,
   provided the value's text is not longer than the key it matched *)
Lemma enum_len_full : forall e m v,
  (forall name vl, enum_entry e v = Some (name, vl) -> length (v_text v) <= vl) ->
  length (enum_full e m v) <= enum_len e m v.
Proof.
  intros e m v H. unfold enum_full, enum_len. destruct (enum_entry e v) as [[name vl]|]; [|lia].
  specialize (H name vl eq_refl).
  destruct m; rewrite ?app_length, ?spaces_len; simpl; lia.
Qed.

(* title cells *)
Lemma title_cell_shown : forall fields i c w,
  title_cell fields i c w =
  match nth_error (title_lines (col_field fields c)) i with
  | Some (text, rt) => shown (align_of rt) text w
  | None => shown ALeft [] w
  end.
Proof.
  intros. unfold title_cell. destruct (nth_error _ i) as [[text rt]|]; rewrite fit_content_l; simpl; rewrite ?app_nil_r; reflexivity.
Qed.

Lemma title_content_l : forall t y i j, layout_of t = Ok y -> i < length (l_titles y) -> j < length (columns t) ->
  slice (offset (l_ws y) j + 1) (nth j (l_ws y) 0) (nth i (l_titles y) []) =
  title_cell (t_fields t) i (nth j (columns t) dummy_col) (nth j (l_ws y) 0).
Proof.
  intros t y i j H Hi Hj. assert (Hv := layout_inv t y H).
  destruct Hv as (_ & Hc & _ & Hws & _ & Ht & _). rewrite Hws, Ht in *.
  rewrite map_length, seq_length in Hi.
  rewrite (nth_map_any _ _ _ (seq 0 (t_ntitle t)) i [] 0) by (rewrite seq_length; assumption).
  rewrite seq_nth by assumption. simpl.
  rewrite table_line_cell; [|apply title_line_cells|rewrite t_ws_length; assumption].
  apply (map2_nth _ _ _ _ (columns t) (t_ws t) j dummy_col 0 []); rewrite ?t_ws_length; assumption.
Qed.

(* header, footer and the service lines *)
Lemma service_line_shown : forall ch inner,
  service_line ch inner = c_sep :: shown ALeft (concat ch) inner ++ [c_sep].
Proof. intros. unfold service_line. rewrite fit_content_l. reflexivity. Qed.

Lemma header_footer_l : forall t y, layout_of t = Ok y ->
  l_header y = match t_header t with
               | Some ((_ :: _) as h) => [c_sep :: shown ALeft h (table_width (l_ws y) - 2) ++ [c_sep]]
               | _ => []
               end /\
  l_footer y = match footer_text t with
               | [] => []
               | f => [shown ALeft f (table_width (l_ws y))]
               end.
Proof.
  intros t y H. apply layout_inv in H. destruct H as (_ & _ & _ & Hws & Hh & _ & _ & _ & Hf).
  rewrite Hws, Hh, Hf. split.
  - destruct (t_header t) as [[|x h]|]; try reflexivity.
    rewrite service_line_shown. simpl. rewrite app_nil_r. reflexivity.
  - destruct (footer_text t); [reflexivity|]. rewrite fit_content_l. simpl. rewrite app_nil_r. reflexivity.
Qed.

Lemma service_body_l : forall t y tl line, layout_of t = Ok y -> In (tl, line) (l_body y) ->
  match tl with
  | TRec _ => True
  | TBreak => line = c_sep :: spaces (table_width (l_ws y) - 2) ++ [c_sep]
  | TSkip => line = c_sep :: shown ALeft (skip_prefix ++ dec (l_skipped y) ++ skip_suffix)
                                   (table_width (l_ws y) - 2) ++ [c_sep]
  end.
Proof.
  intros t y tl line H Hin. assert (Hv := layout_inv t y H).
  destruct Hv as (_ & _ & _ & Hws & _ & _ & _ & Hk & _). rewrite Hws, Hk.
  apply (in_body_inv t y _ _ H) in Hin. destruct Hin as [_ Hl]. subst line.
  destruct tl; cbn [render_tline]; [exact I|reflexivity|].
  rewrite service_line_shown. simpl. rewrite app_nil_r. reflexivity.
Qed.

(* ------------------------------------------------------------------ widths of the layout *)
Lemma width_bounds_l : forall t y, layout_of t = Ok y ->
  Forall (fun c => col_min c <= col_max c) (columns t) ->
  Forall2 in_bounds (columns t) (l_ws y).
Proof.
  intros t y H Hb. apply layout_inv in H. destruct H as (_ & _ & _ & Hws & _). rewrite Hws.
  apply widths_bounds. assumption.
Qed.

Lemma width_exact_l : forall t y j, layout_of t = Ok y -> j < length (columns t) ->
  nth j (l_ws y) 0 =
  want_width (t_fields t) (nth j (columns t) dummy_col) (visible_recs (map fst (l_body y))).
Proof.
  intros t y j H Hj. apply layout_inv in H. destruct H as (_ & _ & _ & Hws & _ & _ & Hb & _).
  rewrite Hws, Hb, map_map. cbn [fst]. rewrite map_id. apply widths_exact. assumption.
Qed.

(* ------------------------------------------------------------------ record accounting of the layout *)
Lemma body_kinds : forall t y, layout_of t = Ok y -> map fst (l_body y) = t_vis t.
Proof.
  intros t y H. apply layout_inv in H. destruct H as (_ & _ & _ & _ & _ & _ & Hb & _).
  rewrite Hb, map_map. cbn [fst]. apply map_id.
Qed.

Lemma all_lines_recs : forall t, visible_recs (all_table_lines t) = t_records t.
Proof. intros. apply body_lines_recs. Qed.

Lemma limits_l : forall t y, layout_of t = Ok y ->
  let recs := t_records t in
  let tl := all_table_lines t in
  let shown_lines := map fst (l_body y) in
  (shown_lines = tl /\ l_skipped y = 0 /\ visible_recs shown_lines = recs /\
   (forall nf nl, limits t = (Some nf, Some nl) -> length tl <= nf + nl + limit_slack))
  \/
  (exists nf nl, limits t = (Some nf, Some nl) /\ nf + nl + limit_slack < length tl /\
     shown_lines = firstn nf tl ++ [TSkip] ++ skipn (length tl - nl) tl /\
     l_skipped y + count_recs shown_lines = length recs /\
     1 <= l_skipped y /\
     exists a b, a <= b /\ b <= length recs /\ l_skipped y = b - a /\
       visible_recs shown_lines = firstn a recs ++ skipn b recs).
Proof.
  intros t y H recs tl shown_lines. unfold shown_lines. rewrite (body_kinds t y H).
  apply layout_inv in H. destruct H as (_ & _ & _ & _ & _ & _ & _ & Hk & _). rewrite Hk.
  unfold t_vis, t_skipped, t_limited. fold tl. fold recs.
  destruct (apply_limits_cases (limits t) (length recs) tl) as [[E Hno]|[nf [nl [El [Hlen E]]]]].
  - left. rewrite E. cbn [fst snd]. repeat split; auto. apply all_lines_recs.
  - right. exists nf, nl. rewrite E. cbn [fst snd].
    assert (Hadj : no_adj tl = true) by apply body_lines_no_adj.
    assert (Hcnt : count_recs tl = length recs) by apply body_lines_count.
    destruct (limited_accounting nf nl tl Hadj Hlen) as (A1 & A2 & a & b & A3 & A4 & A5 & A6).
    assert (Hr : visible_recs tl = recs) by apply all_lines_recs.
    rewrite Hcnt in *. rewrite Hr in A6. unfold limited_view in *.
    repeat split; auto.
    exists a, b. repeat split; auto.
Qed.

(* ------------------------------------------------------------------ decimal numbers *)

Lemma dec_value_app : forall a b acc, dec_value (a ++ b) acc = dec_value b (dec_value a acc).
Proof. induction a as [|x a IH]; intros; simpl; [reflexivity|apply IH]. Qed.

Lemma dec_digits_spec : forall fuel n acc, n < fuel ->
  exists ds, dec_digits fuel n acc = ds ++ acc /\ dec_value ds 0 = n /\
             Forall (fun c => (48 <= c <= 57)%Z) ds /\ ds <> [].
Proof.
  induction fuel as [|f IH]; intros n acc Hn; [lia|].
  cbn [dec_digits].
  assert (Hm : n mod 10 < 10) by (apply Nat.mod_upper_bound; lia).
  assert (Hd : n = 10 * (n / 10) + n mod 10) by (apply Nat.div_mod; lia).
  destruct (n / 10 =? 0) eqn:E.
  - apply Nat.eqb_eq in E. exists [(48 + Z.of_nat (n mod 10))%Z]. repeat split.
    + cbn [dec_value]. lia.
    + constructor; [lia|constructor].
    + discriminate.
  - apply Nat.eqb_neq in E.
    destruct (IH (n / 10) ((48 + Z.of_nat (n mod 10))%Z :: acc)) as [ds [E1 [E2 [E3 E4]]]]; [lia|].
    exists (ds ++ [(48 + Z.of_nat (n mod 10))%Z]). repeat split.
    + rewrite E1, <- app_assoc. reflexivity.
    + rewrite dec_value_app, E2. cbn [dec_value]. lia.
    + apply Forall_app. split; [assumption|]. constructor; [lia|constructor].
    + destruct ds; discriminate.
Qed.

Lemma dec_correct : forall n,
  dec_value (dec n) 0 = n /\ Forall (fun c => (48 <= c <= 57)%Z) (dec n) /\ dec n <> [].
Proof.
  intros n. unfold dec. destruct (dec_digits_spec (S n) n [] (Nat.lt_succ_diag_r n)) as [ds [E1 [E2 [E3 E4]]]].
  rewrite E1, app_nil_r. auto.
Qed.

(* ------------------------------------------------------------------ the comparison done in C12/Run.v is exact *)
Lemma str_eqb_eq : forall a b, str_eqb a b = true <-> a = b.
Proof.
  induction a as [|x a IH]; intros [|y b]; simpl; split; intros H; try reflexivity; try discriminate.
  - apply andb_prop in H. destruct H as [H1 H2]. apply Z.eqb_eq in H1. apply IH in H2. congruence.
  - inversion H. subst. rewrite Z.eqb_refl. simpl. apply IH. reflexivity.
Qed.

Lemma first_diff_none : forall a b i, first_diff a b i = None <-> a = b.
Proof.
  induction a as [|x a IH]; intros [|y b] i; simpl; split; intros H; try reflexivity; try discriminate.
  - destruct (str_eqb x y) eqn:E; [|discriminate]. apply str_eqb_eq in E. apply IH in H. congruence.
  - inversion H. subst. replace (str_eqb y y) with true by (symmetry; apply str_eqb_eq; reflexivity).
    apply IH. reflexivity.
Qed.

Lemma err_eqb_eq : forall e e', err_eqb e e' = true <-> e = e'.
Proof. intros e e'. destruct e, e'; unfold err_eqb; simpl; split; intros H; try reflexivity; discriminate. Qed.

Lemma cmp_lists_ok : forall a b, cmp_lists a b = verdict_ok <-> a = b.
Proof.
  intros a b. unfold cmp_lists, verdict_ok. destruct (first_diff a b 0) as [[[i x] y]|] eqn:E.
  - split; intros H; [discriminate|]. subst.
    assert (E2 : first_diff b b 0 = None) by (apply first_diff_none; reflexivity). congruence.
  - apply first_diff_none in E. subst. split; reflexivity.
Qed.

Lemma cmp_res_ok : forall x y, cmp_res x y = verdict_ok <-> x = y.
Proof.
  intros [a|e] [b|e']; cbn [cmp_res].
  - rewrite cmp_lists_ok. split; congruence.
  - unfold verdict_ok. split; discriminate.
  - unfold verdict_ok. split; discriminate.
  - unfold verdict_ok. destruct (err_eqb e e') eqn:E.
    + apply err_eqb_eq in E. subst. split; reflexivity.
    + split; intros H; [discriminate|]. inversion H. subst.
      assert (E2 : err_eqb e' e' = true) by (apply err_eqb_eq; reflexivity). congruence.
Qed.

Lemma res_eqb_eq : forall x y, res_eqb x y = true <-> x = y.
Proof.
  intros [a|e] [b|e']; cbn [res_eqb].
  - destruct (first_diff a b 0) as [p|] eqn:E.
    + split; intros H; [discriminate|]. inversion H. subst.
      assert (E2 : first_diff b b 0 = None) by (apply first_diff_none; reflexivity). congruence.
    + apply first_diff_none in E. subst. split; reflexivity.
  - split; discriminate.
  - split; discriminate.
  - rewrite err_eqb_eq. split; congruence.
Qed.

Lemma cmp_events_ok : forall a b i, cmp_events a b i = verdict_ok <-> a = b.
Proof.
  induction a as [|x a IH]; intros [|y b] i; cbn [cmp_events].
  - split; reflexivity.
  - unfold verdict_ok. split; discriminate.
  - unfold verdict_ok. split; discriminate.
  - destruct (res_eqb x y) eqn:E.
    + apply res_eqb_eq in E. subst. rewrite IH. split; congruence.
    + unfold verdict_ok. split; intros H; [discriminate|]. inversion H. subst.
      assert (E2 : res_eqb y y = true) by (apply res_eqb_eq; reflexivity). congruence.
Qed.

Lemma run_verdict_l : forall c, run c = verdict_ok <->
  match c with
  | mkCase t expect => render t = expect
  | FitCase chunks w al expect => fit_text chunks w al = expect
  | ResizeCase chunks n expect => concat (resize_chunks_list chunks n) = expect
  | HistCase ts ops expect => hist_events ts ops = expect
  end.
Proof.
  intros [t expect|chunks w al expect|chunks n expect|ts ops expect]; cbn [run];
    try (rewrite cmp_lists_ok; split; intros H; [inversion H; reflexivity|subst; reflexivity]).
  - apply cmp_res_ok.
  - apply cmp_events_ok.
Qed.

(* ------------------------------------------------------------------ a few corollaries used in Props.v *)
Lemma truncation_l : forall al t w, w < length t ->
  exists d, d = Nat.min dots_max w /\ (1 <= w -> 1 <= d) /\ d <= w /\
            shown al t w = firstn (w - d) t ++ repeat c_dot d.
Proof.
  intros al t w H. exists (Nat.min dots_max w). assert (Hd := dots_pos).
  repeat split; try lia.
  unfold shown. replace (length t <=? w) with false by (symmetry; apply Nat.leb_gt; lia). reflexivity.
Qed.

Lemma padded_l : forall al t w, length t <= w -> shown al t w = pad al t w.
Proof.
  intros al t w H. unfold shown. replace (length t <=? w) with true by (symmetry; apply Nat.leb_le; lia). reflexivity.
Qed.

Lemma body_lines_no_skip : forall brk recs prev, ~ In TSkip (body_lines brk prev recs).
Proof.
  intros brk recs. induction recs as [|r rest IH]; intros prev H; [exact H|].
  simpl in H. destruct prev as [p|]; [destruct (eq_keys p _)|]; simpl in H;
    repeat (destruct H as [H|H]; try discriminate); eapply IH; exact H.
Qed.

Lemma limits_nontrivial_l : forall t y, layout_of t = Ok y ->
  In TSkip (map fst (l_body y)) -> 1 <= l_skipped y.
Proof.
  intros t y H Hin. destruct (limits_l t y H) as [[E _]|[nf [nl (_ & _ & _ & _ & Hk & _)]]].
  - rewrite E in Hin. apply body_lines_no_skip in Hin. contradiction.
  - exact Hk.
Qed.

Lemma render_layout : forall t ls,
  render t = Ok ls <-> exists y, layout_of t = Ok y /\ ls = layout_lines y.
Proof.
  intros t ls. unfold render. destruct (layout_of t) as [y|e]; split.
  - intros H. inversion H. exists y. auto.
  - intros [y' [H1 H2]]. inversion H1. subst. reflexivity.
  - discriminate.
  - intros [y' [H1 _]]. discriminate.
Qed.

Lemma render_err : forall t e, render t = Err e <-> layout_of t = Err e.
Proof.
  intros t e. unfold render. destruct (layout_of t); split; intros H; try discriminate; congruence.
Qed.
