(* C16/LemFmt.v -- the id format is injective in the sequence number *)
From Coq Require Import ZArith List Bool Lia.
From AK Require Import C16.Instr gen.C16_Consts C16.Model.
Import ListNotations.
Open Scope Z_scope.

Definition is_digit (c : Z) : bool := (48 <=? c) && (c <=? 57).

Fixpoint val_le (ds : list Z) : Z :=
  match ds with [] => 0 | d :: r => (d - 48) + 10 * val_le r end.
Definition val_be (s : list Z) : Z := fold_left (fun acc c => acc * 10 + (c - 48)) s 0.

Fixpoint takewhile (p : Z -> bool) (l : list Z) : list Z :=
  match l with [] => [] | x :: r => if p x then x :: takewhile p r else [] end.
Definition digit_suffix (s : list Z) : list Z := rev (takewhile is_digit (rev s)).

Lemma digits_le_val fuel : forall n, 0 <= n < 2 ^ Z.of_nat fuel -> val_le (digits_le fuel n) = n.
Proof.
  induction fuel as [|f IH]; intros n Hn.
  - cbn in *. lia.
  - cbn [digits_le]. destruct (n <=? 0) eqn:E.
    + apply Z.leb_le in E. cbn. lia.
    + apply Z.leb_gt in E. cbn [val_le].
      rewrite IH.
      * pose proof (Z.div_mod n 10 ltac:(lia)). lia.
      * split; [apply Z.div_pos; lia|].
        apply Z.div_lt_upper_bound; [lia|].
        rewrite Nat2Z.inj_succ, Z.pow_succ_r in Hn by lia. lia.
Qed.

Lemma digits_le_digit fuel : forall n, Forall (fun c => is_digit c = true) (digits_le fuel n).
Proof.
  induction fuel as [|f IH]; intros n; cbn [digits_le]; [constructor|].
  destruct (n <=? 0); [constructor|]. constructor; [|apply IH].
  unfold is_digit. pose proof (Z.mod_pos_bound n 10 ltac:(lia)).
  apply andb_true_intro; split; apply Z.leb_le; lia.
Qed.

Lemma val_be_snoc s c : val_be (s ++ [c]) = val_be s * 10 + (c - 48).
Proof. unfold val_be. rewrite fold_left_app. reflexivity. Qed.

Lemma val_be_rev ds : val_be (rev ds) = val_le ds.
Proof.
  induction ds as [|d r IH]; [reflexivity|].
  cbn [rev val_le]. rewrite val_be_snoc, IH. lia.
Qed.

Lemma val_be_zeros k ds : val_be (repeat 48 k ++ ds) = val_be ds.
Proof.
  unfold val_be. rewrite fold_left_app. f_equal.
  induction k as [|k IH]; [reflexivity|]. cbn [repeat fold_left]. exact IH.
Qed.

Lemma dec_val n : 0 <= n -> val_be (dec n) = n.
Proof.
  intros Hn. unfold dec. destruct (n <=? 0) eqn:E.
  - apply Z.leb_le in E. cbn. lia.
  - apply Z.leb_gt in E. rewrite val_be_rev. apply digits_le_val.
    split; [lia|].
    pose proof (Z.log2_nonneg n). pose proof (Z.log2_spec n E) as [_ H2].
    rewrite Nat2Z.inj_succ, Z2Nat.id by lia. exact H2.
Qed.

Lemma dec_digits n : Forall (fun c => is_digit c = true) (dec n).
Proof.
  unfold dec. destruct (n <=? 0).
  - constructor; [reflexivity|constructor].
  - apply Forall_rev. apply digits_le_digit.
Qed.

Lemma pad_val w n : 0 <= n -> val_be (pad w (dec n)) = n.
Proof. intros. unfold pad. rewrite val_be_zeros. apply dec_val. assumption. Qed.

Lemma pad_digits w n : Forall (fun c => is_digit c = true) (pad w (dec n)).
Proof.
  unfold pad. apply Forall_app. split; [|apply dec_digits].
  induction (w - length (dec n))%nat; cbn [repeat]; constructor; [reflexivity|assumption].
Qed.

Lemma takewhile_stop p l c r :
  Forall (fun x => p x = true) l -> p c = false -> takewhile p (l ++ c :: r) = l.
Proof.
  induction 1 as [|x l Hx _ IH]; intros Hc; cbn [app takewhile].
  - rewrite Hc. reflexivity.
  - rewrite Hx, IH by assumption. reflexivity.
Qed.

Lemma digit_suffix_spec a c p :
  is_digit c = false -> Forall (fun x => is_digit x = true) p ->
  digit_suffix (a ++ c :: p) = p.
Proof.
  intros Hc Hp. unfold digit_suffix.
  rewrite rev_app_distr. cbn [rev]. rewrite <- app_assoc. cbn [app].
  rewrite takewhile_stop; [apply rev_involutive|apply Forall_rev; exact Hp|exact Hc].
Qed.

(* obligation on the separator read from the source: it ends with a non-digit *)
Definition sep_ok (s : list Z) : bool :=
  match rev s with c :: _ => negb (is_digit c) | [] => false end.

Lemma sep_ok_split s : sep_ok s = true -> exists a c, s = a ++ [c] /\ is_digit c = false.
Proof.
  unfold sep_ok. destruct (rev s) as [|c r] eqn:E; [discriminate|].
  intros H. exists (rev r), c. split.
  - rewrite <- (rev_involutive s), E. reflexivity.
  - apply negb_true_iff. exact H.
Qed.

Lemma fmt_sep_ok : sep_ok fmt_sep = true.
Proof. vm_compute. reflexivity. Qed.

Lemma fmt_suffix cp n : digit_suffix (fmt cp n) = pad fmt_w2 (dec n).
Proof.
  destruct (sep_ok_split _ fmt_sep_ok) as (a & c & Hs & Hc).
  unfold fmt. rewrite Hs.
  replace (cp ++ pad fmt_w1 (dec (n mod fmt_mod)) ++ (a ++ [c]) ++ pad fmt_w2 (dec n))
    with ((cp ++ pad fmt_w1 (dec (n mod fmt_mod)) ++ a) ++ c :: pad fmt_w2 (dec n)).
  - apply digit_suffix_spec; [exact Hc|apply pad_digits].
  - repeat rewrite <- app_assoc. reflexivity.
Qed.

Lemma id_injective_l cp1 cp2 n m : 0 <= n -> 0 <= m -> fmt cp1 n = fmt cp2 m -> n = m.
Proof.
  intros Hn Hm H.
  apply (f_equal digit_suffix) in H. rewrite !fmt_suffix in H.
  apply (f_equal val_be) in H. rewrite !pad_val in H by assumption. exact H.
Qed.

Lemma fmt_injective_on cp l :
  (forall n, In n l -> 0 <= n) -> NoDup l -> NoDup (map (fmt cp) l).
Proof.
  induction l as [|x r IH]; intros Hpos Hnd; cbn [map]; [constructor|].
  inversion Hnd as [|? ? Hx Hr]; subst. constructor.
  - intros Hin. apply in_map_iff in Hin as (y & Hy & Hin).
    apply id_injective_l in Hy; [subst; contradiction| |]; apply Hpos; [right|left]; auto.
  - apply IH; [intros; apply Hpos; right; assumption|assumption].
Qed.
