(* C02/LemFollow.v -- follow_sets (model of _calc_follow_sets) is exactly the
   inductive relation Follow. *)
From Coq Require Import ZArith List Bool Lia.
From AK Require Import Common.Err LLP.Base LLP.Table C02.Model C02.Spec C02.LemBase C02.LemNull C02.LemFirst.
Import ListNotations.

Lemma fold_left_ext2 : forall {A B} (f h : A -> B -> A), (forall a b, f a b = h a b) ->
  forall l a, fold_left f l a = fold_left h l a.
Proof.
  intros A B f h H l. induction l as [|b l IH]; simpl; intro a; auto. rewrite H. apply IH.
Qed.

Section CFollow.
  Variables terms nulls : list sym.
  Variable fs : setmap.

  Notation cfirst := (cfirst terms nulls fs).
  Notation allnull := (forallb (fun x => mem x nulls)).

  (* ---- follow_scan ---- *)
  Lemma follow_scan_snd : forall rest fol, snd (follow_scan terms nulls fs rest fol) = allnull rest.
  Proof.
    induction rest as [|nx r IH]; simpl; intro fol; auto.
    destruct (mem nx nulls); simpl; auto.
  Qed.

  Lemma follow_scan_In : forall rest fol t,
    In t (fst (follow_scan terms nulls fs rest fol)) <-> In t fol \/ cfirst rest t.
  Proof.
    induction rest as [|nx r IH]; simpl; intros fol t.
    - split; [auto|]. intros [H|H]; auto. exfalso. apply (cfirst_nil _ _ _ _ H).
    - rewrite cfirst_cons. destruct (mem nx nulls) eqn:E.
      + rewrite IH. rewrite accs_In. intuition.
      + simpl. rewrite accs_In. intuition. discriminate.
  Qed.

  Lemma follow_scan_ext : forall rest fol, exists e, fst (follow_scan terms nulls fs rest fol) = fol ++ e.
  Proof.
    induction rest as [|nx r IH]; simpl; intro fol.
    - exists []. rewrite app_nil_r. reflexivity.
    - destruct (accs_ext terms fs nx fol) as [e1 E1]. destruct (mem nx nulls).
      + destruct (IH (if mem nx terms then add_set nx fol else union_set fol (sm_get fs nx))) as [e2 E2].
        exists (e1 ++ e2). rewrite E2, E1. rewrite app_assoc. reflexivity.
      + exists e1. exact E1.
  Qed.

  Lemma follow_scan_ok : forall rest fol, sets_ok terms fs -> NoDup fol -> incl fol terms ->
    NoDup (fst (follow_scan terms nulls fs rest fol)) /\ incl (fst (follow_scan terms nulls fs rest fol)) terms.
  Proof.
    induction rest as [|nx r IH]; simpl; intros fol Hf Hn Hi; auto.
    destruct (accs_ok terms fs nx fol Hf Hn Hi) as [A B]. destruct (mem nx nulls); auto.
  Qed.

  (* ---- occurrences of a non-terminal in a production ---- *)
  Definition imm (p : list sym) (X t : sym) : Prop :=
    exists pre post, p = pre ++ X :: post /\ mem X terms = false /\ cfirst post t.
  Definition depo (p : list sym) (X : sym) : Prop :=
    exists pre post, p = pre ++ X :: post /\ mem X terms = false /\ allnull post = true.

  Lemma imm_nil : forall X t, ~ imm [] X t.
  Proof. intros X t [pre [post [E _]]]. destruct pre; discriminate. Qed.
  Lemma depo_nil : forall X, ~ depo [] X.
  Proof. intros X [pre [post [E _]]]. destruct pre; discriminate. Qed.

  Lemma imm_cons : forall c rest X t,
    imm (c :: rest) X t <-> (X = c /\ mem c terms = false /\ cfirst rest t) \/ imm rest X t.
  Proof.
    intros c rest X t. split.
    - intros [pre [post [E [Hx Hc]]]]. destruct pre as [|y pre]; simpl in E; inversion E; subst.
      + left. auto.
      + right. exists pre, post. auto.
    - intros [[E [Hx Hc]]|[pre [post [E [Hx Hc]]]]].
      + subst. exists [], rest. auto.
      + subst. exists (c :: pre), post. auto.
  Qed.

  Lemma depo_cons : forall c rest X,
    depo (c :: rest) X <-> (X = c /\ mem c terms = false /\ allnull rest = true) \/ depo rest X.
  Proof.
    intros c rest X. split.
    - intros [pre [post [E [Hx Hc]]]]. destruct pre as [|y pre]; simpl in E; inversion E; subst.
      + left. auto.
      + right. exists pre, post. auto.
    - intros [[E [Hx Hc]]|[pre [post [E [Hx Hc]]]]].
      + subst. exists [], rest. auto.
      + subst. exists (c :: pre), post. auto.
  Qed.

  (* ---- follow_prod ---- *)
  Lemma follow_prod_cons_t : forall nt c rest fol deps, mem c terms = true ->
    follow_prod terms nulls fs nt (c :: rest) fol deps = follow_prod terms nulls fs nt rest fol deps.
  Proof. intros. simpl. rewrite H. reflexivity. Qed.

  Lemma follow_prod_cons_n : forall nt c rest fol deps, mem c terms = false ->
    follow_prod terms nulls fs nt (c :: rest) fol deps =
    follow_prod terms nulls fs nt rest
      (sm_set fol c (fst (follow_scan terms nulls fs rest (sm_get fol c))))
      (if allnull rest then sm_set deps c (add_set nt (sm_get deps c)) else deps).
  Proof.
    intros nt c rest fol deps H. simpl. rewrite H.
    rewrite <- (follow_scan_snd rest (sm_get fol c)).
    destruct (follow_scan terms nulls fs rest (sm_get fol c)) as [f' a]. reflexivity.
  Qed.

  Lemma follow_prod_ext : forall nt p fol deps,
    ext fol (fst (follow_prod terms nulls fs nt p fol deps)) /\
    ext deps (snd (follow_prod terms nulls fs nt p fol deps)).
  Proof.
    intros nt p. induction p as [|c rest IH]; intros fol deps.
    - simpl. split; apply ext_refl.
    - destruct (mem c terms) eqn:E.
      + rewrite follow_prod_cons_t; auto.
      + rewrite follow_prod_cons_n; auto.
        match goal with |- ext _ (fst (follow_prod _ _ _ _ _ ?F ?D)) /\ _ =>
          destruct (IH F D) as [A B]; assert (EF : ext fol F); [|assert (ED : ext deps D)] end.
        * apply ext_sm_set. apply follow_scan_ext.
        * destruct (allnull rest); [|apply ext_refl]. apply ext_sm_set. apply add_set_ext.
        * split; eapply ext_trans; eauto.
  Qed.

  Lemma follow_prod_ok : forall nt p fol deps, sets_ok terms fs -> sets_ok terms fol ->
    sets_ok terms (fst (follow_prod terms nulls fs nt p fol deps)).
  Proof.
    intros nt p. induction p as [|c rest IH]; intros fol deps Hf H; auto.
    destruct (mem c terms) eqn:E.
    - rewrite follow_prod_cons_t; auto.
    - rewrite follow_prod_cons_n; auto. apply IH; auto.
      destruct (sets_ok_get terms fol c H) as [A B].
      destruct (follow_scan_ok rest _ Hf A B) as [C D]. apply sets_ok_set; auto.
  Qed.

  Lemma follow_prod_sound : forall nt p fol deps X,
    (forall t, In t (sm_get (fst (follow_prod terms nulls fs nt p fol deps)) X) ->
               In t (sm_get fol X) \/ imm p X t) /\
    (forall d, In d (sm_get (snd (follow_prod terms nulls fs nt p fol deps)) X) ->
               In d (sm_get deps X) \/ (d = nt /\ depo p X)).
  Proof.
    intros nt p. induction p as [|c rest IH]; intros fol deps X.
    - simpl. split; auto.
    - destruct (mem c terms) eqn:E.
      + rewrite follow_prod_cons_t; auto. destruct (IH fol deps X) as [A B]. split.
        * intros t H. destruct (A t H) as [G|G]; auto. right. apply imm_cons. auto.
        * intros d H. destruct (B d H) as [G|[G1 G2]]; auto. right. split; auto. apply depo_cons. auto.
      + rewrite follow_prod_cons_n; auto.
        match goal with |- (forall t, In t (sm_get (fst (follow_prod _ _ _ _ _ ?F ?D)) X) -> _) /\ _ =>
          destruct (IH F D X) as [A B] end. split.
        * intros t H. destruct (A t H) as [G|G]; [|right; apply imm_cons; auto].
          destruct (sm_get_set_cases fol c (fst (follow_scan terms nulls fs rest (sm_get fol c))) X)
            as [[E1 [_ E2]]|E2]; rewrite E2 in G; auto.
          subst X. apply follow_scan_In in G. destruct G as [G|G]; auto.
          right. apply imm_cons. left. auto.
        * intros d H. destruct (B d H) as [G|[G1 G2]]; [|right; split; auto; apply depo_cons; auto].
          destruct (allnull rest) eqn:EA; auto.
          destruct (sm_get_set_cases deps c (add_set nt (sm_get deps c)) X) as [[E1 [_ E2]]|E2];
            rewrite E2 in G; auto.
          subst X. apply add_set_In in G. destruct G as [G|G]; auto.
          right. split; auto. apply depo_cons. left. auto.
  Qed.

  Lemma follow_prod_complete : forall nt p fol deps X,
    (forall Y, In Y p -> mem Y terms = false -> In Y (map fst fol) /\ In Y (map fst deps)) ->
    (forall t, imm p X t -> In t (sm_get (fst (follow_prod terms nulls fs nt p fol deps)) X)) /\
    (depo p X -> In nt (sm_get (snd (follow_prod terms nulls fs nt p fol deps)) X)).
  Proof.
    intros nt p. induction p as [|c rest IH]; intros fol deps X HK.
    - split; [intros t H; exfalso; apply (imm_nil _ _ H)|intro H; exfalso; apply (depo_nil _ H)].
    - destruct (mem c terms) eqn:E.
      + rewrite follow_prod_cons_t; auto.
        destruct (IH fol deps X) as [A B]; [intros Y HY; apply HK; right; exact HY|]. split.
        * intros t H. apply imm_cons in H. destruct H as [[E1 [E2 _]]|H]; auto. congruence.
        * intro H. apply depo_cons in H. destruct H as [[E1 [E2 _]]|H]; auto. congruence.
      + rewrite follow_prod_cons_n; auto.
        destruct (HK c (or_introl eq_refl) E) as [K1 K2].
        match goal with |- (forall t, _ -> In t (sm_get (fst (follow_prod _ _ _ _ _ ?F ?D)) X)) /\ _ =>
          destruct (IH F D X) as [A B]; [|destruct (follow_prod_ext nt rest F D) as [XF XD]] end.
        { intros Y HY HT. destruct (HK Y (or_intror HY) HT) as [Q1 Q2]. split.
          - rewrite sm_set_keys. exact Q1.
          - destruct (allnull rest); auto. rewrite sm_set_keys. exact Q2. }
        split.
        * intros t H. apply imm_cons in H. destruct H as [[E1 [E2 H]]|H]; auto.
          subst X. eapply ext_get_In; [exact XF|]. rewrite sm_get_set_same; auto.
          apply follow_scan_In. auto.
        * intro H. apply depo_cons in H. destruct H as [[E1 [E2 H]]|H]; auto.
          subst X. eapply ext_get_In; [exact XD|]. rewrite H. rewrite sm_get_set_same; auto.
          apply add_set_In. auto.
  Qed.

  (* ---- all the productions: phase 1 ---- *)
  Definition fp_rules (nt : sym) (rules : list rule) (st : setmap * setmap) : setmap * setmap :=
    fold_left (fun st r => follow_prod terms nulls fs nt (rprod r) (fst st) (snd st)) rules st.
  Definition fp_all (l : grammar) (st : setmap * setmap) : setmap * setmap :=
    fold_left (fun st kv => fp_rules (fst kv) (snd kv) st) l st.

  Lemma fp_rules_ext : forall nt rules st,
    ext (fst st) (fst (fp_rules nt rules st)) /\ ext (snd st) (snd (fp_rules nt rules st)).
  Proof.
    intros nt rules. unfold fp_rules. induction rules as [|r rules IH]; simpl; intro st.
    - split; apply ext_refl.
    - destruct (follow_prod_ext nt (rprod r) (fst st) (snd st)) as [A B].
      destruct (IH (follow_prod terms nulls fs nt (rprod r) (fst st) (snd st))) as [C D].
      split; eapply ext_trans; eauto.
  Qed.

  Lemma fp_all_ext : forall l st,
    ext (fst st) (fst (fp_all l st)) /\ ext (snd st) (snd (fp_all l st)).
  Proof.
    unfold fp_all. induction l as [|kv l IH]; simpl; intro st.
    - split; apply ext_refl.
    - destruct (fp_rules_ext (fst kv) (snd kv) st) as [A B].
      destruct (IH (fp_rules (fst kv) (snd kv) st)) as [C D].
      split; eapply ext_trans; eauto.
  Qed.

  Lemma fp_rules_ok : forall nt rules st, sets_ok terms fs -> sets_ok terms (fst st) ->
    sets_ok terms (fst (fp_rules nt rules st)).
  Proof.
    intros nt rules. unfold fp_rules. induction rules as [|r rules IH]; simpl; intros st Hf H; auto.
    apply IH; auto. apply follow_prod_ok; auto.
  Qed.

  Lemma fp_all_ok : forall l st, sets_ok terms fs -> sets_ok terms (fst st) ->
    sets_ok terms (fst (fp_all l st)).
  Proof.
    unfold fp_all. induction l as [|kv l IH]; simpl; intros st Hf H; auto.
    apply IH; auto. apply fp_rules_ok; auto.
  Qed.

  Lemma fp_rules_sound : forall nt rules st X,
    (forall t, In t (sm_get (fst (fp_rules nt rules st)) X) ->
               In t (sm_get (fst st) X) \/ exists r, In r rules /\ imm (rprod r) X t) /\
    (forall d, In d (sm_get (snd (fp_rules nt rules st)) X) ->
               In d (sm_get (snd st) X) \/ (d = nt /\ exists r, In r rules /\ depo (rprod r) X)).
  Proof.
    intros nt rules. unfold fp_rules. induction rules as [|r rules IH]; simpl; intros st X.
    - split; auto.
    - destruct (IH (follow_prod terms nulls fs nt (rprod r) (fst st) (snd st)) X) as [A B].
      destruct (follow_prod_sound nt (rprod r) (fst st) (snd st) X) as [C D]. split.
      + intros t H. destruct (A t H) as [G|[r' [G1 G2]]].
        * destruct (C t G) as [G'|G']; auto. right. exists r. auto.
        * right. exists r'. auto.
      + intros d H. destruct (B d H) as [G|[G0 [r' [G1 G2]]]].
        * destruct (D d G) as [G'|[G1 G2]]; auto. right. split; auto. exists r. auto.
        * right. split; auto. exists r'. auto.
  Qed.

  Lemma fp_all_sound : forall l st X,
    (forall t, In t (sm_get (fst (fp_all l st)) X) ->
               In t (sm_get (fst st) X) \/
               exists nt rules r, In (nt, rules) l /\ In r rules /\ imm (rprod r) X t) /\
    (forall d, In d (sm_get (snd (fp_all l st)) X) ->
               In d (sm_get (snd st) X) \/
               exists rules r, In (d, rules) l /\ In r rules /\ depo (rprod r) X).
  Proof.
    unfold fp_all. induction l as [|[nt rules] l IH]; simpl; intros st X.
    - split; auto.
    - destruct (IH (fp_rules nt rules st) X) as [A B].
      destruct (fp_rules_sound nt rules st X) as [C D]. split.
      + intros t H. destruct (A t H) as [G|[nt' [rules' [r [G1 [G2 G3]]]]]].
        * destruct (C t G) as [G'|[r [G1 G2]]]; auto. right. exists nt, rules, r. auto.
        * right. exists nt', rules', r. auto.
      + intros d H. destruct (B d H) as [G|[rules' [r [G1 [G2 G3]]]]].
        * destruct (D d G) as [G'|[G0 [r [G1 G2]]]]; auto. subst d. right. exists rules, r. auto.
        * right. exists rules', r. auto.
  Qed.

  Definition keys_in (p : list sym) (st : setmap * setmap) : Prop :=
    forall Y, In Y p -> mem Y terms = false -> In Y (map fst (fst st)) /\ In Y (map fst (snd st)).

  Lemma keys_in_ext : forall p st st', ext (fst st) (fst st') -> ext (snd st) (snd st') ->
    keys_in p st -> keys_in p st'.
  Proof.
    intros p st st' E1 E2 H Y HY HT. destruct (H Y HY HT) as [A B].
    rewrite (ext_keys _ _ E1), (ext_keys _ _ E2). auto.
  Qed.

  Lemma fp_rules_complete : forall nt rules st X r,
    (forall r', In r' rules -> keys_in (rprod r') st) -> In r rules ->
    (forall t, imm (rprod r) X t -> In t (sm_get (fst (fp_rules nt rules st)) X)) /\
    (depo (rprod r) X -> In nt (sm_get (snd (fp_rules nt rules st)) X)).
  Proof.
    intros nt rules. unfold fp_rules. induction rules as [|r0 rules IH]; simpl; intros st X r HK Hr; [contradiction|].
    destruct (follow_prod_ext nt (rprod r0) (fst st) (snd st)) as [E1 E2].
    destruct Hr as [Hr|Hr].
    - subst r0.
      destruct (follow_prod_complete nt (rprod r) (fst st) (snd st) X (HK r (or_introl eq_refl))) as [A B].
      destruct (fp_rules_ext nt rules (follow_prod terms nulls fs nt (rprod r) (fst st) (snd st))) as [F1 F2].
      unfold fp_rules in F1, F2. split.
      + intros t H. eapply ext_get_In; [exact F1|]. auto.
      + intro H. eapply ext_get_In; [exact F2|]. auto.
    - apply IH; auto. intros r' Hr'. eapply keys_in_ext; [exact E1|exact E2|]. apply HK. auto.
  Qed.

  Lemma fp_all_complete : forall l st X nt rules r,
    (forall nt' rules' r', In (nt', rules') l -> In r' rules' -> keys_in (rprod r') st) ->
    In (nt, rules) l -> In r rules ->
    (forall t, imm (rprod r) X t -> In t (sm_get (fst (fp_all l st)) X)) /\
    (depo (rprod r) X -> In nt (sm_get (snd (fp_all l st)) X)).
  Proof.
    unfold fp_all. induction l as [|[nt0 rules0] l IH]; simpl; intros st X nt rules r HK Hl Hr; [contradiction|].
    destruct (fp_rules_ext nt0 rules0 st) as [E1 E2].
    destruct Hl as [Hl|Hl].
    - inversion Hl; subst nt0 rules0.
      destruct (fp_rules_complete nt rules st X r) as [A B]; auto.
      { intros r' Hr'. apply (HK nt rules r'); auto. }
      destruct (fp_all_ext l (fp_rules nt rules st)) as [F1 F2]. unfold fp_all in F1, F2. split.
      + intros t H. eapply ext_get_In; [exact F1|]. auto.
      + intro H. eapply ext_get_In; [exact F2|]. auto.
    - apply (IH _ X nt rules r); auto. intros nt' rules' r' H1 H2. eapply keys_in_ext; [exact E1|exact E2|].
      apply (HK nt' rules' r'); auto.
  Qed.

  (* ---- phase 2: closure under the dependencies ---- *)
  Definition dunion (fol : setmap) (ds : list sym) (acc : list sym) : list sym :=
    fold_left (fun acc d => union_set acc (sm_get fol d)) ds acc.
  Definition cstep_f (fol : setmap) (kv : sym * list sym) : setmap :=
    sm_set fol (fst kv) (dunion fol (snd kv) (sm_get fol (fst kv))).

  Lemma close_step_unfold : forall deps fol, follow_close_step deps fol = fold_left cstep_f deps fol.
  Proof.
    induction deps as [|[s ds] deps IH]; intro fol; [reflexivity|].
    unfold follow_close_step in *. simpl. rewrite IH. reflexivity.
  Qed.

  Lemma dunion_In : forall fol ds acc t,
    In t (dunion fol ds acc) <-> In t acc \/ exists d, In d ds /\ In t (sm_get fol d).
  Proof.
    intros fol ds. unfold dunion. induction ds as [|d0 ds IH]; simpl; intros acc t.
    - split; [auto|]. intros [H|[d [[] _]]]; auto.
    - rewrite IH. rewrite union_set_In. split.
      + intros [[H|H]|[d [H1 H2]]]; auto.
        * right. exists d0. auto.
        * right. exists d. auto.
      + intros [H|[d [[H1|H1] H2]]]; auto.
        * subst. auto.
        * right. exists d. auto.
  Qed.

  Lemma dunion_ext : forall fol ds acc, exists e, dunion fol ds acc = acc ++ e.
  Proof.
    intros fol ds. unfold dunion. induction ds as [|d0 ds IH]; simpl; intro acc.
    - exists []. rewrite app_nil_r. reflexivity.
    - destruct (union_set_ext (sm_get fol d0) acc) as [e1 E1].
      destruct (IH (union_set acc (sm_get fol d0))) as [e2 E2].
      exists (e1 ++ e2). rewrite E2, E1. rewrite app_assoc. reflexivity.
  Qed.

  Lemma dunion_ok : forall fol ds acc, sets_ok terms fol -> NoDup acc -> incl acc terms ->
    NoDup (dunion fol ds acc) /\ incl (dunion fol ds acc) terms.
  Proof.
    intros fol ds. unfold dunion. induction ds as [|d0 ds IH]; simpl; intros acc Hf Hn Hi; auto.
    apply IH; auto.
    - apply union_set_NoDup. exact Hn.
    - intros x Hx. apply union_set_In in Hx. destruct Hx as [Hx|Hx]; auto.
      apply (proj2 (sets_ok_get terms fol d0 Hf)). exact Hx.
  Qed.

  Lemma cstep_f_ext : forall fol kv, ext fol (cstep_f fol kv).
  Proof. intros fol kv. unfold cstep_f. apply ext_sm_set. apply dunion_ext. Qed.

  Lemma cstep_ext : forall l fol, ext fol (fold_left cstep_f l fol).
  Proof.
    induction l as [|kv l IH]; simpl; intro fol; [apply ext_refl|].
    eapply ext_trans; [apply cstep_f_ext|apply IH].
  Qed.

  Lemma cstep_ok : forall l fol, sets_ok terms fol -> sets_ok terms (fold_left cstep_f l fol).
  Proof.
    induction l as [|kv l IH]; simpl; intros fol H; auto. apply IH. unfold cstep_f.
    destruct (sets_ok_get terms fol (fst kv) H) as [A B].
    destruct (dunion_ok fol (snd kv) _ H A B) as [C D]. apply sets_ok_set; auto.
  Qed.

  Lemma cstep_sound : forall (P : sym -> sym -> Prop) l fol,
    (forall s ds d t, In (s, ds) l -> In d ds -> P d t -> P s t) ->
    (forall k x, In x (sm_get fol k) -> P k x) ->
    forall k x, In x (sm_get (fold_left cstep_f l fol) k) -> P k x.
  Proof.
    intros P l. induction l as [|[s ds] l IH]; simpl; intros fol Hl Hf k x Hx; auto.
    revert k x Hx. apply IH.
    - intros s' ds' d t H1 H2 H3. apply (Hl s' ds' d t); auto.
    - intros k x Hx. unfold cstep_f in Hx. simpl in Hx.
      destruct (sm_get_set_cases fol s (dunion fol ds (sm_get fol s)) k) as [[E [_ G]]|G];
        rewrite G in Hx; auto.
      subst k. apply dunion_In in Hx. destruct Hx as [Hx|[d [Hd Ht]]]; auto.
      apply (Hl s ds d x); auto.
  Qed.

  Lemma cstep_complete : forall l fol0 fol s ds d t,
    In (s, ds) l -> In d ds -> In t (sm_get fol0 d) -> ext fol0 fol -> In s (map fst fol) ->
    In t (sm_get (fold_left cstep_f l fol) s).
  Proof.
    induction l as [|kv l IH]; simpl; intros fol0 fol s ds d t Hl Hd Ht He Hk; [contradiction|].
    destruct Hl as [Hl|Hl].
    - subst kv. apply (ext_get_In (cstep_f fol (s, ds))); [apply cstep_ext|].
      unfold cstep_f. simpl. rewrite sm_get_set_same; auto.
      apply dunion_In. right. exists d. split; auto. apply (ext_get_In fol0); auto.
    - apply (IH fol0 _ s ds d t); auto.
      + eapply ext_trans; [exact He|apply cstep_f_ext].
      + rewrite (ext_keys _ _ (cstep_f_ext fol kv)). exact Hk.
  Qed.

  (* ---- follow_sets in terms of the two phases ---- *)
  Definition follow_init (g : grammar) (start : sym) : setmap :=
    map (fun kv : sym * list rule => (fst kv, if sym_eqb (fst kv) start then [END_TOKEN] else @nil sym)) g.
  Definition deps_init (g : grammar) : setmap :=
    map (fun kv : sym * list rule => (fst kv, @nil sym)) g.
  Definition phase1 (g : grammar) (start : sym) : setmap * setmap :=
    fp_all g (follow_init g start, deps_init g).

  Lemma follow_sets_unfold : forall g start,
    follow_sets g terms nulls fs start =
    iter (S (length g * S (S (length terms)))) (follow_close_step (snd (phase1 g start))) (fst (phase1 g start)).
  Proof.
    intros g start. unfold follow_sets, phase1, fp_all.
    fold (follow_init g start). fold (deps_init g).
    match goal with |- (let '(fol, deps) := ?F in _) = _ =>
      assert (E : F = fold_left (fun st kv => fp_rules (fst kv) (snd kv) st) g (follow_init g start, deps_init g)) end.
    { apply fold_left_ext2. intros [fol deps] [nt rules]. simpl. unfold fp_rules.
      apply fold_left_ext2. intros [fol' deps'] r. reflexivity. }
    rewrite E. clear E.
    generalize (fold_left (fun st kv => fp_rules (fst kv) (snd kv) st) g (follow_init g start, deps_init g)).
    intros [fol deps]. reflexivity.
  Qed.
End CFollow.

(* ---------- semantic level ---------- *)
Section FollowExact.
  Variable g : grammar.
  Variable terms : list sym.
  Variable start : sym.
  Hypothesis Hnodup : NoDup (gkeys g).
  Hypothesis Hsyms : forall nt r X, In r (grules g nt) -> In X (rprod r) -> mem X terms = false -> In X (gkeys g).
  Hypothesis Hstart : In start (gkeys g).
  Hypothesis Hend : In END_TOKEN terms.

  Let nulls := nullables g.
  Let fs := first_sets g terms nulls.
  Let P1 := phase1 terms nulls fs g start.

  Notation Follow := (Follow g terms start).

  Lemma imm_sound : forall nt r X t, In r (grules g nt) -> imm terms nulls fs (rprod r) X t -> Follow X t.
  Proof.
    intros nt r X t Hr [pre [post [E [HX Hc]]]].
    apply (Follow_next g terms start nt r pre X post t); auto.
    apply (cfirst_exact g terms Hnodup). exact Hc.
  Qed.

  Lemma depo_sound : forall nt r X t, In r (grules g nt) -> depo terms nulls (rprod r) X ->
    Follow nt t -> Follow X t.
  Proof.
    intros nt r X t Hr [pre [post [E [HX Hc]]]] HF.
    apply (Follow_last g terms start nt r pre X post t); auto.
    apply (nulls_forallb g Hnodup). exact Hc.
  Qed.

  Lemma follow_init_get : forall k,
    sm_get (follow_init g start) k = if mem k (gkeys g) then (if sym_eqb k start then [END_TOKEN] else []) else [].
  Proof.
    intro k. unfold follow_init.
    apply (sm_get_map_init (fun k => if sym_eqb k start then [END_TOKEN] else []) g k).
    intros a b E. subst. reflexivity.
  Qed.

  Lemma deps_init_get : forall k, sm_get (deps_init g) k = [].
  Proof.
    intro k. unfold deps_init.
    rewrite (sm_get_map_init (fun _ => []) g k); [|reflexivity]. destruct (mem k (gkeys g)); reflexivity.
  Qed.

  Lemma init_keys : map fst (follow_init g start) = gkeys g /\ map fst (deps_init g) = gkeys g.
  Proof. unfold follow_init, deps_init, gkeys. rewrite !map_map. split; reflexivity. Qed.

  Lemma P1_keys : map fst (fst P1) = gkeys g /\ map fst (snd P1) = gkeys g.
  Proof.
    destruct (fp_all_ext terms nulls fs g (follow_init g start, deps_init g)) as [A B].
    destruct init_keys as [K1 K2]. unfold P1, phase1. simpl in A, B.
    rewrite (ext_keys _ _ A), (ext_keys _ _ B). auto.
  Qed.

  Lemma first_sets_ok : sets_ok terms fs.
  Proof. apply (first_sets_inv g terms Hnodup). Qed.

  Lemma P1_ok : sets_ok terms (fst P1).
  Proof.
    unfold P1, phase1. apply fp_all_ok; [apply first_sets_ok|]. simpl.
    unfold sets_ok, follow_init. apply Forall_forall. intros kv H. apply in_map_iff in H.
    destruct H as [x [E _]]. subst kv. simpl. destruct (sym_eqb (fst x) start).
    - split; [constructor; [intros []|constructor]|]. intros y [Hy|[]]. subst. exact Hend.
    - split; [constructor|]. intros y [].
  Qed.

  Lemma P1_sound : forall X t, In t (sm_get (fst P1) X) -> Follow X t.
  Proof.
    intros X t H. destruct (fp_all_sound terms nulls fs g (follow_init g start, deps_init g) X) as [A _].
    destruct (A t H) as [G|[nt [rules [r [G1 [G2 G3]]]]]].
    - simpl in G. rewrite follow_init_get in G. destruct (mem X (gkeys g)); [|destruct G].
      destruct (sym_eqb X start) eqn:E; [|destruct G]. apply sym_eqb_eq in E. destruct G as [G|[]].
      subst. apply Follow_start.
    - apply (imm_sound nt r); auto. rewrite (In_grules g nt rules Hnodup G1). exact G2.
  Qed.

  Lemma P1_deps_sound : forall X d t, In d (sm_get (snd P1) X) -> Follow d t -> Follow X t.
  Proof.
    intros X d t H HF. destruct (fp_all_sound terms nulls fs g (follow_init g start, deps_init g) X) as [_ B].
    destruct (B d H) as [G|[rules [r [G1 [G2 G3]]]]].
    - simpl in G. rewrite deps_init_get in G. destruct G.
    - apply (depo_sound d r); auto. rewrite (In_grules g d rules Hnodup G1). exact G2.
  Qed.

  Lemma P1_keys_in : forall nt rules r, In (nt, rules) g -> In r rules ->
    keys_in terms (rprod r) (follow_init g start, deps_init g).
  Proof.
    intros nt rules r H1 H2 Y HY HT. destruct init_keys as [K1 K2]. simpl. rewrite K1, K2.
    assert (In Y (gkeys g)); [|auto].
    apply (Hsyms nt r Y); auto. rewrite (In_grules g nt rules Hnodup H1). exact H2.
  Qed.

  Lemma P1_complete : forall nt r X,
    In r (grules g nt) ->
    (forall t, imm terms nulls fs (rprod r) X t -> In t (sm_get (fst P1) X)) /\
    (depo terms nulls (rprod r) X -> In nt (sm_get (snd P1) X)).
  Proof.
    intros nt r X Hr. unfold P1, phase1.
    apply (fp_all_complete terms nulls fs g _ X nt (grules g nt) r); auto.
    - apply P1_keys_in.
    - apply grules_In_g with (r := r). exact Hr.
  Qed.

  Definition cinv (fol : setmap) : Prop :=
    sets_ok terms fol /\ map fst fol = gkeys g /\ ext (fst P1) fol /\
    forall k x, In x (sm_get fol k) -> Follow k x.

  Lemma close_step_inv : forall fol, cinv fol -> cinv (follow_close_step (snd P1) fol).
  Proof.
    intros fol [H1 [H2 [H3 H4]]]. rewrite close_step_unfold. split; [|split; [|split]].
    - apply cstep_ok. exact H1.
    - rewrite (ext_keys _ _ (cstep_ext (snd P1) fol)). exact H2.
    - eapply ext_trans; [exact H3|apply cstep_ext].
    - apply (cstep_sound Follow (snd P1) fol); auto.
      intros s ds d t Hl Hd HF. apply (P1_deps_sound s d t); auto.
      assert (NK : NoDup (map fst (snd P1))) by (rewrite (proj2 P1_keys); exact Hnodup).
      assert (E : sm_get (snd P1) s = ds).
      { clear - Hl NK. induction (snd P1) as [|[k0 w] m IH]; simpl in *; [contradiction|].
        inversion NK as [|? ? N1 N2]; subst. destruct Hl as [Hl|Hl].
        - inversion Hl; subst. rewrite sym_eqb_refl. reflexivity.
        - destruct (sym_eqb k0 s) eqn:E; [|apply IH; auto].
          apply sym_eqb_eq in E. subst. exfalso. apply N1. apply in_map_iff. exists (s, ds). auto. }
      rewrite E. exact Hd.
  Qed.

  Lemma cinv_init : cinv (fst P1).
  Proof.
    split; [apply P1_ok|]. split; [apply P1_keys|]. split; [apply ext_refl|apply P1_sound].
  Qed.

  Let FO := follow_sets g terms nulls fs start.

  Lemma follow_sets_inv : cinv FO.
  Proof.
    unfold FO. rewrite follow_sets_unfold. apply (iter_inv cinv); [apply close_step_inv|apply cinv_init].
  Qed.

  Lemma follow_sets_fixpoint : follow_close_step (snd P1) FO = FO.
  Proof.
    unfold FO. rewrite follow_sets_unfold.
    apply (iter_reaches_fixpoint cinv (follow_close_step (snd P1)) ssum (length g * length terms)).
    - apply close_step_inv.
    - intros x _. rewrite close_step_unfold. apply ext_cases. apply cstep_ext.
    - intros x [H1 [H2 _]]. pose proof (sets_ok_bound terms x H1) as B.
      assert (L : length x = length g).
      { rewrite <- (map_length fst x), H2. unfold gkeys. apply map_length. }
      rewrite L in B. exact B.
    - rewrite !Nat.mul_succ_r. lia.
    - apply cinv_init.
  Qed.

  Lemma follow_sound : forall k x, In x (sm_get FO k) -> Follow k x.
  Proof. apply follow_sets_inv. Qed.

  Lemma FO_closed : forall s d t, In d (sm_get (snd P1) s) -> In t (sm_get FO d) -> In t (sm_get FO s).
  Proof.
    intros s d t Hd Ht. rewrite <- follow_sets_fixpoint. rewrite close_step_unfold.
    assert (Ks : In s (gkeys g)).
    { destruct (in_dec sym_eq_dec s (map fst (snd P1))) as [I|NI].
      - rewrite (proj2 P1_keys) in I. exact I.
      - rewrite (sm_get_notin _ _ NI) in Hd. destruct Hd. }
    apply (cstep_complete (snd P1) FO FO s (sm_get (snd P1) s) d t); auto.
    - apply sm_get_In. rewrite (proj2 P1_keys). exact Ks.
    - apply ext_refl.
    - destruct follow_sets_inv as [_ [K _]]. rewrite K. exact Ks.
  Qed.

  Lemma follow_complete : forall k x, Follow k x -> In x (sm_get FO k).
  Proof.
    assert (MONO : forall k x, In x (sm_get (fst P1) k) -> In x (sm_get FO k)).
    { intros k x H. destruct follow_sets_inv as [_ [_ [E _]]]. apply (ext_get_In (fst P1)); auto. }
    intros k x H. induction H as [| nt r pre X post t Hr E HX Hf | nt r pre X post t Hr E HX Hn HF IH].
    - apply MONO.
      destruct (fp_all_ext terms nulls fs g (follow_init g start, deps_init g)) as [A _].
      apply (ext_get_In (follow_init g start)); [exact A|].
      rewrite follow_init_get. apply mem_In in Hstart. rewrite Hstart. rewrite sym_eqb_refl. left. reflexivity.
    - apply MONO. destruct (P1_complete nt r X Hr) as [A _]. apply A.
      exists pre, post. split; auto. split; auto. apply (cfirst_exact g terms Hnodup). exact Hf.
    - apply (FO_closed X nt t); auto. destruct (P1_complete nt r X Hr) as [_ B]. apply B.
      exists pre, post. split; auto. split; auto. apply (nulls_forallb g Hnodup). exact Hn.
  Qed.

  Theorem follow_exact_l : forall k x, In x (sm_get FO k) <-> Follow k x.
  Proof. intros k x. split; [apply follow_sound|apply follow_complete]. Qed.

  Lemma follow_sets_ok : sets_ok terms FO.
  Proof. apply follow_sets_inv. Qed.
End FollowExact.
