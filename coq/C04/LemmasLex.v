(* C04/LemmasLex.v -- the tokenizer loop as a trace relation (every emitted token
   is tied to the pattern matches that produced it), soundness of the executable
   model w.r.t. that relation, and the position theorems derived from it.
   Everything is generic in the compiled patterns (matcher, span_of). *)
From Coq Require Import ZArith List Bool Lia.
From AK Require Import Common.Err LLP.Base gen.C04_Consts C04.Model C04.LemmasText.
Import ListNotations.
Open Scope Z_scope.

Section LexProofs.
  Variable matcher : line -> nat -> option (sym * nat * list Z).
  Variable span_of : sym -> option bmatcher.
  Variable syn : sym -> sym.
  Variable kw : sym -> list Z -> option sym.

  Notation lex_line := (lex_line matcher span_of syn kw).
  Notation lex_lines := (lex_lines matcher span_of syn kw).
  Notation tokenize := (tokenize matcher span_of syn kw).
  Notation tok_name := (tok_name syn kw).

  (* what is assumed of re: a match of the main pattern consumes at least one
     character and stays inside the line; a span body match stays inside the line *)
  Definition matcher_ok : Prop :=
    forall text col g e v, matcher text col = Some (g, e, v) -> (col < e <= length text)%nat.
  Definition spans_ok : Prop :=
    forall g bm text col e v, span_of g = Some bm -> (col < length text)%nat -> bm text col = Some (e, v) ->
                              (col <= e <= length text)%nat.

  (* ---------------- the loop of one line, as a relation ---------------- *)
  Inductive mode :=
  | Norm
  | InSpan (g : sym) (bm : bmatcher) (l0 c0 : nat) (stext : line) (slines : list line).

  Definition st_of (ln col : nat) (m : mode) : lstate :=
    match m with
    | Norm => mkLS (P ln col) None
    | InSpan g bm l0 c0 stext sl => mkLS (P l0 c0) (Some (g, bm, stext, sl))
    end.

  Inductive lxl (ln : nat) (text : line) : nat -> mode -> list token -> nat -> mode -> Prop :=
  | lxl_end : forall col m, (length text <= col)%nat -> lxl ln text col m [] col m
  | lxl_tok : forall col g e v r col' m',
      (col < length text)%nat -> matcher text col = Some (g, e, v) -> span_of g = None ->
      lxl ln text e Norm r col' m' ->
      lxl ln text col Norm (mkTok (tok_name g v) v (P ln col) (P ln e) :: r) col' m'
  | lxl_open : forall col g e v bm r col' m',
      (col < length text)%nat -> matcher text col = Some (g, e, v) -> span_of g = Some bm ->
      lxl ln text e (InSpan g bm ln col text []) r col' m' ->
      lxl ln text col Norm r col' m'
  | lxl_body : forall col g bm l0 c0 stext sl,
      (col < length text)%nat -> bm text col = None ->
      lxl ln text col (InSpan g bm l0 c0 stext sl) [] (length text)
          (InSpan g bm l0 c0 stext (sl ++ [skipn col text]))
  | lxl_close : forall col g bm l0 c0 stext sl e v r col' m',
      (col < length text)%nat -> bm text col = Some (e, v) ->
      lxl ln text e Norm r col' m' ->
      lxl ln text col (InSpan g bm l0 c0 stext sl)
          (mkTok (syn g) (join_nl (sl ++ [v])) (P l0 c0) (P ln e) :: r) col' m'.

  Lemma lex_line_eq : forall fuel lid text col st,
    lex_line fuel lid text col st =
    if (length text <=? col)%nat then LOk ([], st) else
    match fuel with
    | O => LHang
    | S fuel' =>
        match ls_span st with
        | Some (ssym, bm, stext, slines) =>
            match bm text col with
            | None => LOk ([], mkLS (ls_prev st) (Some (ssym, bm, stext, slines ++ [skipn col text])))
            | Some (e, v) =>
                let newend := (lid, Z.of_nat e + 1) in
                let tk := mkTok (syn ssym) (join_nl (slines ++ [v])) (ls_prev st) newend in
                match lex_line fuel' lid text e (mkLS newend None) with
                | LOk (toks, st') => LOk (tk :: toks, st')
                | other => other
                end
            end
        | None =>
            match matcher text col with
            | None => LErr (lid, Z.of_nat col) text false
            | Some (g, e, v) =>
                if (e <=? col)%nat then LHang
                else
                  match span_of g with
                  | Some bm =>
                      lex_line fuel' lid text e (mkLS (ls_prev st) (Some (g, bm, text, [])))
                  | None =>
                      let newend := (lid, Z.of_nat e + 1) in
                      let tk := mkTok (tok_name g v) v (ls_prev st) newend in
                      match lex_line fuel' lid text e (mkLS newend None) with
                      | LOk (toks, st') => LOk (tk :: toks, st')
                      | other => other
                      end
                  end
            end
        end
    end.
  Proof. destruct fuel; reflexivity. Qed.

  Lemma lex_line_sound : forall ln text fuel col m toks st',
    lex_line fuel (Z.of_nat ln + 1) text col (st_of ln col m) = LOk (toks, st') ->
    exists col' m', lxl ln text col m toks col' m' /\ st' = st_of ln col' m' /\ (length text <= col')%nat.
  Proof.
    intros ln text. induction fuel as [|fuel IH]; intros col m toks st' H; rewrite lex_line_eq in H.
    - destruct (Nat.leb_spec (length text) col); [|discriminate].
      inversion H; subst. exists col, m. split; [constructor; auto|auto].
    - destruct (Nat.leb_spec (length text) col) as [L|L].
      { inversion H; subst. exists col, m. split; [constructor; auto|auto]. }
      destruct m as [|g bm l0 c0 stext sl]; cbn [st_of ls_span ls_prev] in H.
      + destruct (matcher text col) as [[[g e] v]|] eqn:M; [|discriminate].
        destruct (Nat.leb_spec e col); [discriminate|].
        destruct (span_of g) as [bm|] eqn:S.
        * change (mkLS (P ln col) (Some (g, bm, text, []))) with (st_of ln e (InSpan g bm ln col text [])) in H.
          apply IH in H. destruct H as [col' [m' [R [E LE]]]].
          exists col', m'. split; [|auto]. eapply lxl_open; eauto.
        * cbv zeta in H.
          destruct (lex_line fuel (Z.of_nat ln + 1) text e (mkLS (Z.of_nat ln + 1, Z.of_nat e + 1) None))
            as [[toks1 st1]| |] eqn:R; try discriminate.
          inversion H; subst. change (mkLS (Z.of_nat ln + 1, Z.of_nat e + 1) None) with (st_of ln e Norm) in R.
          apply IH in R. destruct R as [col' [m' [R [E LE]]]].
          exists col', m'. split; [|auto]. eapply lxl_tok; eauto.
      + destruct (bm text col) as [[e v]|] eqn:B.
        * cbv zeta in H.
          destruct (lex_line fuel (Z.of_nat ln + 1) text e (mkLS (Z.of_nat ln + 1, Z.of_nat e + 1) None))
            as [[toks1 st1]| |] eqn:R; try discriminate.
          inversion H; subst. change (mkLS (Z.of_nat ln + 1, Z.of_nat e + 1) None) with (st_of ln e Norm) in R.
          apply IH in R. destruct R as [col' [m' [R [E LE]]]].
          exists col', m'. split; [|auto]. eapply lxl_close; eauto.
        * inversion H; subst.
          exists (length text), (InSpan g bm l0 c0 stext (sl ++ [skipn col text])).
          split; [|auto]. apply lxl_body; auto.
  Qed.

  (* LexicalError of the loop: the offending column of THIS line, with this line's text *)
  Lemma lex_line_err : forall ln text fuel col m p t u,
    lex_line fuel (Z.of_nat ln + 1) text col (st_of ln col m) = LErr p t u ->
    u = false /\ t = text /\
    exists c, p = (Z.of_nat ln + 1, Z.of_nat c) /\ (c < length text)%nat /\ matcher text c = None.
  Proof.
    intros ln text. induction fuel as [|fuel IH]; intros col m p t u H; rewrite lex_line_eq in H.
    - destruct (Nat.leb_spec (length text) col); discriminate.
    - destruct (Nat.leb_spec (length text) col) as [L|L]; [discriminate|].
      destruct m as [|g bm l0 c0 stext sl]; cbn [st_of ls_span ls_prev] in H.
      + destruct (matcher text col) as [[[g e] v]|] eqn:M.
        * destruct (Nat.leb_spec e col); [discriminate|].
          destruct (span_of g) as [bm|] eqn:S.
          -- change (mkLS (P ln col) (Some (g, bm, text, []))) with (st_of ln e (InSpan g bm ln col text [])) in H.
             eapply IH; eauto.
          -- cbv zeta in H.
             destruct (lex_line fuel (Z.of_nat ln + 1) text e (mkLS (Z.of_nat ln + 1, Z.of_nat e + 1) None))
               as [[toks1 st1]| |] eqn:R; try discriminate.
             inversion H; subst. change (mkLS (Z.of_nat ln + 1, Z.of_nat e + 1) None) with (st_of ln e Norm) in R.
             eapply IH; eauto.
        * inversion H; subst. repeat split; auto. exists col. auto.
      + destruct (bm text col) as [[e v]|] eqn:B; [|discriminate].
        cbv zeta in H.
        destruct (lex_line fuel (Z.of_nat ln + 1) text e (mkLS (Z.of_nat ln + 1, Z.of_nat e + 1) None))
          as [[toks1 st1]| |] eqn:R; try discriminate.
        inversion H; subst. change (mkLS (Z.of_nat ln + 1, Z.of_nat e + 1) None) with (st_of ln e Norm) in R.
        eapply IH; eauto.
  Qed.

  (* ---------------- the whole text ---------------- *)
  Inductive dmode :=
  | DNorm (p : pos)
  | DSpan (g : sym) (bm : bmatcher) (l0 c0 : nat) (stext : line) (slines : list line).

  Definition dst_of (d : dmode) : lstate :=
    match d with
    | DNorm p => mkLS p None
    | DSpan g bm l0 c0 stext sl => mkLS (P l0 c0) (Some (g, bm, stext, sl))
    end.

  Definition to_d (ln col : nat) (m : mode) : dmode :=
    match m with
    | Norm => DNorm (P ln col)
    | InSpan g bm l0 c0 stext sl => DSpan g bm l0 c0 stext sl
    end.

  Lemma st_of_to_d : forall ln col m, st_of ln col m = dst_of (to_d ln col m).
  Proof. destruct m; reflexivity. Qed.

  Inductive lxd : nat -> list line -> dmode -> list token -> dmode -> Prop :=
  | lxd_nil : forall ln d, lxd ln [] d [] d
  | lxd_blank : forall ln rest p toks d',
      lxd (S ln) rest (DNorm p) toks d' -> lxd ln ([] :: rest) (DNorm p) toks d'
  | lxd_line : forall ln text rest p t1 col' m' t2 d',
      text <> [] -> (length text <= col')%nat ->
      lxl ln text 0 Norm t1 col' m' ->
      lxd (S ln) rest (to_d ln col' m') t2 d' ->
      lxd ln (text :: rest) (DNorm p) (t1 ++ t2) d'
  | lxd_span : forall ln text rest g bm l0 c0 stext sl t1 col' m' t2 d',
      (length text <= col')%nat ->
      lxl ln text 0 (InSpan g bm l0 c0 stext sl) t1 col' m' ->
      lxd (S ln) rest (to_d ln col' m') t2 d' ->
      lxd ln (text :: rest) (DSpan g bm l0 c0 stext sl) (t1 ++ t2) d'.

  Lemma lex_line_nil : forall fuel lid col st, lex_line fuel lid [] col st = LOk ([], st).
  Proof. intros. rewrite lex_line_eq. reflexivity. Qed.

  Lemma lex_lines_sound : forall rest ln d toks st',
    lex_lines (Z.of_nat ln + 1) rest (dst_of d) = LOk (toks, st') ->
    exists d', lxd ln rest d toks d' /\ st' = dst_of d'.
  Proof.
    induction rest as [|text rest IH]; intros ln d toks st' H; cbn [Model.lex_lines] in H.
    - inversion H; subst. exists d. split; [constructor|reflexivity].
    - replace (Z.of_nat ln + 1 + 1) with (Z.of_nat (S ln) + 1) in H by lia.
      destruct d as [p|g bm l0 c0 stext sl].
      + destruct text as [|c text'].
        * cbn [dst_of line_start line_start_reset ls_span] in H. rewrite lex_line_nil in H.
          destruct (lex_lines (Z.of_nat (S ln) + 1) rest (mkLS p None)) as [[toks' st2]| |] eqn:R; try discriminate.
          inversion H; subst. change (mkLS p None) with (dst_of (DNorm p)) in R.
          apply IH in R. destruct R as [d' [R E]]. exists d'. split; [|exact E].
          cbn [app]. apply lxd_blank. exact R.
        * cbn [dst_of line_start line_start_reset ls_span] in H.
          change (mkLS (Z.of_nat ln + 1, 1) None) with (st_of ln 0 Norm) in H.
          destruct (lex_line (line_fuel (c :: text')) (Z.of_nat ln + 1) (c :: text') 0 (st_of ln 0 Norm))
            as [[t1 st1]| |] eqn:R1; try discriminate.
          apply lex_line_sound in R1. destruct R1 as [col' [m' [R1 [E1 L1]]]]. subst st1.
          rewrite st_of_to_d in H.
          destruct (lex_lines (Z.of_nat (S ln) + 1) rest (dst_of (to_d ln col' m'))) as [[t2 st2]| |] eqn:R2; try discriminate.
          inversion H; subst. apply IH in R2. destruct R2 as [d' [R2 E2]]. exists d'. split; [|exact E2].
          eapply lxd_line; eauto. discriminate.
      + assert (LS : line_start (Z.of_nat ln + 1) text (dst_of (DSpan g bm l0 c0 stext sl)) = st_of ln 0 (InSpan g bm l0 c0 stext sl)).
        { reflexivity. }
        rewrite LS in H.
        destruct (lex_line (line_fuel text) (Z.of_nat ln + 1) text 0 (st_of ln 0 (InSpan g bm l0 c0 stext sl)))
          as [[t1 st1]| |] eqn:R1; try discriminate.
        apply lex_line_sound in R1. destruct R1 as [col' [m' [R1 [E1 L1]]]]. subst st1.
        rewrite st_of_to_d in H.
        destruct (lex_lines (Z.of_nat (S ln) + 1) rest (dst_of (to_d ln col' m'))) as [[t2 st2]| |] eqn:R2; try discriminate.
        inversion H; subst. apply IH in R2. destruct R2 as [d' [R2 E2]]. exists d'. split; [|exact E2].
        eapply lxd_span; eauto.
  Qed.

  Definition end_tok (p : pos) : token := mkTok END_TOKEN [] p p.

  Lemma tokenize_sound : forall ls toks,
    tokenize ls = LOk toks ->
    exists body p, lxd 0 ls (DNorm (P 0 0)) body (DNorm p) /\ toks = body ++ [end_tok p].
  Proof.
    intros ls toks H. unfold Model.tokenize in H.
    change init_state with (dst_of (DNorm (P 0 0))) in H.
    change 1 with (Z.of_nat 0 + 1) in H at 1.
    destruct (lex_lines (Z.of_nat 0 + 1) ls (dst_of (DNorm (P 0 0)))) as [[body st]| |] eqn:R; try discriminate.
    apply lex_lines_sound in R. destruct R as [d' [R E]]. subst st.
    destruct d' as [p|g bm l0 c0 stext sl]; cbn [dst_of ls_span ls_prev] in H; [|discriminate].
    inversion H; subst. exists body, p. split; auto.
  Qed.

  (* ---------------- errors name the line ---------------- *)
  Lemma lex_lines_err : forall rest ln d p t u,
    lex_lines (Z.of_nat ln + 1) rest (dst_of d) = LErr p t u ->
    u = false /\ exists k c, nth_error rest k = Some t /\ p = (Z.of_nat (ln + k) + 1, Z.of_nat c) /\
                             (c < length t)%nat /\ matcher t c = None.
  Proof.
    induction rest as [|text rest IH]; intros ln d p t u H; cbn [Model.lex_lines] in H; [discriminate|].
    replace (Z.of_nat ln + 1 + 1) with (Z.of_nat (S ln) + 1) in H by lia.
    assert (LS : exists m, line_start (Z.of_nat ln + 1) text (dst_of d) = st_of ln 0 m \/
                           (text = [] /\ line_start (Z.of_nat ln + 1) text (dst_of d) = dst_of d)).
    { destruct d as [q|g bm l0 c0 stext sl].
      - destruct text. + exists Norm. right. auto. + exists Norm. left. reflexivity.
      - exists (InSpan g bm l0 c0 stext sl). left. reflexivity. }
    destruct LS as [m [LS|[TE LS]]]; rewrite LS in H.
    - destruct (lex_line (line_fuel text) (Z.of_nat ln + 1) text 0 (st_of ln 0 m)) as [[t1 st1]| |] eqn:R1; try discriminate.
      + apply lex_line_sound in R1. destruct R1 as [col' [m' [R1 [E1 L1]]]]. subst st1.
        rewrite st_of_to_d in H.
        destruct (lex_lines (Z.of_nat (S ln) + 1) rest (dst_of (to_d ln col' m'))) as [[t2 st2]| |] eqn:R2; try discriminate.
        inversion H; subst. apply IH in R2. destruct R2 as [U [k [c [N [E [L M]]]]]].
        split; auto. exists (S k), c. cbn [nth_error]. repeat split; auto.
        rewrite E. f_equal. lia.
      + inversion H; subst. apply lex_line_err in R1. destruct R1 as [U [T [c [E [L M]]]]]. subst.
        split; auto. exists 0%nat, c. cbn [nth_error]. repeat split; auto. rewrite Nat.add_0_r. reflexivity.
    - subst text. rewrite lex_line_nil in H.
      destruct (lex_lines (Z.of_nat (S ln) + 1) rest (dst_of d)) as [[t2 st2]| |] eqn:R2; try discriminate.
      inversion H; subst. apply IH in R2. destruct R2 as [U [k [c [N [E [L M]]]]]].
      split; auto. exists (S k), c. cbn [nth_error]. repeat split; auto.
      rewrite E. f_equal. lia.
  Qed.

  (* ---------------- invariants of a run over the text [ls] ---------------- *)
  Hypothesis Hm : matcher_ok.
  Hypothesis Hs : spans_ok.

  Definition opened (ls : list line) (g : sym) (bm : bmatcher) (l0 c0 : nat) (stext : line) : Prop :=
    span_of g = Some bm /\ nth_error ls l0 = Some stext /\ exists e0 v0, matcher stext c0 = Some (g, e0, v0).

  Definition mode_inv (ls : list line) (ln col : nat) (m : mode) : Prop :=
    match m with
    | Norm => True
    | InSpan g bm l0 c0 stext _ => opened ls g bm l0 c0 stext /\ (l0 < ln \/ (l0 = ln /\ c0 < col))%nat
    end.

  (* a position of the text: line l (0-based) exists, column c is inside it or just behind it *)
  Definition valid_pos (ls : list line) (p : pos) : Prop :=
    exists l c, p = P l c /\ (l < length ls)%nat /\ (c <= length (nth l ls []))%nat.

  Definition dmode_inv (ls : list line) (ln : nat) (d : dmode) : Prop :=
    match d with
    | DNorm p => (fst p <= Z.of_nat ln \/ p = P ln 0) /\ (valid_pos ls p \/ p = P 0 0)
    | DSpan g bm l0 c0 stext _ => opened ls g bm l0 c0 stext /\ (l0 < ln)%nat
    end.

  (* where a token comes from *)
  Definition plain_tok (ls : list line) (t : token) : Prop :=
    exists ln text col g e v,
      nth_error ls ln = Some text /\ matcher text col = Some (g, e, v) /\ span_of g = None /\
      t = mkTok (tok_name g v) v (P ln col) (P ln e).

  Definition span_tok (ls : list line) (t : token) : Prop :=
    exists l0 text0 c0 g e0 v0 bm l1 text1 c1 e1 v1 sl,
      nth_error ls l0 = Some text0 /\ matcher text0 c0 = Some (g, e0, v0) /\ span_of g = Some bm /\
      nth_error ls l1 = Some text1 /\ bm text1 c1 = Some (e1, v1) /\
      (l0 < l1 \/ (l0 = l1 /\ c0 < c1))%nat /\ (c1 < length text1)%nat /\
      t = mkTok (syn g) (join_nl (sl ++ [v1])) (P l0 c0) (P l1 e1).

  Definition tok_origin (ls : list line) (t : token) : Prop := plain_tok ls t \/ span_tok ls t.

  (* the position where the next token starts *)
  Definition cursor (ln col : nat) (m : mode) : pos :=
    match m with Norm => P ln col | InSpan _ _ l0 c0 _ _ => P l0 c0 end.
  Definition dcursor (d : dmode) : pos :=
    match d with DNorm p => p | DSpan _ _ l0 c0 _ _ => P l0 c0 end.

  (* within a line every token starts exactly where the previous one ended *)
  Inductive chain0 : pos -> list token -> pos -> Prop :=
  | c0_nil : forall p, chain0 p [] p
  | c0_cons : forall u r q, pos_lt (tstart u) (tend u) -> chain0 (tend u) r q -> chain0 (tstart u) (u :: r) q.

  Lemma lxl_facts : forall ls ln text col m toks col' m',
    lxl ln text col m toks col' m' -> nth_error ls ln = Some text -> mode_inv ls ln col m ->
    Forall (tok_origin ls) toks /\ mode_inv ls ln col' m' /\ chain0 (cursor ln col m) toks (cursor ln col' m') /\
    ((col <= length text)%nat -> col' = length text).
  Proof.
    intros ls ln text col m toks col' m' R N. induction R; intros I.
    - repeat split; auto. + constructor. + lia.
    - pose proof (Hm _ _ _ _ _ H0) as B.
      destruct (IHR I) as [F [I' [C LE]]]. repeat split; auto.
      + constructor; auto. left. exists ln, text, col, g, e, v. auto.
      + cbn [cursor] in *. apply (c0_cons (mkTok (tok_name g v) v (P ln col) (P ln e))); cbn [tstart tend]; auto.
        apply pos_lt_P. lia.
      + intros _. apply LE. lia.
    - pose proof (Hm _ _ _ _ _ H0) as B.
      assert (I2 : mode_inv ls ln e (InSpan g bm ln col text [])).
      { cbn [mode_inv]. split; [|lia]. unfold opened. repeat split; eauto. }
      destruct (IHR I2) as [F [I' [C LE]]]. repeat split; auto. intros _. apply LE. lia.
    - cbn [mode_inv] in *. destruct I as [O L]. split; [constructor|]. split; [split; [exact O|lia]|].
      split; [cbn [cursor]; constructor|auto].
    - cbn [mode_inv] in I. destruct I as [O L].
      destruct O as [S [N0 [e0 [v0 M0]]]].
      pose proof (Hs _ _ _ _ _ _ S H H0) as B.
      destruct (IHR Logic.I) as [F [I' [C LE]]]. repeat split; auto.
      + constructor; auto. right.
        exists l0, stext, c0, g, e0, v0, bm, ln, text, col, e, v, sl. repeat split; auto.
      + cbn [cursor] in *.
        apply (c0_cons (mkTok (syn g) (join_nl (sl ++ [v])) (P l0 c0) (P ln e))); cbn [tstart tend]; auto.
        apply pos_lt_P. lia.
      + intros _. apply LE. lia.
  Qed.

  (* between lines the next token may also start at column 1 of a later line *)
  Definition hop (p q : pos) : Prop := p = q \/ (fst p < fst q /\ snd q = 1).

  Lemma hop_refl : forall p, hop p p. Proof. left. reflexivity. Qed.
  Lemma hop_trans : forall p q r, hop p q -> hop q r -> hop p r.
  Proof. unfold hop. intros [a b] [c d] [e f]. cbn [fst snd]. intros [E|[A B]] [E'|[A' B']]; try inversion E; try inversion E'; subst; auto; right; lia. Qed.
  Lemma hop_le : forall p q, hop p q -> pos_le p q.
  Proof. unfold hop, pos_le. intros [a b] [c d]. cbn [fst snd]. intros [E|A]; [inversion E; subst|]; lia. Qed.

  Inductive chain : pos -> list token -> pos -> Prop :=
  | ch_nil : forall p q, hop p q -> chain p [] q
  | ch_cons : forall p u r q, hop p (tstart u) -> pos_le (tstart u) (tend u) -> chain (tend u) r q -> chain p (u :: r) q.

  Lemma chain0_chain : forall p toks q, chain0 p toks q -> chain p toks q.
  Proof. induction 1; constructor; auto using hop_refl, pos_lt_le. Qed.

  Lemma chain0_nonempty : forall p toks q, chain0 p toks q -> Forall (fun u => pos_lt (tstart u) (tend u)) toks.
  Proof. induction 1; constructor; auto. Qed.

  Lemma chain_hop_l : forall p p' toks q, hop p p' -> chain p' toks q -> chain p toks q.
  Proof. intros p p' toks q H C. inversion C; subst; constructor; eauto using hop_trans. Qed.

  Lemma chain_app : forall p a q b r, chain p a q -> chain q b r -> chain p (a ++ b) r.
  Proof.
    intros p a q b r C. revert b r. induction C; intros b r' C2; cbn [app].
    - eapply chain_hop_l; eauto.
    - constructor; auto.
  Qed.

  Lemma skipn_cons_nth : forall (ls : list line) ln text rest,
    text :: rest = skipn ln ls -> nth_error ls ln = Some text /\ rest = skipn (S ln) ls.
  Proof.
    intros ls ln. revert ls. induction ln as [|ln IH]; intros ls text rest H.
    - cbn [skipn] in H. subst ls. auto.
    - destruct ls as [|x ls]; cbn [skipn] in H; [discriminate|]. apply IH in H. exact H.
  Qed.

  Lemma cursor_to_d : forall ln col m, cursor ln col m = dcursor (to_d ln col m).
  Proof. destruct m; reflexivity. Qed.

  Definition nonempty_tok (u : token) : Prop := pos_lt (tstart u) (tend u).

  Lemma lxd_facts : forall ls ln rest d toks d',
    lxd ln rest d toks d' -> rest = skipn ln ls -> dmode_inv ls ln d ->
    Forall (tok_origin ls) toks /\ Forall nonempty_tok toks /\
    dmode_inv ls (ln + length rest) d' /\ chain (dcursor d) toks (dcursor d').
  Proof.
    intros ls ln rest d toks d' R. induction R; intros E I.
    - rewrite Nat.add_0_r. repeat split; auto. constructor. apply hop_refl.
    - apply skipn_cons_nth in E. destruct E as [N E].
      assert (I2 : dmode_inv ls (S ln) (DNorm p)).
      { cbn [dmode_inv] in *. destruct I as [I V]. split; auto.
        left. destruct I as [I|I]; [lia|]. subst p. unfold P. cbn [fst]. lia. }
      destruct (IHR E I2) as [F [NE [I' C]]].
      cbn [length]. rewrite Nat.add_succ_r. auto.
    - apply skipn_cons_nth in E. destruct E as [N E].
      destruct (lxl_facts ls _ _ _ _ _ _ _ H1 N Logic.I) as [F1 [I1 [C1 LE]]].
      assert (I2 : dmode_inv ls (S ln) (to_d ln col' m')).
      { destruct m'; cbn [to_d dmode_inv mode_inv] in *.
        - split. + left. unfold P. cbn [fst]. lia.
          + left. exists ln, col'. split; auto. split. * eapply nth_error_lt; eauto.
            * rewrite (nth_error_nth_line _ _ _ N). rewrite LE; lia.
        - destruct I1 as [O L]. split; auto. lia. }
      destruct (IHR E I2) as [F2 [NE2 [I' C2]]].
      cbn [length]. rewrite Nat.add_succ_r. repeat split; auto.
      + apply Forall_app. auto.
      + apply Forall_app. split; auto. eapply chain0_nonempty; eauto.
      + cbn [dcursor]. apply chain_hop_l with (p' := P ln 0).
        * cbn [dmode_inv] in I. destruct I as [[I|I] _]; [|left; auto].
          right. unfold P. cbn [fst snd]. lia.
        * eapply chain_app. { apply chain0_chain. exact C1. } rewrite cursor_to_d. exact C2.
    - apply skipn_cons_nth in E. destruct E as [N E].
      assert (I0 : mode_inv ls ln 0 (InSpan g bm l0 c0 stext sl)).
      { cbn [dmode_inv mode_inv] in *. destruct I as [O L]. split; auto. }
      destruct (lxl_facts ls _ _ _ _ _ _ _ H0 N I0) as [F1 [I1 [C1 LE]]].
      assert (I2 : dmode_inv ls (S ln) (to_d ln col' m')).
      { destruct m'; cbn [to_d dmode_inv mode_inv] in *.
        - split. + left. unfold P. cbn [fst]. lia.
          + left. exists ln, col'. split; auto. split. * eapply nth_error_lt; eauto.
            * rewrite (nth_error_nth_line _ _ _ N). rewrite LE; lia.
        - destruct I1 as [O L]. split; auto. lia. }
      destruct (IHR E I2) as [F2 [NE2 [I' C2]]].
      cbn [length]. rewrite Nat.add_succ_r. repeat split; auto.
      + apply Forall_app. auto.
      + apply Forall_app. split; auto. eapply chain0_nonempty; eauto.
      + eapply chain_app. { apply chain0_chain. exact C1. } rewrite cursor_to_d. exact C2.
  Qed.

  (* ---------------- consequences for the token list ---------------- *)
  Lemma chain_pairs : forall p toks q, chain p toks q ->
    forall i t u, nth_error toks i = Some t -> nth_error toks (S i) = Some u -> hop (tend t) (tstart u).
  Proof.
    induction 1; intros i t u' A B. { destruct i; discriminate. }
    destruct i; cbn [nth_error] in *.
    - inversion A; subst. inversion H1; subst; cbn [nth_error] in B; [discriminate|]. inversion B; subst. auto.
    - eapply IHchain; eauto.
  Qed.

  Lemma chain_each : forall p toks q, chain p toks q -> Forall (fun u => pos_le (tstart u) (tend u)) toks.
  Proof. induction 1; constructor; auto. Qed.

  Lemma chain_first : forall p u r q, chain p (u :: r) q -> hop p (tstart u).
  Proof. intros. inversion H; auto. Qed.

  Lemma chain_end_tok : forall p body q, chain p body q -> chain p (body ++ [end_tok q]) q.
  Proof.
    intros. eapply chain_app; eauto. constructor; cbn [end_tok tstart tend].
    - apply hop_refl. - apply pos_le_refl. - constructor. apply hop_refl.
  Qed.

  Definition dinit : dmode := DNorm (P 0 0).

  Lemma dinit_inv : forall ls, dmode_inv ls 0 dinit.
  Proof. intros. cbn [dmode_inv dinit]. split; right; reflexivity. Qed.

  Lemma tokenize_facts : forall ls toks, tokenize ls = LOk toks ->
    exists body p, toks = body ++ [end_tok p] /\ lxd 0 ls dinit body (DNorm p) /\
      Forall (tok_origin ls) body /\ Forall nonempty_tok body /\ chain (P 0 0) toks p /\
      (valid_pos ls p \/ p = P 0 0).
  Proof.
    intros ls toks H. apply tokenize_sound in H. destruct H as [body [p [R E]]].
    destruct (lxd_facts ls 0 ls dinit body (DNorm p) R eq_refl (dinit_inv ls)) as [F [NE [I C]]].
    exists body, p. repeat split; auto. { subst toks. apply chain_end_tok. exact C. }
    cbn [dmode_inv] in I. apply I.
  Qed.

  (* span that is never closed: the error names the opener *)
  Lemma tokenize_unclosed : forall ls p t, tokenize ls = LErr p t true ->
    exists l0 c0 g bm e0 v0, p = P l0 c0 /\ nth_error ls l0 = Some t /\
      matcher t c0 = Some (g, e0, v0) /\ span_of g = Some bm.
  Proof.
    intros ls p t H. unfold Model.tokenize in H.
    change init_state with (dst_of dinit) in H. change 1 with (Z.of_nat 0 + 1) in H at 1.
    destruct (lex_lines (Z.of_nat 0 + 1) ls (dst_of dinit)) as [[body st]|p' t' u'|] eqn:R; try discriminate.
    - apply lex_lines_sound in R. destruct R as [d' [R E]]. subst st.
      destruct (lxd_facts ls 0 ls dinit body d' R eq_refl (dinit_inv ls)) as [F [NE [I C]]].
      destruct d' as [q|g bm l0 c0 stext sl]; cbn [dst_of ls_span ls_prev] in H; [discriminate|].
      inversion H; subst. cbn [dmode_inv] in I. destruct I as [[S [N [e0 [v0 M]]]] L].
      exists l0, c0, g, bm, e0, v0. auto.
    - inversion H; subst. apply lex_lines_err in R. destruct R as [U _]. discriminate.
  Qed.

  Lemma tokenize_err_char : forall ls p t, tokenize ls = LErr p t false ->
    exists ln c, p = (Z.of_nat ln + 1, Z.of_nat c) /\ nth_error ls ln = Some t /\
                 (c < length t)%nat /\ matcher t c = None.
  Proof.
    intros ls p t H. unfold Model.tokenize in H.
    change init_state with (dst_of dinit) in H. change 1 with (Z.of_nat 0 + 1) in H at 1.
    destruct (lex_lines (Z.of_nat 0 + 1) ls (dst_of dinit)) as [[body st]|p' t' u'|] eqn:R; try discriminate.
    - destruct (ls_span st) as [[[[a b] c] d]|]; discriminate.
    - inversion H; subst. apply lex_lines_err in R. destruct R as [_ [k [c [N [E [L M]]]]]].
      exists k, c. cbn [plus] in E. auto.
  Qed.

  (* ---------------- termination ---------------- *)
  Definition bm_ok (m : mode) : Prop :=
    match m with Norm => True | InSpan g bm _ _ _ _ => span_of g = Some bm end.

  Lemma lex_line_nohang : forall ln text fuel col m, bm_ok m ->
    (2 * (length text - col) + (match m with Norm => 0 | _ => 1 end) < fuel)%nat ->
    lex_line fuel (Z.of_nat ln + 1) text col (st_of ln col m) <> LHang.
  Proof.
    intros ln text. induction fuel as [|fuel IH]; intros col m B F; rewrite lex_line_eq.
    - destruct (Nat.leb_spec (length text) col); [discriminate|]. exfalso. destruct m; lia.
    - destruct (Nat.leb_spec (length text) col) as [L|L]; [discriminate|].
      destruct m as [|g bm l0 c0 stext sl]; cbn [st_of ls_span ls_prev].
      + destruct (matcher text col) as [[[g e] v]|] eqn:M; [|discriminate].
        pose proof (Hm _ _ _ _ _ M) as Bd.
        destruct (Nat.leb_spec e col); [lia|].
        destruct (span_of g) as [bm|] eqn:S.
        * change (mkLS (P ln col) (Some (g, bm, text, []))) with (st_of ln e (InSpan g bm ln col text [])).
          apply IH; [exact S|lia].
        * cbv zeta. change (mkLS (Z.of_nat ln + 1, Z.of_nat e + 1) None) with (st_of ln e Norm).
          assert (NH : lex_line fuel (Z.of_nat ln + 1) text e (st_of ln e Norm) <> LHang) by (apply IH; [exact Logic.I|lia]).
          destruct (lex_line fuel (Z.of_nat ln + 1) text e (st_of ln e Norm)) as [[a b]| |]; try discriminate. contradiction.
      + destruct (bm text col) as [[e v]|] eqn:Bm; [|discriminate].
        cbn [bm_ok] in B. pose proof (Hs _ _ _ _ _ _ B L Bm) as Bd.
        cbv zeta. change (mkLS (Z.of_nat ln + 1, Z.of_nat e + 1) None) with (st_of ln e Norm).
        assert (NH : lex_line fuel (Z.of_nat ln + 1) text e (st_of ln e Norm) <> LHang) by (apply IH; [exact Logic.I|lia]).
        destruct (lex_line fuel (Z.of_nat ln + 1) text e (st_of ln e Norm)) as [[a b]| |]; try discriminate. contradiction.
  Qed.

  Lemma lxl_bm_ok : forall ln text col m toks col' m', lxl ln text col m toks col' m' -> bm_ok m -> bm_ok m'.
  Proof. induction 1; intros B; cbn [bm_ok] in *; auto. Qed.

  Definition dbm_ok (d : dmode) : Prop :=
    match d with DNorm _ => True | DSpan g bm _ _ _ _ => span_of g = Some bm end.

  Lemma lex_lines_nohang : forall rest ln d, dbm_ok d -> lex_lines (Z.of_nat ln + 1) rest (dst_of d) <> LHang.
  Proof.
    induction rest as [|text rest IH]; intros ln d B; cbn [Model.lex_lines]; [discriminate|].
    replace (Z.of_nat ln + 1 + 1) with (Z.of_nat (S ln) + 1) by lia.
    assert (LS : (exists m, bm_ok m /\ line_start (Z.of_nat ln + 1) text (dst_of d) = st_of ln 0 m) \/
                 (text = [] /\ line_start (Z.of_nat ln + 1) text (dst_of d) = dst_of d)).
    { destruct d as [q|g bm l0 c0 stext sl].
      - destruct text. + right. auto. + left. exists Norm. split; [exact Logic.I|reflexivity].
      - left. exists (InSpan g bm l0 c0 stext sl). split; [exact B|reflexivity]. }
    destruct LS as [[m [Bm LS]]|[TE LS]]; rewrite LS.
    - assert (NH : lex_line (line_fuel text) (Z.of_nat ln + 1) text 0 (st_of ln 0 m) <> LHang).
      { apply lex_line_nohang; auto. unfold line_fuel. destruct m; lia. }
      destruct (lex_line (line_fuel text) (Z.of_nat ln + 1) text 0 (st_of ln 0 m)) as [[t1 st1]| |] eqn:R1; try discriminate; [|contradiction].
      apply lex_line_sound in R1. destruct R1 as [col' [m' [R1 [E1 L1]]]]. subst st1.
      rewrite st_of_to_d.
      assert (B2 : dbm_ok (to_d ln col' m')).
      { pose proof (lxl_bm_ok _ _ _ _ _ _ _ R1 Bm). destruct m'; auto. }
      specialize (IH (S ln) _ B2).
      destruct (lex_lines (Z.of_nat (S ln) + 1) rest (dst_of (to_d ln col' m'))) as [[t2 st2]| |]; try discriminate. contradiction.
    - subst text. rewrite lex_line_nil. specialize (IH (S ln) _ B).
      destruct (lex_lines (Z.of_nat (S ln) + 1) rest (dst_of d)) as [[t2 st2]| |]; try discriminate. contradiction.
  Qed.

  Lemma tokenize_total : forall ls, tokenize ls <> LHang.
  Proof.
    intros ls. unfold Model.tokenize.
    change init_state with (dst_of dinit). change 1 with (Z.of_nat 0 + 1) at 1.
    pose proof (lex_lines_nohang ls 0 dinit Logic.I) as NH.
    destruct (lex_lines (Z.of_nat 0 + 1) ls (dst_of dinit)) as [[body st]| |]; try discriminate; [|contradiction].
    destruct (ls_span st) as [[[[a b] c] d]|]; discriminate.
  Qed.

  (* ---------------- statements about the token list ---------------- *)
  Lemma tokens_shape_l : forall ls toks, tokenize ls = LOk toks ->
    exists body p, toks = body ++ [end_tok p] /\ Forall (tok_origin ls) body.
  Proof.
    intros ls toks H. destruct (tokenize_facts _ _ H) as [body [p [E [_ [F _]]]]]. eauto.
  Qed.

  Lemma adjacent_l : forall ls toks i t u, tokenize ls = LOk toks ->
    nth_error toks i = Some t -> nth_error toks (S i) = Some u ->
    (fst (tstart u) = fst (tend t) -> tstart u = tend t) /\
    (fst (tstart u) <> fst (tend t) -> fst (tend t) < fst (tstart u) /\ snd (tstart u) = 1).
  Proof.
    intros ls toks i t u H A B. destruct (tokenize_facts _ _ H) as [body [p [E [_ [_ [_ [C _]]]]]]].
    pose proof (chain_pairs _ _ _ C _ _ _ A B) as Hp. unfold hop in Hp.
    destruct Hp as [Hp|[Hp1 Hp2]].
    - split; intros X; [auto|]. rewrite Hp in X. contradiction.
    - split; intros X; [lia|auto].
  Qed.

  Lemma first_token_l : forall ls toks, tokenize ls = LOk toks ->
    exists u r, toks = u :: r /\ (tstart u = (1, 1) \/ (1 < fst (tstart u) /\ snd (tstart u) = 1)).
  Proof.
    intros ls toks H. destruct (tokenize_facts _ _ H) as [body [p [E [_ [_ [_ [C _]]]]]]].
    destruct toks as [|u r]. { destruct body; discriminate. }
    exists u, r. split; auto. apply chain_first in C. unfold hop in C. destruct C as [C|C]; [left|right]; auto.
  Qed.

  Lemma chain_lower : forall p toks q, chain p toks q -> Forall (fun u => pos_le p (tstart u)) toks.
  Proof.
    induction 1; constructor.
    - apply hop_le; auto.
    - eapply Forall_impl; [|exact IHchain]. cbv beta. intros x Hx.
      eapply pos_le_trans; [apply hop_le; eauto|]. eapply pos_le_trans; eauto.
  Qed.

  Lemma chain_sorted : forall p toks q, chain p toks q ->
    forall i j t u, (i < j)%nat -> nth_error toks i = Some t -> nth_error toks j = Some u ->
    pos_le (tend t) (tstart u).
  Proof.
    induction 1; intros i j t u' L A B. { destruct i; discriminate. }
    destruct j; [lia|]. cbn [nth_error] in B. destruct i; cbn [nth_error] in A.
    - inversion A; subst. apply chain_lower in H1. rewrite Forall_forall in H1.
      apply H1. eapply nth_error_In; eauto.
    - apply (IHchain i j t u'); auto. lia.
  Qed.

  Lemma monotone_l : forall ls toks, tokenize ls = LOk toks ->
    Forall (fun u => pos_le (tstart u) (tend u)) toks /\
    forall i j t u, (i < j)%nat -> nth_error toks i = Some t -> nth_error toks j = Some u ->
      pos_le (tend t) (tstart u).
  Proof.
    intros ls toks H. destruct (tokenize_facts _ _ H) as [body [p [E [_ [_ [_ [C _]]]]]]].
    split; [eapply chain_each; eauto|eapply chain_sorted; eauto].
  Qed.

  Lemma nonempty_l : forall ls toks, tokenize ls = LOk toks ->
    exists body p, toks = body ++ [end_tok p] /\ Forall (fun u => pos_lt (tstart u) (tend u)) body.
  Proof.
    intros ls toks H. destruct (tokenize_facts _ _ H) as [body [p [E [_ [_ [NE _]]]]]]. eauto.
  Qed.

  (* ---------------- validity of the reported positions, get_orig_text ---------------- *)
  Lemma valid_pos_prefix : forall ls ols p, Forall2 prefix_of ls ols -> valid_pos ls p -> valid_pos ols p.
  Proof.
    intros ls ols p F [l [c [E [L C]]]]. exists l, c. split; auto.
    pose proof (Forall2_length' _ _ _ _ _ F) as LL. split; [lia|].
    pose proof (nth_error_nth' ls [] L) as N.
    destruct (Forall2_prefix_nth _ _ _ _ F N) as [l' [N' Pf]].
    rewrite (nth_error_nth_line _ _ _ N'). apply prefix_length in Pf. lia.
  Qed.

  Lemma origin_valid : forall ls t, tok_origin ls t -> valid_pos ls (tstart t) /\ valid_pos ls (tend t).
  Proof.
    intros ls t [(ln & text & col & g & e & v & N & M & S & E)|
                 (l0 & text0 & c0 & g & e0 & v0 & bm & l1 & text1 & c1 & e1 & v1 & sl & N0 & M0 & S & N1 & B & L & L1 & E)].
    - subst t. cbn [tstart tend]. pose proof (Hm _ _ _ _ _ M) as Bd.
      split; [exists ln, col|exists ln, e]; (split; [reflexivity|]); (split; [eapply nth_error_lt; eauto|]);
        rewrite (nth_error_nth_line _ _ _ N); lia.
    - subst t. cbn [tstart tend]. pose proof (Hm _ _ _ _ _ M0) as Bd0. pose proof (Hs _ _ _ _ _ _ S L1 B) as Bd1.
      split; [exists l0, c0|exists l1, e1]; (split; [reflexivity|]).
      + split; [eapply nth_error_lt; eauto|]. rewrite (nth_error_nth_line _ _ _ N0). lia.
      + split; [eapply nth_error_lt; eauto|]. rewrite (nth_error_nth_line _ _ _ N1). lia.
  Qed.

  Lemma got_valid_pos : forall ols p q, valid_pos ols p -> valid_pos ols q -> pos_le p q ->
    exists l0 c0 l1 c1, p = P l0 c0 /\ q = P l1 c1 /\ get_orig_text ols (p, q) = Ok (region ols l0 c0 l1 c1).
  Proof.
    intros ols p q [l0 [c0 [E0 [L0 C0]]]] [l1 [c1 [E1 [L1 C1]]]] LE. subst p q.
    exists l0, c0, l1, c1. repeat split; auto. apply got_valid; auto. apply pos_le_P. exact LE.
  Qed.

  Definition plain_leaf (ls ols : list line) (t : token) : Prop :=
    exists ln text col g e v,
      nth_error ls ln = Some text /\ matcher text col = Some (g, e, v) /\ span_of g = None /\
      t = mkTok (tok_name g v) v (P ln col) (P ln e) /\
      get_orig_text ols (tstart t, tend t) = Ok (slice text col e).

  Definition span_leaf (ls ols : list line) (t : token) : Prop :=
    exists l0 text0 c0 g e0 v0 bm l1 text1 c1 e1 v1 sl,
      nth_error ls l0 = Some text0 /\ matcher text0 c0 = Some (g, e0, v0) /\ span_of g = Some bm /\
      nth_error ls l1 = Some text1 /\ bm text1 c1 = Some (e1, v1) /\
      (l0 < l1 \/ (l0 = l1 /\ c0 < c1))%nat /\ (c1 < length text1)%nat /\
      t = mkTok (syn g) (join_nl (sl ++ [v1])) (P l0 c0) (P l1 e1) /\
      get_orig_text ols (tstart t, tend t) = Ok (region ols l0 c0 l1 e1).

  Lemma origin_text : forall ls ols t, Forall2 prefix_of ls ols -> tok_origin ls t ->
    plain_leaf ls ols t \/ span_leaf ls ols t.
  Proof.
    intros ls ols t F O. pose proof (Forall2_length' _ _ _ _ _ F) as LL.
    destruct O as [(ln & text & col & g & e & v & N & M & S & E)|
                   (l0 & text0 & c0 & g & e0 & v0 & bm & l1 & text1 & c1 & e1 & v1 & sl & N0 & M0 & S & N1 & B & L & L1 & E)].
    - left. exists ln, text, col, g, e, v. repeat split; auto.
      subst t. cbn [tstart tend]. pose proof (Hm _ _ _ _ _ M) as Bd.
      destruct (Forall2_prefix_nth _ _ _ _ F N) as [text' [N' Pf]].
      pose proof (prefix_length _ _ Pf) as PL. pose proof (nth_error_lt _ _ _ _ N') as Lt.
      rewrite got_valid; try rewrite (nth_error_nth_line _ _ _ N'); try lia.
      unfold region. rewrite Nat.eqb_refl. rewrite (nth_error_nth_line _ _ _ N').
      f_equal. apply slice_prefix; auto. lia.
    - right. exists l0, text0, c0, g, e0, v0, bm, l1, text1, c1, e1, v1, sl. repeat split; auto.
      subst t. cbn [tstart tend]. pose proof (Hm _ _ _ _ _ M0) as Bd0. pose proof (Hs _ _ _ _ _ _ S L1 B) as Bd1.
      destruct (Forall2_prefix_nth _ _ _ _ F N0) as [text0' [N0' Pf0]].
      destruct (Forall2_prefix_nth _ _ _ _ F N1) as [text1' [N1' Pf1]].
      pose proof (prefix_length _ _ Pf0). pose proof (prefix_length _ _ Pf1).
      pose proof (nth_error_lt _ _ _ _ N1').
      apply got_valid; try rewrite (nth_error_nth_line _ _ _ N0'); try rewrite (nth_error_nth_line _ _ _ N1'); lia.
  Qed.

  (* a span token that closes on the line where it was opened: the region is a slice of that line *)
  Lemma region_same_line : forall ls ols l text c0 e1, Forall2 prefix_of ls ols ->
    nth_error ls l = Some text -> (e1 <= length text)%nat -> region ols l c0 l e1 = slice text c0 e1.
  Proof.
    intros ls ols l text c0 e1 F N L. unfold region. rewrite Nat.eqb_refl.
    destruct (Forall2_prefix_nth _ _ _ _ F N) as [text' [N' Pf]].
    rewrite (nth_error_nth_line _ _ _ N'). apply slice_prefix; auto.
  Qed.

  Lemma leaf_text_l : forall ls ols toks, Forall2 prefix_of ls ols -> tokenize ls = LOk toks ->
    exists body p, toks = body ++ [end_tok p] /\
      Forall (fun t => plain_leaf ls ols t \/ span_leaf ls ols t) body /\
      (ls <> [] -> get_orig_text ols (p, p) = Ok []).
  Proof.
    intros ls ols toks F H. destruct (tokenize_facts _ _ H) as [body [p [E [_ [O [_ [_ V]]]]]]].
    exists body, p. split; auto. split.
    - eapply Forall_impl; [|exact O]. intros t Ot. apply origin_text; auto.
    - intros NE. assert (V' : valid_pos ls p).
      { destruct V as [V|V]; auto. subst p. exists 0%nat, 0%nat. split; auto.
        destruct ls; [contradiction|]. cbn [length]. split; lia. }
      apply (valid_pos_prefix _ _ _ F) in V'. destruct V' as [l [c [Ep [L C]]]]. subst p.
      rewrite got_valid; auto; try lia. unfold region. rewrite Nat.eqb_refl. unfold slice.
      rewrite Nat.sub_diag. reflexivity.
  Qed.

  (* every token position is a position of the text *)
  Lemma positions_valid_l : forall ls toks, ls <> [] -> tokenize ls = LOk toks ->
    Forall (fun t => valid_pos ls (tstart t) /\ valid_pos ls (tend t)) toks.
  Proof.
    intros ls toks NE H. destruct (tokenize_facts _ _ H) as [body [p [E [_ [O [_ [_ V]]]]]]]. subst toks.
    apply Forall_app. split.
    - eapply Forall_impl; [|exact O]. intros t Ot. apply origin_valid; auto.
    - constructor; [|constructor]. cbn [end_tok tstart tend].
      assert (V' : valid_pos ls p).
      { destruct V as [V|V]; auto. subst p. exists 0%nat, 0%nat. split; auto.
        destruct ls; [contradiction|]. cbn [length]. split; lia. }
      auto.
  Qed.
End LexProofs.
