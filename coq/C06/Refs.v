(* C06/Refs.v -- executable model of the text level of the history report: how ak/ghist.py reads the
   branch heads and the tags of a repository out of a '.git' directory.

     GitRepo._iter_packed_refs (1232-1277)   [packed_loop], [packed_refs]
     GitRepo._iter_refs_files  (1279-1287)   [loose_under]  (the directory walk itself is the file system's)
     GitRepo.iter_refs         (1183-1230)   [iter_refs]  (prefix assertion, sorted + de-duplicated prefixes,
                                              loose ref files first and without a hexsha, then the packed refs
                                              that have no loose file)
     ProjectRepo.make_branch_refs_map (1608-1630)  [branch_refs_map]
     ProjectRepo.make_buildtags_map   (1632-1645)  [tags_list] (tag name -> commit; parse_buildtag is not modelled:
                                              which names are build tags and what they mean arrives as a table)
     RGraph.__init__ 575-587: the head of a branch is  repo.commit(branches_refs_map[ref.name])  [disk_history]

   A repository on disk is [disk]: the text of '.git/packed-refs' (None: no such file) and the loose ref
   files below '.git/refs' as (full ref name, hexsha that GitRepo.get_ref_commit -- GitPython -- resolves the
   file to).  Texts are lists of code points.  No proofs in this file. *)
From Coq Require Import ZArith List Bool Arith.
From AK Require Import Common.Sx Common.Err C06.Model.
Import ListNotations.
Open Scope Z_scope.

Notation str := (list Z) (only parsing).

Record disk := mkDisk {
  d_packed : option (list Z);
  d_loose : list (list Z * list Z)
}.

(* ------------------------------------------------------------------ *)
(* lines of the file, str.strip(), str.split(None, 1)                   *)

(* "for line in refs_file" (text mode, universal newlines) followed by line.strip() and the skipping of empty
   lines: splitting at every LF and every CR gives the same non-empty stripped lines *)
Definition is_eol (c : Z) : bool := (c =? 10) || (c =? 13).

Fixpoint lines_aux (s cur : list Z) : list (list Z) :=
  match s with
  | [] => [rev cur]
  | c :: r => if is_eol c then rev cur :: lines_aux r [] else lines_aux r (c :: cur)
  end.
Definition lines (s : list Z) : list (list Z) := lines_aux s [].

Fixpoint lstrip (s : list Z) : list Z :=
  match s with
  | [] => []
  | c :: r => if is_space c then lstrip r else s
  end.
Definition strip (s : list Z) : list Z := rev (lstrip (rev (lstrip s))).

(* the text up to the first white space, and the rest from there *)
Fixpoint break_ws (s : list Z) : list Z * list Z :=
  match s with
  | [] => ([], [])
  | c :: r => if is_space c then ([], s) else let (a, b) := break_ws r in (c :: a, b)
  end.

(* hexsha, ref_name = line.split(None, 1)   on a stripped line;  None: ValueError (one field only) *)
Definition split1 (l : list Z) : option (list Z * list Z) :=
  let (a, b) := break_ws l in
  match lstrip b with
  | [] => None
  | n => Some (a, n)
  end.

(* ------------------------------------------------------------------ *)
(* GitRepo._iter_packed_refs                                            *)

Definition s_pack_refs : list Z := [35; 32; 112; 97; 99; 107; 45; 114; 101; 102; 115].   (* "# pack-refs" *)
Definition s_peeled : list Z := [112; 101; 101; 108; 101; 100].                           (* "peeled" *)
Definition peel_line_len : nat := 41.

Inductive pline :=
| PBlank
| PComment (understood : bool)
| PPeel (well_formed : bool) (sha : list Z)
| PRef (sha name : list Z)
| PBad.                                      (* a line with one field: the unpacking raises ValueError *)

Definition classify (raw : list Z) : pline :=
  let l := strip raw in
  match l with
  | [] => PBlank
  | c :: rest =>
      if c =? 35 then PComment (containsb s_pack_refs l && containsb s_peeled l)
      else if c =? 94 then PPeel (Nat.eqb (length l) peel_line_len) rest
      else match split1 l with
           | Some (sha, name) => PRef sha name
           | None => PBad
           end
  end.

Definition wanted (prefixes : list (list Z)) (name : list Z) : bool :=
  existsb (fun p => prefixb p name) prefixes.

Definition flush (acc : option (list Z * list Z)) : list (list Z * list Z) :=
  match acc with Some e => [e] | None => [] end.

(* the loop, with the pending (accum_ref_name, accum_hexsha) pair *)
Fixpoint packed_loop (prefixes : list (list Z)) (ls : list (list Z)) (acc : option (list Z * list Z))
  : res (list (list Z * list Z)) :=
  match ls with
  | [] => Ok (flush acc)
  | raw :: r =>
      match classify raw with
      | PBlank => packed_loop prefixes r acc
      | PComment ok => if ok then packed_loop prefixes r acc else Err TypeErr
      | PPeel ok sha =>
          if ok then packed_loop prefixes r (match acc with Some (n, _) => Some (n, sha) | None => None end)
          else Err TypeErr
      | PBad => Err ValueErr
      | PRef sha name =>
          match packed_loop prefixes r (if wanted prefixes name then Some (name, sha) else None) with
          | Ok l => Ok (flush acc ++ l)
          | Err e => Err e
          end
      end
  end.

(* [(ref name, hexsha)] in file order; a missing file is an OSError that the code swallows *)
Definition packed_refs (d : disk) (prefixes : list (list Z)) : res (list (list Z * list Z)) :=
  match d_packed d with
  | None => Ok []
  | Some text => packed_loop prefixes (lines text) None
  end.

(* ------------------------------------------------------------------ *)
(* GitRepo.iter_refs                                                    *)

Definition s_refs : list Z := [114; 101; 102; 115; 47].                 (* "refs/" *)

Definition sort_strs (l : list (list Z)) : list (list Z) := stable_sort (fun a b => str_cmp a b <? 0) l.

(* sorted(prefixes) without the prefixes that start with the previously kept one *)
Definition dedupe (ps : list (list Z)) : list (list Z) :=
  match sort_strs ps with
  | [] => []
  | p0 :: r => fold_left (fun acc p => if prefixb (last acc []) p then acc else acc ++ [p]) r [p0]
  end.

Fixpoint rstrip_slash_rev (r : list Z) : list Z :=
  match r with
  | c :: r' => if c =? 47 then rstrip_slash_rev r' else r
  | [] => []
  end.
(* Path(git_dir) / prefix : trailing slashes do not matter; the files found are those strictly below it *)
Definition dir_of (p : list Z) : list Z := rev (rstrip_slash_rev (rev p)).
Definition loose_under (p name : list Z) : bool := prefixb (dir_of p ++ [47]) name.

Definition mem_str (x : list Z) (l : list (list Z)) : bool := existsb (list_eqb x) l.

Definition iter_refs (d : disk) (prefixes : list (list Z)) : res (list (list Z * option (list Z))) :=
  if negb (forallb (prefixb s_refs) prefixes) then Err AssertErr
  else
    let ps := dedupe prefixes in
    let fs := flat_map (fun p => filter (fun e => loose_under p (fst e)) (d_loose d)) ps in
    match packed_refs d ps with
    | Err e => Err e
    | Ok pk =>
        Ok (map (fun e : list Z * list Z => (fst e, @None (list Z))) fs
            ++ map (fun e : list Z * list Z => (fst e, Some (snd e)))
                   (filter (fun e => negb (mem_str (fst e) (map fst fs))) pk))
    end.

(* ------------------------------------------------------------------ *)
(* the two maps of ProjectRepo                                          *)

Fixpoint slookup {A} (k : list Z) (l : list (list Z * A)) : option A :=
  match l with
  | [] => None
  | (k', v) :: r => if list_eqb k k' then Some v else slookup k r
  end.

(* d[k] = v  of a python dict: an existing key keeps its place *)
Fixpoint dict_set {A} (k : list Z) (v : A) (l : list (list Z * A)) : list (list Z * A) :=
  match l with
  | [] => [(k, v)]
  | (k', v') :: r => if list_eqb k k' then (k', v) :: r else (k', v') :: dict_set k v r
  end.

(* the hexsha of a yielded ref: as yielded, or what GitRepo.get_ref_commit gives for a loose ref *)
Definition sha_of (d : disk) (e : list Z * option (list Z)) : list Z :=
  match snd e with
  | Some h => h
  | None => match slookup (fst e) (d_loose d) with Some h => h | None => [] end
  end.

Definition s_refs_remotes : list Z := [114; 101; 102; 115; 47; 114; 101; 109; 111; 116; 101; 115; 47].  (* "refs/remotes/" *)
Definition s_refs_tags : list Z := [114; 101; 102; 115; 47; 116; 97; 103; 115; 47].                      (* "refs/tags/" *)

(* ProjectRepo.make_branch_refs_map: {"<remote>/<branch>": hexsha}, in dict order *)
Definition branch_refs_map (d : disk) (remote : list Z) : res (list (list Z * list Z)) :=
  match iter_refs d [s_refs_remotes ++ remote ++ [47]] with
  | Err e => Err e
  | Ok l => Ok (fold_left (fun m e => dict_set (skipn (length s_refs_remotes) (fst e)) (sha_of d e) m) l [])
  end.

(* the refs below refs/tags/ as (tag name, hexsha of the tagged commit), in iteration order *)
Definition tags_list (d : disk) : res (list (list Z * list Z)) :=
  match iter_refs d [s_refs_tags] with
  | Err e => Err e
  | Ok l => Ok (map (fun e => (skipn (length s_refs_tags) (fst e), sha_of d e)) l)
  end.

(* ------------------------------------------------------------------ *)
(* observations used by the correspondence check (sorted where the code gives a dict)                        *)

Definition sort_by_key {A} (l : list (list Z * A)) : list (list Z * A) :=
  stable_sort (fun a b => str_cmp (fst a) (fst b) <? 0) l.

(* make_buildtags_map flattened to (hexsha, build, branch_str), sorted; [table]: the build tags and their parse *)
Definition triple_lt (a b : list Z * Z * list Z) : bool :=
  let '(s1, n1, b1) := a in
  let '(s2, n2, b2) := b in
  let c := str_cmp s1 s2 in
  if c <? 0 then true else if 0 <? c then false
  else if n1 <? n2 then true else if n2 <? n1 then false
  else str_cmp b1 b2 <? 0.

Definition buildtags (d : disk) (table : list (list Z * (Z * list Z))) : res (list (list Z * Z * list Z)) :=
  match tags_list d with
  | Err e => Err e
  | Ok l => Ok (stable_sort triple_lt
                  (flat_map (fun e : list Z * list Z =>
                               match slookup (fst e) table with
                               | Some (n, b) => [(snd e, n, b)]
                               | None => []
                               end) l))
  end.

(* ------------------------------------------------------------------ *)
(* a history read from disk                                             *)

Fixpoint index_of (x : list Z) (l : list (list Z)) : option nat :=
  match l with
  | [] => None
  | y :: r => if list_eqb x y then Some O else option_map S (index_of x r)
  end.

Fixpoint collect {A} (l : list (res (list A))) : res (list A) :=
  match l with
  | [] => Ok []
  | Ok a :: r => match collect r with Ok b => Ok (a ++ b) | Err e => Err e end
  | Err e :: _ => Err e
  end.

(* [h]: commits (their tags are ignored), remote, the refs of remotes[remote] (heads are ignored), search text;
   [shas]: the hexsha of commit k; [tagnums]: the build tags and the build numbers they stand for.
   A release / master ref without an entry in the map, or with a hexsha that is no commit: KeyError *)
Definition disk_history (d : disk) (shas : list (list Z)) (tagnums : list (list Z * bnum)) (h : history)
  : res history :=
  match tags_list d with
  | Err e => Err e
  | Ok tl =>
    match branch_refs_map d (h_remote h) with
    | Err e => Err e
    | Ok bm =>
      let need (name : list Z) := nonempty (release_branches (h_remote h) [(name, O)]) in
      match collect (map (fun r : list Z * nat =>
                            match slookup (fst r) bm with
                            | Some sha => match index_of sha shas with
                                          | Some i => Ok [(fst r, i)]
                                          | None => if need (fst r) then Err KeyErr else Ok []
                                          end
                            | None => if need (fst r) then Err KeyErr else Ok []
                            end) (h_refs h)) with
      | Err e => Err e
      | Ok refs =>
        let tags_of (sha : list Z) :=
          flat_map (fun e : list Z * list Z =>
                      if list_eqb (snd e) sha
                      then match slookup (fst e) tagnums with Some b => [b] | None => [] end
                      else []) tl in
        Ok (mkHistory
              (map (fun p : commit * list Z => mkCommit (c_parents (fst p)) (c_msg (fst p)) (c_time (fst p)) (tags_of (snd p)))
                   (combine (h_commits h) shas))
              (h_remote h) refs (h_text h))
      end
    end
  end.
