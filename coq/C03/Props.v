(* C03/Props.v -- placeholder while the proofs are written *)
From Coq Require Import ZArith List.
From AK Require Import C03.Run.
Import ListNotations.
Open Scope Z_scope.

(* E -> B ; A -> eps | y ; B -> A B x | x  (the witness of the defect repaired by e00f232) *)
Definition witness (a : sym) : list (sym * list (list sym)) :=
  [([69], [[[66]]]); (a, [[]; [[121]]]); ([66], [[a; [66]; [120]]; [[120]]])].

Example witness_rejected_both_namings :
  ctor_outcome (witness [65]) [[120]; [121]] false = Err GrammarRec /\
  ctor_outcome (witness [90]) [[120]; [121]] false = Err GrammarRec.
Proof. vm_compute. split; reflexivity. Qed.
Print Assumptions witness_rejected_both_namings.
