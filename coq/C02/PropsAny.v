(* C02/PropsAny.v -- the property theorems of C02 for productions lists that hold an AnyTokenExcept item, and for
   ONE productions dict (the same item objects) used by parsers with DIFFERENT tokenizers; nothing else.

   Vocabulary (C02/AnyExcept.v):
     ualt                      an entry of a symbol's productions list: UAlt a (tuple / None) | UAny excl (AnyTokenExcept( *excl ))
     any_tokens terms excl     AnyTokenExcept.get_tokens: the terminals of the parser under construction that are not excluded
     expand_ug terms ug        the productions with every item replaced, in place, by the one-token productions of these
                               terminals (GrammarError: two items in one list, an excluded name that is no terminal)
     t_build_any cfg skip ug start w    the constructor on such productions: the items are expanded with the token names of
                               THIS configuration (cfg_terminals cfg: skipped tokens included, $END$ not)
   An item is a VALUE here (the excluded names): it cannot remember the parser it was first used in.  That the
   implementation's item objects behave like this value -- the seeded change C02-m8 cached the first expansion on the
   object -- is what the correspondence of the Phases cases (C02/Run.v) checks on every run. *)
From Coq Require Import ZArith List Bool Lia.
From AK Require Import Common.Err LLP.Base LLP.Factor LLP.Table LLP.Parse LLP.Build.
From AK Require C01.RunTok gen.C04_Consts C04.Model C04.LemmasConc.
From AK Require Import C02.Lemmas C02.AnyExcept.
Import ListNotations.

(* ------------------------------------------------------------------ *)
(* 1. what an item stands for                                           *)
Theorem any_item_tokens : forall terminals excl t,
  In t (any_tokens terminals excl) <-> In t terminals /\ ~ In t excl.
Proof. exact any_tokens_spec. Qed.
Print Assumptions any_item_tokens.

Theorem any_item_means : forall terminals a x,
  In x (expand_alt terminals a) <->
  (a = UAlt x \/ exists excl t, a = UAny excl /\ x = [t] /\ In t terminals /\ ~ In t excl).
Proof. exact expand_alt_spec. Qed.
Print Assumptions any_item_means.

(* the productions of every symbol after the expansion: exactly the written ones and the one-token productions of the
   terminals that are not excluded *)
Theorem any_expansion_exact : forall terminals ug ug',
  expand_ug terminals ug = Ok ug' ->
  map fst ug' = map fst ug /\
  forall nt alts, In (nt, alts) ug ->
    exists alts', In (nt, alts') ug' /\
      forall x, In x alts' <->
        (In (UAlt x) alts \/ exists excl t, In (UAny excl) alts /\ x = [t] /\ In t terminals /\ ~ In t excl).
Proof.
  intros terminals ug ug' H. unfold expand_ug in H.
  destruct (forallb _ ug); [|discriminate]. injection H as <-. split.
  - rewrite map_map. reflexivity.
  - intros nt alts Hin. exists (flat_map (expand_alt terminals) alts). split.
    + apply in_map_iff. exists (nt, alts). split; [reflexivity|exact Hin].
    + intros x. rewrite in_flat_map. split.
      * intros (a & Ha & Hx). apply expand_alt_spec in Hx. destruct Hx as [->|(excl & t & -> & Hr)].
        -- left; exact Ha.
        -- right. exists excl, t. split; [exact Ha|exact Hr].
      * intros [Ha|(excl & t & Ha & Hr)].
        -- exists (UAlt x). split; [exact Ha|]. apply expand_alt_spec. left; reflexivity.
        -- exists (UAny excl). split; [exact Ha|]. apply expand_alt_spec. right. exists excl, t. split; [reflexivity|exact Hr].
Qed.
Print Assumptions any_expansion_exact.

Theorem plain_productions_unchanged : forall cfg skip ug start w,
  t_build_any cfg skip (plain_ug ug) start w = t_build cfg skip ug start w.
Proof. intros. apply t_build_any_expand. apply expand_plain. Qed.
Print Assumptions plain_productions_unchanged.

(* ------------------------------------------------------------------ *)
(* 2. every parser expands the items with ITS OWN token names           *)
Theorem any_constructor_uses_own_terminals : forall cfg skip ug start w p,
  t_build_any cfg skip ug start w = Ok p ->
  exists ug', expand_ug (C04.Model.cfg_terminals cfg) ug = Ok ug' /\ t_build cfg skip ug' start w = Ok p.
Proof.
  intros cfg skip ug start w p H.
  destruct (expand_ug (C04.Model.cfg_terminals cfg) ug) as [ug'|e] eqn:E.
  - exists ug'. split; [reflexivity|]. rewrite <- (t_build_any_expand cfg skip ug ug' start w E). exact H.
  - destruct (t_build_any_fails cfg skip ug start w e E) as [e' He]. rewrite He in H. discriminate.
Qed.
Print Assumptions any_constructor_uses_own_terminals.

(* ONE productions value, two tokenizer configurations (any two; built in any order, any number of times): each parser is
   the parser of the productions expanded with the terminals of its own configuration *)
Theorem shared_productions_two_tokenizers : forall cfgA skipA cfgB skipB ug start wA wB pA pB,
  t_build_any cfgA skipA ug start wA = Ok pA ->
  t_build_any cfgB skipB ug start wB = Ok pB ->
  exists ugA ugB,
    expand_ug (C04.Model.cfg_terminals cfgA) ug = Ok ugA /\ t_build cfgA skipA ugA start wA = Ok pA /\
    expand_ug (C04.Model.cfg_terminals cfgB) ug = Ok ugB /\ t_build cfgB skipB ugB start wB = Ok pB.
Proof.
  intros cfgA skipA cfgB skipB ug start wA wB pA pB HA HB.
  destruct (any_constructor_uses_own_terminals _ _ _ _ _ _ HA) as (ugA & EA & BA).
  destruct (any_constructor_uses_own_terminals _ _ _ _ _ _ HB) as (ugB & EB & BB).
  exists ugA, ugB. repeat split; assumption.
Qed.
Print Assumptions shared_productions_two_tokenizers.

(* programs: the session on productions with items is the session of C02/SessionTok.v on the expansion (so every theorem
   of PropsTok.v section 3 holds of it) *)
Theorem session_any_is_session_of_expansion : forall cfg skip ug ug' start fuel texts W ops,
  expand_ug (C04.Model.cfg_terminals cfg) ug = Ok ug' ->
  session_any_w cfg skip ug start fuel texts W ops = session_t_w cfg skip ug' start fuel texts W ops.
Proof. intros. unfold session_any_w. rewrite H. reflexivity. Qed.
Print Assumptions session_any_is_session_of_expansion.

(* ------------------------------------------------------------------ *)
(* 3. the language clause (soundness, full): the grammar is the EXPANDED one of this parser *)
Theorem parse_text_returns_derivation_any : forall cfg skip ug start w p k text t,
  C04.LemmasConc.lexicon_ok (C04.Model.c_lex cfg) ->
  mem END_TOKEN (C04.Model.cfg_terminals cfg) = false ->
  t_build_any cfg skip ug start w = Ok p ->
  t_parse cfg skip p k text None = Ok t ->
  exists ug' body e,
    expand_ug (C04.Model.cfg_terminals cfg) ug = Ok ug' /\
    t_tokens cfg skip text = Ok (body ++ [e]) /\ tname e = END_TOKEN /\
    (forall b, In b body -> mem (tname b) (t_skipset cfg skip) = false) /\
    Deriv (ugram ug') (p_terminals p) start (erase t) (map tok_pair body).
Proof.
  intros cfg skip ug start w p k text t Hlex Hend HB HP.
  destruct (any_constructor_uses_own_terminals _ _ _ _ _ _ HB) as (ug' & E & B).
  destruct (parse_text_deriv_l cfg skip ug' start w p k text t Hlex Hend B HP) as (body & e & H).
  exists ug', body, e. split; [exact E|exact H].
Qed.
Print Assumptions parse_text_returns_derivation_any.

Theorem ll1_reject_text_any : forall cfg skip ug ug' start w p k text body e t,
  C04.LemmasConc.lexicon_ok (C04.Model.c_lex cfg) ->
  mem END_TOKEN (C04.Model.cfg_terminals cfg) = false ->
  expand_ug (C04.Model.cfg_terminals cfg) ug = Ok ug' ->
  t_build_any cfg skip ug start w = Ok p ->
  t_tokens cfg skip text = Ok (body ++ [e]) ->
  ~ in_language (ugram ug') (p_terminals p) start (map tok_pair body) ->
  t_parse cfg skip p k text None <> Ok t.
Proof.
  intros cfg skip ug ug' start w p k text body e t Hlex Hend E HB HT Hnot.
  rewrite (t_build_any_expand cfg skip ug ug' start w E) in HB.
  exact (ll1_reject_text_l cfg skip ug' start w p k text body e t Hlex Hend HB HT Hnot).
Qed.
Print Assumptions ll1_reject_text_any.

(* ------------------------------------------------------------------ *)
(* 4. example: the grammar of the seeded change C02-m8
        E -> '(' ITEMS ')' ;  ITEMS -> ITEM ITEMS | eps ;  ITEM -> AnyTokenExcept('(', ')')
      with a tokenizer that knows SPACE WORD NUM ( ) and one that knows quoted strings as well *)
Definition aE : sym := [69]%Z.     (* E *)
Definition aITEMS : sym := [73;84;69;77;83]%Z.     (* ITEMS *)
Definition aITEM : sym := [73;84;69;77]%Z.     (* ITEM *)
Definition aSPACE : sym := [83;80;65;67;69]%Z.     (* SPACE *)
Definition aWORD : sym := [87;79;82;68]%Z.     (* WORD *)
Definition aNUM : sym := [78;85;77]%Z.     (* NUM *)
Definition aBO : sym := [66;79]%Z.     (* BO *)
Definition aBC : sym := [66;67]%Z.     (* BC *)
Definition aLP : sym := [40]%Z.     (* ( *)
Definition aRP : sym := [41]%Z.     (* ) *)
Definition aDQ : sym := [68;81]%Z.     (* DQ *)
Definition aSTRING : sym := [83;84;82;73;78;71]%Z.     (* STRING *)
Definition a_ug : ugany :=
  [(aE, [UAlt [aLP; aITEMS; aRP]]); (aITEMS, [UAlt [aITEM; aITEMS]; UAlt []]); (aITEM, [UAny [aLP; aRP]])].
Definition a_cfg1 : lexcfg :=
  tk_cfg [(aSPACE, TSpace); (aWORD, TRange 97 122); (aNUM, TRange 48 57); (aBO, TLit [40]%Z); (aBC, TLit [41]%Z)]
         [] [(aBO, aLP); (aBC, aRP)] [].
Definition a_cfg2 : lexcfg :=
  tk_cfg [(aSPACE, TSpace); (aWORD, TRange 97 122); (aNUM, TRange 48 57); (aBO, TLit [40]%Z); (aBC, TLit [41]%Z); (aDQ, TQuoted 34)]
         [] [(aBO, aLP); (aBC, aRP); (aDQ, aSTRING)] [].
Definition a_text1 : list Z := [40;97;32;49;41]%Z.               (* (a 1)   *)
Definition a_text2 : list Z := [40;34;115;34;32;97;41]%Z.        (* ("s" a) *)
Definition a_text3 : list Z := [40;97;32;40;98;41;41]%Z.         (* (a (b)) *)
Definition rmap {A B : Type} (f : A -> B) (r : res A) : res B := match r with Ok a => Ok (f a) | Err e => Err e end.
Definition alts_of (r : res (list (sym * list (list sym)))) (nt : sym) : list (list sym) :=
  match r with Ok ug => match find (fun e => sym_eqb (fst e) nt) ug with Some e => snd e | None => [] end | Err _ => [] end.

Example ex_any_expansions :
  alts_of (expand_ug (C04.Model.cfg_terminals a_cfg1) a_ug) aITEM = [[aSPACE]; [aWORD]; [aNUM]] /\
  alts_of (expand_ug (C04.Model.cfg_terminals a_cfg2) a_ug) aITEM = [[aSPACE]; [aWORD]; [aNUM]; [aSTRING]] /\
  expand_ug (C04.Model.cfg_terminals a_cfg1) [(aITEM, [UAny [aSTRING]])] = Err OtherErr /\
  expand_ug (C04.Model.cfg_terminals a_cfg2) [(aITEM, [UAny [aLP]; UAlt []; UAny [aRP]])] = Err OtherErr.
Proof. vm_compute. repeat split; reflexivity. Qed.
Print Assumptions ex_any_expansions.

Example ex_any_two_tokenizers : forall w1 w2,
  match t_build_any a_cfg1 None a_ug aE w1, t_build_any a_cfg2 None a_ug aE w2 with
  | Ok p1, Ok p2 =>
      is_ambiguous (p_tables p1) = false /\ is_ambiguous (p_tables p2) = false /\
      rmap leaves (t_parse a_cfg1 None p1 8 a_text1 None) = Ok [(aLP, [40]%Z); (aWORD, [97]%Z); (aNUM, [49]%Z); (aRP, [41]%Z)] /\
      rmap leaves (t_parse a_cfg2 None p2 8 a_text1 None) = Ok [(aLP, [40]%Z); (aWORD, [97]%Z); (aNUM, [49]%Z); (aRP, [41]%Z)] /\
      t_parse a_cfg1 None p1 8 a_text2 None = Err LexicalErr /\
      rmap leaves (t_parse a_cfg2 None p2 8 a_text2 None) =
        Ok [(aLP, [40]%Z); (aSTRING, [115]%Z); (aWORD, [97]%Z); (aRP, [41]%Z)] /\
      t_parse a_cfg1 None p1 8 a_text3 None = Err ParsingErr /\
      t_parse a_cfg2 None p2 8 a_text3 None = Err ParsingErr
  | _, _ => False
  end.
Proof. intros [|] [|]; vm_compute; repeat split; reflexivity. Qed.
Print Assumptions ex_any_two_tokenizers.
