(* C02/LemFirst.v -- first_sets (model of _calc_first_sets) is exactly the
   inductive relation First. *)
From Coq Require Import ZArith List Bool Lia.
From AK Require Import Common.Err LLP.Base LLP.Table C02.Model C02.Spec C02.LemBase C02.LemNull.
Import ListNotations.

(* ---------- the scan "FIRST of a sequence" shared by the three loops ---------- *)
Section CFirst.
  Variables terms nulls : list sym.

  Definition sym_first (fs : setmap) (s : sym) : list sym :=
    if mem s terms then [s] else sm_get fs s.

  Definition cfirst (fs : setmap) (p : list sym) (t : sym) : Prop :=
    exists pre s post, p = pre ++ s :: post /\
      forallb (fun x => mem x nulls) pre = true /\ In t (sym_first fs s).

  Lemma cfirst_nil : forall fs t, ~ cfirst fs [] t.
  Proof.
    intros fs t [pre [s [post [E _]]]]. destruct pre; discriminate.
  Qed.

  Lemma cfirst_cons : forall fs s r t,
    cfirst fs (s :: r) t <-> In t (sym_first fs s) \/ (mem s nulls = true /\ cfirst fs r t).
  Proof.
    intros fs s r t. split.
    - intros [pre [s0 [post [E [Hn Hi]]]]]. destruct pre as [|x pre]; simpl in E; inversion E; subst.
      + left. exact Hi.
      + right. simpl in Hn. apply andb_true_iff in Hn. destruct Hn as [Hx Hn]. split; auto.
        exists pre, s0, post. auto.
    - intros [H|[Hs [pre [s0 [post [E [Hn Hi]]]]]]].
      + exists [], s, r. simpl. auto.
      + exists (s :: pre), s0, post. subst r. simpl. rewrite Hs, Hn. auto.
  Qed.

  Lemma cfirst_mono : forall fs fs' p t, ext fs fs' -> cfirst fs p t -> cfirst fs' p t.
  Proof.
    intros fs fs' p t He [pre [s [post [E [Hn Hi]]]]]. exists pre, s, post. split; auto. split; auto.
    unfold sym_first in *. destruct (mem s terms); auto. apply (ext_get_In fs fs'); auto.
  Qed.

  Lemma accs_In : forall fs s acc t,
    In t (if mem s terms then add_set s acc else union_set acc (sm_get fs s)) <->
    In t acc \/ In t (sym_first fs s).
  Proof.
    intros fs s acc t. unfold sym_first. destruct (mem s terms).
    - rewrite add_set_In. simpl. split; [intros [H|H]; auto | intros [H|[H|[]]]; auto].
    - apply union_set_In.
  Qed.

  Lemma accs_ext : forall fs s acc,
    exists e, (if mem s terms then add_set s acc else union_set acc (sm_get fs s)) = acc ++ e.
  Proof.
    intros fs s acc. destruct (mem s terms); [apply add_set_ext|apply union_set_ext].
  Qed.

  Lemma accs_ok : forall fs s acc, sets_ok terms fs -> NoDup acc -> incl acc terms ->
    NoDup (if mem s terms then add_set s acc else union_set acc (sm_get fs s)) /\
    incl (if mem s terms then add_set s acc else union_set acc (sm_get fs s)) terms.
  Proof.
    intros fs s acc Hf Hn Hi. destruct (mem s terms) eqn:E.
    - split; [apply add_set_NoDup; auto|]. intros x Hx. apply add_set_In in Hx.
      destruct Hx as [->|Hx]; auto. apply mem_In. exact E.
    - split; [apply union_set_NoDup; auto|]. intros x Hx. apply union_set_In in Hx.
      destruct Hx as [Hx|Hx]; auto. apply (proj2 (sets_ok_get terms fs s Hf)). exact Hx.
  Qed.

  Lemma first_of_seq_In : forall fs p acc t,
    In t (first_of_seq terms nulls fs p acc) <-> In t acc \/ cfirst fs p t.
  Proof.
    intros fs p. induction p as [|s r IH]; simpl; intros acc t.
    - split; [auto|]. intros [H|H]; auto. exfalso. apply (cfirst_nil _ _ H).
    - rewrite cfirst_cons. destruct (mem s nulls) eqn:E.
      + rewrite IH. rewrite accs_In. intuition.
      + rewrite accs_In. intuition. discriminate.
  Qed.

  Lemma first_of_seq_ext : forall fs p acc, exists e, first_of_seq terms nulls fs p acc = acc ++ e.
  Proof.
    intros fs p. induction p as [|s r IH]; simpl; intro acc.
    - exists []. rewrite app_nil_r. reflexivity.
    - destruct (accs_ext fs s acc) as [e1 E1]. destruct (mem s nulls).
      + destruct (IH (if mem s terms then add_set s acc else union_set acc (sm_get fs s))) as [e2 E2].
        exists (e1 ++ e2). rewrite E2, E1. rewrite app_assoc. reflexivity.
      + exists e1. exact E1.
  Qed.

  Lemma first_of_seq_ok : forall fs p acc, sets_ok terms fs -> NoDup acc -> incl acc terms ->
    NoDup (first_of_seq terms nulls fs p acc) /\ incl (first_of_seq terms nulls fs p acc) terms.
  Proof.
    intros fs p. induction p as [|s r IH]; simpl; intros acc Hf Hn Hi; auto.
    destruct (accs_ok fs s acc Hf Hn Hi) as [A B]. destruct (mem s nulls); auto.
  Qed.

  (* all the productions of one symbol *)
  Definition frules (fs : setmap) (rules : list rule) (acc : list sym) : list sym :=
    fold_left (fun acc r => first_of_seq terms nulls fs (rprod r) acc) rules acc.

  Lemma frules_In : forall fs rules acc t,
    In t (frules fs rules acc) <-> In t acc \/ exists r, In r rules /\ cfirst fs (rprod r) t.
  Proof.
    intros fs rules. unfold frules. induction rules as [|r0 rules IH]; simpl; intros acc t.
    - split; [auto|]. intros [H|[r [[] _]]]; auto.
    - rewrite IH. rewrite first_of_seq_In. split.
      + intros [[H|H]|[r [Hr Hc]]]; auto.
        * right. exists r0. auto.
        * right. exists r. auto.
      + intros [H|[r [[Hr|Hr] Hc]]]; auto.
        * subst. auto.
        * right. exists r. auto.
  Qed.

  Lemma frules_ext : forall fs rules acc, exists e, frules fs rules acc = acc ++ e.
  Proof.
    intros fs rules. unfold frules. induction rules as [|r0 rules IH]; simpl; intro acc.
    - exists []. rewrite app_nil_r. reflexivity.
    - destruct (first_of_seq_ext fs (rprod r0) acc) as [e1 E1].
      destruct (IH (first_of_seq terms nulls fs (rprod r0) acc)) as [e2 E2].
      exists (e1 ++ e2). rewrite E2, E1. rewrite app_assoc. reflexivity.
  Qed.

  Lemma frules_ok : forall fs rules acc, sets_ok terms fs -> NoDup acc -> incl acc terms ->
    NoDup (frules fs rules acc) /\ incl (frules fs rules acc) terms.
  Proof.
    intros fs rules. unfold frules. induction rules as [|r0 rules IH]; simpl; intros acc Hf Hn Hi; auto.
    destruct (first_of_seq_ok fs (rprod r0) acc Hf Hn Hi) as [A B]. auto.
  Qed.

  Definition fstep_f (fs : setmap) (kv : sym * list rule) : setmap :=
    sm_set fs (fst kv) (frules fs (snd kv) (sm_get fs (fst kv))).

  Lemma first_step_unfold : forall g fs, first_step g terms nulls fs = fold_left fstep_f g fs.
  Proof.
    intros g. induction g as [|[nt rules] g IH]; intro fs; [reflexivity|].
    unfold first_step in *. simpl. rewrite IH. reflexivity.
  Qed.

  Lemma fstep_f_ext : forall fs kv, ext fs (fstep_f fs kv).
  Proof.
    intros fs kv. unfold fstep_f. apply ext_sm_set. apply frules_ext.
  Qed.

  Lemma fstep_ext : forall l fs, ext fs (fold_left fstep_f l fs).
  Proof.
    induction l as [|kv l IH]; simpl; intro fs; [apply ext_refl|].
    eapply ext_trans; [apply fstep_f_ext|apply IH].
  Qed.

  Lemma fstep_f_ok : forall fs kv, sets_ok terms fs -> sets_ok terms (fstep_f fs kv).
  Proof.
    intros fs kv H. unfold fstep_f. destruct (sets_ok_get terms fs (fst kv) H) as [A B].
    destruct (frules_ok fs (snd kv) _ H A B) as [C D]. apply sets_ok_set; auto.
  Qed.

  Lemma fstep_ok : forall l fs, sets_ok terms fs -> sets_ok terms (fold_left fstep_f l fs).
  Proof.
    induction l as [|kv l IH]; simpl; intros fs H; auto. apply IH. apply fstep_f_ok. exact H.
  Qed.

  Lemma fstep_complete : forall l fs0 fs nt rules r t,
    In (nt, rules) l -> In r rules -> cfirst fs0 (rprod r) t -> ext fs0 fs -> In nt (map fst fs) ->
    In t (sm_get (fold_left fstep_f l fs) nt).
  Proof.
    induction l as [|kv l IH]; simpl; intros fs0 fs nt rules r t Hl Hr Hc He Hk; [contradiction|].
    destruct Hl as [Hl|Hl].
    - subst kv. apply (ext_get_In (fstep_f fs (nt, rules))); [apply fstep_ext|].
      unfold fstep_f. simpl. rewrite sm_get_set_same; auto.
      apply frules_In. right. exists r. split; auto. apply (cfirst_mono fs0); auto.
    - apply (IH fs0 _ nt rules r t); auto.
      + eapply ext_trans; [exact He|apply fstep_f_ext].
      + rewrite (ext_keys _ _ (fstep_f_ext fs kv)). exact Hk.
  Qed.

  Lemma fstep_sound : forall (P : sym -> sym -> Prop) l fs,
    (forall fs' nt rules r t, In (nt, rules) l -> In r rules ->
        (forall k x, In x (sm_get fs' k) -> P k x) -> cfirst fs' (rprod r) t -> P nt t) ->
    (forall k x, In x (sm_get fs k) -> P k x) ->
    forall k x, In x (sm_get (fold_left fstep_f l fs) k) -> P k x.
  Proof.
    intros P l. induction l as [|[nt rules] l IH]; simpl; intros fs Hl Hf k x Hx; auto.
    revert k x Hx. apply IH.
    - intros fs' nt' rules' r t H1 H2 H3 H4. apply (Hl fs' nt' rules' r t); auto.
    - intros k x Hx. unfold fstep_f in Hx. simpl in Hx.
      destruct (sm_get_set_cases fs nt (frules fs rules (sm_get fs nt)) k) as [[E [_ G]]|G];
        rewrite G in Hx; auto.
      subst k. apply frules_In in Hx. destruct Hx as [Hx|[r [Hr Hc]]]; auto.
      apply (Hl fs nt rules r x); auto.
  Qed.
End CFirst.

(* ---------- semantic level ---------- *)
Section FirstExact.
  Variable g : grammar.
  Variable terms : list sym.
  Hypothesis Hnodup : NoDup (gkeys g).

  Let nulls := nullables g.

  Lemma First_of_FirstSeq : forall nt r t,
    In r (grules g nt) -> FirstSeq g terms (rprod r) t -> First g terms nt t.
  Proof.
    intros nt r t Hr [pre [s [post [E [Hn [[Hs Ht]|[Hs Ht]]]]]]].
    - subst t. apply (First_t g terms nt r pre s post); auto.
    - apply (First_nt g terms nt r pre s post t); auto.
  Qed.

  Lemma First_inv : forall nt t, First g terms nt t ->
    exists r, In r (grules g nt) /\ FirstSeq g terms (rprod r) t.
  Proof.
    intros nt t H. destruct H as [nt r pre t post Hr E Hn Ht | nt r pre s post t Hr E Hn Hs Hf].
    - exists r. split; auto. exists pre, t, post. split; auto. split; auto. left. auto.
    - exists r. split; auto. exists pre, s, post. split; auto. split; auto. right. auto.
  Qed.

  Lemma cfirst_sound : forall fs p t,
    (forall k x, In x (sm_get fs k) -> First g terms k x) ->
    cfirst terms nulls fs p t -> FirstSeq g terms p t.
  Proof.
    intros fs p t Hf [pre [s [post [E [Hn Hi]]]]]. exists pre, s, post. split; auto.
    split; [apply (nulls_forallb g Hnodup); exact Hn|].
    unfold sym_first in Hi. destruct (mem s terms) eqn:Es.
    - left. destruct Hi as [Hi|[]]. auto.
    - right. auto.
  Qed.

  Lemma cfirst_complete : forall fs p t,
    (forall k x, First g terms k x -> In x (sm_get fs k)) ->
    FirstSeq g terms p t -> cfirst terms nulls fs p t.
  Proof.
    intros fs p t Hf [pre [s [post [E [Hn Hs]]]]]. exists pre, s, post. split; auto.
    split; [apply (nulls_forallb g Hnodup); exact Hn|].
    unfold sym_first. destruct Hs as [[Hs Ht]|[Hs Ht]]; rewrite Hs.
    - left. auto.
    - auto.
  Qed.

  Definition finv (fs : setmap) : Prop :=
    sets_ok terms fs /\ map fst fs = gkeys g /\ forall k x, In x (sm_get fs k) -> First g terms k x.

  Lemma first_step_inv : forall fs, finv fs -> finv (first_step g terms nulls fs).
  Proof.
    intros fs [H1 [H2 H3]]. rewrite first_step_unfold. split; [|split].
    - apply fstep_ok. exact H1.
    - rewrite (ext_keys _ _ (fstep_ext terms nulls g fs)). exact H2.
    - apply (fstep_sound terms nulls (First g terms) g fs); auto.
      intros fs' nt rules r t Hl Hr Hf Hc. apply First_of_FirstSeq with (r := r).
      + rewrite (In_grules g nt rules Hnodup Hl). exact Hr.
      + apply (cfirst_sound fs'); auto.
  Qed.

  Definition first_init : setmap := map (fun kv : sym * list rule => (fst kv, @nil sym)) g.

  Lemma first_init_get : forall k, sm_get first_init k = [].
  Proof.
    intro k. unfold first_init.
    rewrite (sm_get_map_init (fun _ => []) g k); [|reflexivity]. destruct (mem k (gkeys g)); reflexivity.
  Qed.

  Lemma finv_init : finv first_init.
  Proof.
    split; [|split].
    - unfold sets_ok, first_init. apply Forall_forall. intros kv H. apply in_map_iff in H.
      destruct H as [x [E _]]. subst kv. simpl. split; [constructor|]. intros y [].
    - unfold first_init, gkeys. rewrite map_map. reflexivity.
    - intros k x H. rewrite first_init_get in H. destruct H.
  Qed.

  Lemma first_sets_inv : finv (first_sets g terms nulls).
  Proof.
    unfold first_sets. apply (iter_inv finv); [apply first_step_inv|apply finv_init].
  Qed.

  Lemma first_sets_fixpoint :
    first_step g terms nulls (first_sets g terms nulls) = first_sets g terms nulls.
  Proof.
    unfold first_sets.
    apply (iter_reaches_fixpoint finv (first_step g terms nulls) ssum (length g * length terms)).
    - apply first_step_inv.
    - intros x _. rewrite first_step_unfold. apply ext_cases. apply fstep_ext.
    - intros x [H1 [H2 _]]. pose proof (sets_ok_bound terms x H1) as B.
      assert (L : length x = length g).
      { rewrite <- (map_length fst x), H2. unfold gkeys. apply map_length. }
      rewrite L in B. exact B.
    - rewrite Nat.mul_succ_r. lia.
    - apply finv_init.
  Qed.

  Lemma first_sound : forall k x, In x (sm_get (first_sets g terms nulls) k) -> First g terms k x.
  Proof. apply first_sets_inv. Qed.

  Lemma first_complete : forall k x, First g terms k x -> In x (sm_get (first_sets g terms nulls) k).
  Proof.
    set (FS := first_sets g terms nulls).
    assert (KEY : forall nt r t, In r (grules g nt) -> cfirst terms nulls FS (rprod r) t -> In t (sm_get FS nt)).
    { intros nt r t Hr Hc.
      assert (FP : first_step g terms nulls FS = FS) by apply first_sets_fixpoint.
      rewrite <- FP. rewrite first_step_unfold.
      apply (fstep_complete terms nulls g FS FS nt (grules g nt) r t); auto.
      - apply grules_In_g with (r := r). exact Hr.
      - apply ext_refl.
      - destruct first_sets_inv as [_ [K _]]. fold FS in K. rewrite K. apply grules_key with (r := r). exact Hr. }
    intros k x H. induction H as [nt r pre t post Hr E Hn Ht | nt r pre s post t Hr E Hn Hs Hf IH].
    - apply (KEY nt r t Hr). exists pre, t, post. split; auto.
      split; [apply (nulls_forallb g Hnodup); exact Hn|]. unfold sym_first. rewrite Ht. left. reflexivity.
    - apply (KEY nt r t Hr). exists pre, s, post. split; auto.
      split; [apply (nulls_forallb g Hnodup); exact Hn|]. unfold sym_first. rewrite Hs. exact IH.
  Qed.

  Theorem first_exact_l : forall k x, In x (sm_get (first_sets g terms nulls) k) <-> First g terms k x.
  Proof. intros k x. split; [apply first_sound|apply first_complete]. Qed.

  Lemma cfirst_exact : forall p t,
    cfirst terms nulls (first_sets g terms nulls) p t <-> FirstSeq g terms p t.
  Proof.
    intros p t. split.
    - apply cfirst_sound. apply first_sound.
    - apply cfirst_complete. apply first_complete.
  Qed.
End FirstExact.
