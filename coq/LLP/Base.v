(* LLP/Base.v -- shared vocabulary of the parser family (C01-C05), model of
   ak/llparser.py.  Symbols are their *names* (strings = lists of code points),
   because the code orders symbols by name and derives helper names from user
   names.  No proofs in this file. *)
From Coq Require Import ZArith List Bool.
Import ListNotations.
Open Scope Z_scope.

Notation sym := (list Z).

Fixpoint sym_eqb (a b : sym) : bool :=
  match a, b with
  | [], [] => true
  | x :: a', y :: b' => Z.eqb x y && sym_eqb a' b'
  | _, _ => false
  end.

(* Python's str comparison: lexicographic on code points *)
Fixpoint sym_ltb (a b : sym) : bool :=
  match a, b with
  | [], [] => false
  | [], _ :: _ => true
  | _ :: _, [] => false
  | x :: a', y :: b' => if x <? y then true else if y <? x then false else sym_ltb a' b'
  end.

Definition mem (s : sym) (l : list sym) : bool := existsb (sym_eqb s) l.

Definition add_set (s : sym) (l : list sym) : list sym := if mem s l then l else l ++ [s].
Definition union_set (a b : list sym) : list sym := fold_left (fun acc s => add_set s acc) b a.
Definition subset (a b : list sym) : bool := forallb (fun s => mem s b) a.

(* insertion sort by name, used to canonicalise sets and to mirror sorted() *)
Fixpoint insert_sym (s : sym) (l : list sym) : list sym :=
  match l with
  | [] => [s]
  | x :: r => if sym_ltb x s then x :: insert_sym s r else s :: l
  end.
Definition sort_syms (l : list sym) : list sym := fold_right insert_sym [] l.

Record rule := mkRule { rsym : sym; rprod : list sym; rsort : Z }.

(* prods_map: insertion-ordered dict  symbol -> [ProdRule] *)
Notation grammar := (list (sym * list rule)).

Fixpoint glookup (g : grammar) (s : sym) : option (list rule) :=
  match g with
  | [] => None
  | (k, v) :: r => if sym_eqb k s then Some v else glookup r s
  end.

Definition grules (g : grammar) (s : sym) : list rule :=
  match glookup g s with Some v => v | None => [] end.

Definition gkeys (g : grammar) : list sym := map fst g.

Fixpoint gupdate (g : grammar) (s : sym) (v : list rule) : grammar :=
  match g with
  | [] => []
  | (k, w) :: r => if sym_eqb k s then (k, v) :: r else (k, w) :: gupdate r s v
  end.

Definition gremove (g : grammar) (ss : list sym) : grammar :=
  filter (fun kv => negb (mem (fst kv) ss)) g.

(* special names *)
Definition END_TOKEN : sym := [36;69;78;68;36].            (* "$END$" *)
Definition INIT_SYM : sym := [36;83;84;65;82;84;36].       (* "$START$" *)

(* source positions (line, column), 1-based; spans are (start, end) *)
Notation pos := (Z * Z)%type.
Notation span := ((Z * Z) * (Z * Z))%type.

Record token := mkTok { tname : sym; tvalue : list Z; tstart : pos; tend : pos }.

(* TElement before cleanup.  [Node n [] sp] is an element whose value is None. *)
Inductive tree : Type :=
| Leaf (name : sym) (value : list Z) (sp : span)
| Node (name : sym) (children : list tree) (sp : span).

Definition tree_name (t : tree) : sym := match t with Leaf n _ _ => n | Node n _ _ => n end.
Definition tree_span (t : tree) : span := match t with Leaf _ _ s => s | Node _ _ s => s end.
Definition tree_children (t : tree) : list tree := match t with Leaf _ _ _ => [] | Node _ c _ => c end.
