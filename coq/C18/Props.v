(* C18/Props.v -- the property theorems, nothing else.
   "Objects read from a sheet match their source cells."
   A worksheet is a list of rows of cell values; the cell in row r, column c (0-based) has the
   coordinate [coord_text r c].  [read_table cf sh] = (items yielded by iter_table, exception that
   ended the iteration if any); an item is [Some object] or [None] (row without id values). *)
From Coq Require Import ZArith List Bool.
From AK Require Import Common.Err C18.Base gen.C18_Consts C18.Model C18.Lemmas C18.LemmasLadder C18.LemmasCoord C18.LemmasRange C18.Session C18.LemmasSession.
Import ListNotations.

(* the origin markers read from the source can never be mistaken for a coordinate *)
Theorem markers_are_not_coordinates :
  forallb not_coord_start [marker_na; marker_skipped; marker_range_empty; marker_key_na] = true.
Proof. exact markers_not_coords. Qed.
Print Assumptions markers_are_not_coordinates.

(* ---------------------------------------------------------------------------------------- *)
(* origin_consistent (full).  For every object produced from a worksheet and every attribute
   (rule ru, value v, recorded origin og), [attr_sheet_ok] holds:
   - ru = RPlain col cv _, og = OCell r c: the sheet cell (r, c) exists, column c is titled col in
     the title row, and v is the conversion of that cell (val_from_val cv);
   - ru = RPlain col _ (Some d), og = OSkipped: no column is titled col and v is the default d;
   - ru = RExt d, og = ONa: v is the default d;
   - ru = RRange isdict cv _, og = ORange dict: there are sheet cells, one per column name of the
     detected range group and each standing in a column with that title, such that v is the range
     conversion of these cells and dict maps each title to its cell's coordinate;
   no other combination occurs.  This holds for objects yielded before an exception, too. *)
Theorem origin_consistent : forall cf sh items e j o,
  read_table cf sh = (items, e) -> nth_error items j = Some (Some o) ->
  Forall2 (attr_sheet_ok sh (cf_rules cf)) (cf_rules cf) (o_attrs o).
Proof. exact origin_consistent_l. Qed.
Print Assumptions origin_consistent.

(* ... and get_attr_origin reports exactly the recorded origin: the coordinate text of the cell,
   the marker, the range text; with a key, the coordinate of that key's cell of a ranged attribute
   (ValueError / "n/a" for an unknown key, ValueError for a key on a single-cell attribute) *)
Theorem origin_reported : forall o i v og,
  nth_error (o_attrs o) i = Some (v, og) ->
  get_attr_origin o (Some i) None true = Ok (origin_text og) /\
  forall k strict,
    get_attr_origin o (Some i) (Some k) strict =
    match og with
    | ORange d => match assoc_get k d with
                  | Some (r, c) => Ok (coord_text r c)
                  | None => if strict then Err ValueErr else Ok marker_key_na
                  end
    | _ => Err ValueErr
    end.
Proof. exact origin_text_l. Qed.
Print Assumptions origin_reported.

(* for a CellRangeDict attribute: the cell reported for key k is the cell whose conversion is the
   value stored under k *)
Theorem range_key_consistent : forall cv rn cells dv k r c,
  length rn = length cells ->
  range_value true cv rn cells = Ok (VDict dv) ->
  assoc_get k (dict_of (combine rn (map cpos cells))) = Some (r, c) ->
  exists x sv, In x cells /\ cpos x = (r, c) /\ val_from_cell cv x = Ok sv /\
               assoc_get k dv = Some sv.
Proof. exact range_key_dict. Qed.
Print Assumptions range_key_consistent.

(* ---------------------------------------------------------------------------------------- *)
(* rows_in_order (full).  With t the index of the title row (first non-blank row): item j belongs
   to sheet row t+1+j, which exists and is not an end row under the chosen rule ([vis_end]: first
   cell blank for "blank first", all cells blank otherwise); every origin of the item lies in that
   row (ladder: in rows t+1 .. t+1+j); and a reading that ends without exception ends at the end
   of the sheet or at an end row.  Without a title row nothing is produced. *)
Theorem rows_in_order : forall cf sh items e,
  read_table cf sh = (items, e) ->
  match title_row sh with
  | None => items = [] /\ e = None
  | Some (t, tvs) =>
      (forall j item, nth_error items j = Some item ->
         exists vs, nth_error sh (S t + j) = Some vs /\ vis_end cf vs = Ok false /\
           forall o, item = Some o ->
             Forall (fun a => origin_rows (if cf_ladder cf then S t else (S t + j)%nat) (S t + j) (snd a))
                    (o_attrs o)) /\
      (e = None ->
       match nth_error sh (S t + length items) with
       | None => True
       | Some vs => vis_end cf vs = Ok true
       end)
  end.
Proof. exact rows_in_order_l. Qed.
Print Assumptions rows_in_order.

(* ---------------------------------------------------------------------------------------- *)
(* ladder_equiv (full for the default end rule).  [fill_sheet sh] = the table with the "same as
   above" cells filled in (LemmasLadder.v: below the title row and down to the first wholly blank
   row, a run of blank cells starting at the first titled column takes the cells of the filled row
   above).  Reading the ladder sheet in ladder mode and the filled-in sheet in plain mode gives the
   same item values row by row and the same exception, if any ([out_sim]). *)
Theorem ladder_equiv : forall cf sh w,
  Forall (fun vs => length vs = w) sh -> cf_ladder cf = true -> stop_first cf = false ->
  out_sim (read_table cf sh) (read_table (plain_of cf) (fill_sheet sh)).
Proof. exact ladder_equiv_l. Qed.
Print Assumptions ladder_equiv.

(* the statement for both end rules ... *)
Definition ladder_equiv_statement : Prop := forall cf sh w,
  Forall (fun vs => length vs = w) sh -> cf_ladder cf = true ->
  out_sim (read_table cf sh) (read_table (plain_of cf) (fill_sheet sh)).

(* ... is violated by the faithful model for stop_on="blank first": the table ends at the first
   "same as above" row (1 item against 3) -- finding ladder-blank-first *)
Theorem ladder_blank_first_refuted :
  exists cf sh w,
    Forall (fun vs => length vs = w) sh /\ cf_ladder cf = true /\ stop_first cf = true /\
    length (fst (read_table cf sh)) = 1%nat /\
    length (fst (read_table (plain_of cf) (fill_sheet sh))) = 3%nat /\
    snd (read_table cf sh) = None /\ snd (read_table (plain_of cf) (fill_sheet sh)) = None.
Proof. exact ladder_blank_first_refuted_l. Qed.
Print Assumptions ladder_blank_first_refuted.

(* guarded: it does hold for "blank first" when the first sheet column is not part of the ladder
   (its title is blank) *)
Theorem ladder_equiv_guarded : forall cf sh w,
  Forall (fun vs => length vs = w) sh -> cf_ladder cf = true ->
  (stop_first cf = false \/ first_some_pos (sheet_titles sh) 0 <> Some 0%nat) ->
  out_sim (read_table cf sh) (read_table (plain_of cf) (fill_sheet sh)).
Proof. exact ladder_equiv_gen. Qed.
Print Assumptions ladder_equiv_guarded.

(* ... and in the remaining situation -- finding ladder-blank-first -- the ladder reading is a
   PREFIX of the reading of the filled-in table: for every ladder reading (both end rules) the item
   values are those of the filled-in table, row by row, as far as the ladder reading goes; either
   the two readings agree to the end (same exception, if any), or stop_on = "blank first", the
   ladder starts in the first sheet column and the ladder reading ended without an exception --
   by rows_in_order at a row whose first cell is blank, i.e. at a "same as above" row (witness:
   ladder_blank_first_refuted, where 2 items are missing). *)
Theorem ladder_prefix : forall cf sh w,
  Forall (fun vs => length vs = w) sh -> cf_ladder cf = true ->
  exists rest,
    map item_vals (fst (read_table (plain_of cf) (fill_sheet sh))) =
    map item_vals (fst (read_table cf sh)) ++ rest /\
    ((rest = [] /\ snd (read_table cf sh) = snd (read_table (plain_of cf) (fill_sheet sh))) \/
     (stop_first cf = true /\ first_some_pos (sheet_titles sh) 0 = Some 0%nat /\
      snd (read_table cf sh) = None)).
Proof. exact ladder_prefix_l. Qed.
Print Assumptions ladder_prefix.

(* ladder_origins (full: single-cell attributes and every key of a ranged attribute).  In a
   ladder reading every origin (r, c) of the object of sheet row R = t+1+j -- the origin of a
   single-cell attribute, or the origin recorded under a key k of a ranged attribute (what
   get_attr_origin(attr, k) reports, origin_reported) -- lies in rows t+1 .. R, holds exactly what
   the filled-in table has at (R, c), and is the object's own cell whenever that is not blank. *)
Theorem ladder_origins :
  forall cf sh w items e t tvs j o i v og r c,
  Forall (fun vs => length vs = w) sh -> cf_ladder cf = true ->
  read_table cf sh = (items, e) -> title_row sh = Some (t, tvs) ->
  nth_error items j = Some (Some o) -> nth_error (o_attrs o) i = Some (v, og) ->
  (og = OCell r c \/ exists d k, og = ORange d /\ assoc_get k d = Some (r, c)) ->
  (S t <= r <= S t + j)%nat /\
  (exists x, cell_at sh r c = Some x /\ cell_at (fill_sheet sh) (S t + j) c = Some x) /\
  (forall y, cell_at sh (S t + j) c = Some y -> val_empty y = false -> r = (S t + j)%nat).
Proof. exact ladder_origins_l. Qed.
Print Assumptions ladder_origins.

(* ---------------------------------------------------------------------------------------- *)
(* range_detect (full).  The column names of a ranged attribute ([range_scan known names false],
   which origin_consistent ties to every produced object) are the first maximal run of titled
   columns that no rule names: everything before it is blank-titled or known, and it ends at the
   end of the title row or at a blank-titled / known column ... *)
Theorem range_detect : forall known names,
  exists pre post,
    names = pre ++ range_scan known names false ++ post /\
    Forall (fun n => not_range known n = true) pre /\
    Forall (fun n => not_range known n = false) (range_scan known names false) /\
    (post = [] \/ exists n post', post = n :: post' /\ not_range known n = true).
Proof. exact range_scan_spec. Qed.
Print Assumptions range_detect.

(* ... and, when the titles are distinct, the cells read for it are exactly the cells of these
   consecutive columns, in order (with duplicate titles the later column wins: col_names_ids) *)
Theorem range_columns : forall (post run : list str) (cells : list cell) (pre : list str),
  NoDup (pre ++ run ++ post) ->
  Forall2 (fun n (x : cell) => nth_error (pre ++ run ++ post) (c_col x) = Some n) run cells ->
  map c_col cells = seq (length pre) (length run).
Proof. exact range_cols_nodup. Qed.
Print Assumptions range_columns.

(* ---------------------------------------------------------------------------------------- *)
(* range_text (full).  The text get_attr_origin(attr) gives for a whole ranged attribute
   (model of sorted(origins.values(), key=_coord_sort_key), Model.range_text).
   [pos_le p q]: cell p = (row, column) stands in a column left of q's, or in the same column and
   not below it.  For ANY recorded origins d -- any number of columns (A..Z, AA, AB, ... the
   column letters are the bijective base-26 numeral, LemmasCoord.v), any insertion order, source
   cells of different rows -- the text is the marker (no cells), the coordinate (one cell), or
   "<p>:<q>" where p and q are source cells, no source cell is left of p and none is right of q.
   Ladder mode: the source cells of one ranged attribute can come from different rows (leading
   blank cells are taken from rows above, ladder_origins); the text then names the leftmost and
   the rightmost source cell, each with its own row (e.g. "B2:C3", range_text_ladder_example): it
   is not the bounding rectangle, and the individual cells are reported by
   get_attr_origin(attr, key). *)
Theorem range_text_extremes : forall d : list (str * (nat * nat)),
  match map snd d with
  | [] => range_text d = marker_range_empty
  | [p] => range_text d = pos_text p
  | _ => exists p q, In p (map snd d) /\ In q (map snd d) /\
                     (forall x, In x (map snd d) -> pos_le p x /\ pos_le x q) /\
                     range_text d = pos_text p ++ [58%Z] ++ pos_text q
  end.
Proof. exact range_text_extremes_l. Qed.
Print Assumptions range_text_extremes.

(* object level: with distinct titles the cells read for the range group stand in strictly
   increasing columns (range_columns), in any rows; then the text is
   "<first source cell>:<last source cell>" ([range_text_spec]) -- for all column counts *)
Theorem range_text : forall names cells,
  NoDup names -> length names = length cells ->
  (forall i j x y, (i < j)%nat -> nth_error cells i = Some x -> nth_error cells j = Some y ->
                   (c_col x < c_col y)%nat) ->
  range_text (dict_of (combine names (map cpos cells))) = range_text_spec (map cpos cells).
Proof. exact range_text_l. Qed.
Print Assumptions range_text.

(* the former witness of finding origin-range-string-sort (coordinates were sorted as strings and
   the text was "AA2:Z2"): source cells Y2 Z2 AA2 AB2 now give "Y2:AB2" *)
Example range_text_wide_example :
  exists o,
    read_table wide_cf wide_sheet = ([Some o], None) /\
    (exists v, nth_error (o_attrs o) 1 = Some (v, ORange wide_origins)) /\
    get_attr_origin o (Some 1%nat) None true = Ok wide_text.
Proof. exact range_text_wide_l. Qed.
Print Assumptions range_text_wide_example.

(* ladder sheet  Y p q / 2019 5 6 / - - 7 : the ranged attribute of the second object has the
   source cells B2 (taken from the row above) and C3; the text is "B2:C3" *)
Example range_text_ladder_example :
  exists o1 o2,
    read_table lad_cf lad_sheet = ([Some o1; Some o2], None) /\
    (exists v, nth_error (o_attrs o2) 1 =
               Some (v, ORange [([112%Z], (1%nat, 1%nat)); ([113%Z], (2%nat, 2%nat))])) /\
    get_attr_origin o2 (Some 1%nat) None true = Ok [66%Z; 50%Z; 58%Z; 67%Z; 51%Z].
Proof. exact range_text_ladder_l. Qed.
Print Assumptions range_text_ladder_example.

(* ---------------------------------------------------------------------------------------- *)
(* non-vacuity: a ladder sheet with leading blank row, unknown and blank-titled columns, a ranged
   attribute, an optional missing column and an external attribute is read into 3 objects with
   the expected origins; the hypotheses of the theorems above are met by it *)
Definition ex_sheet : list (list cval) :=
  [ [CNone; CNone; CNone; CNone; CNone];
    [CStr [89]; CStr [77]; CStr [112]; CStr [113]; CNone];          (* Y M p q "" *)
    [CInt 2019; CInt 11; CInt 1; CNone; CStr [120]];
    [CNone; CInt 12; CNone; CStr [118]; CNone];
    [CNone; CNone; CInt 1; CInt 1; CNone];
    [CNone; CNone; CNone; CNone; CNone];
    [CInt 7; CInt 7; CInt 7; CInt 7; CInt 7] ].
Definition ex_cf : config :=
  mkConfig [RPlain [89] (mkConv KInt None None None) None;
            RPlain [77] (mkConv KInt None None None) None;
            RRange false (mkConv KBool None None None) false;
            RPlain [90] (mkConv KStr None None None) (Some (VInt 5));
            RExt VNone] 1 [] true.

Example ex_read :
  map (option_map (fun o => map (fun a => origin_text (snd a)) (o_attrs o))) (fst (read_table ex_cf ex_sheet)) =
  [ Some [coord_text 2 0; coord_text 2 1; coord_text 2 2 ++ [58%Z] ++ coord_text 2 3; marker_skipped; marker_na];
    Some [coord_text 2 0; coord_text 3 1; coord_text 3 2 ++ [58%Z] ++ coord_text 3 3; marker_skipped; marker_na];
    Some [coord_text 2 0; coord_text 3 1; coord_text 4 2 ++ [58%Z] ++ coord_text 4 3; marker_skipped; marker_na] ] /\
  snd (read_table ex_cf ex_sheet) = None /\
  title_row ex_sheet = Some (1%nat, [CStr [89]; CStr [77]; CStr [112]; CStr [113]; CNone]) /\
  Forall (fun vs => length vs = 5%nat) ex_sheet /\ cf_ladder ex_cf = true /\ stop_first ex_cf = false.
Proof. vm_compute. repeat split; repeat constructor. Qed.
Print Assumptions ex_read.

(* ---------------------------------------------------------------------------------------- *)
(* Sessions (Session.v): several readings in one process -- any sheets, any rule sets, any entry
   point -- with in-place edits, by the caller, of values of produced objects in between.
   [reads_of ops] are the (rules, sheet, keys, entry point kind) of the readings of the session in
   order, [read_spec s] is reading s on its own, [targeted ops r j a] says that some edit of the
   session is applied to attribute a of object j of reading r.

   session_local: at the END of the session the r-th reading still is what reading its sheet with
   its rules on its own gives: the same exception, the same number of items, no object for the same
   rows, every origin, and every attribute value that the caller did not edit itself -- whatever was
   read before or after (same or other sheet / rules / class) and whatever the caller did to OTHER
   values.  With origin_consistent this is the property's first sentence for every object of every
   reading of a process, not only for the first reading of a fresh one. *)
Theorem session_local : forall ops r s,
  nth_error (reads_of ops) r = Some s ->
  exists rd, nth_error (run_session ops) r = Some rd /\
    rd_err rd = rd_err (read_spec s) /\ rd_qkeys rd = rd_qkeys (read_spec s) /\
    length (rd_items rd) = length (rd_items (read_spec s)) /\
    forall j x x0, nth_error (rd_items rd) j = Some x -> nth_error (rd_items (read_spec s)) j = Some x0 ->
      match x, x0 with
      | None, None => True
      | Some o, Some o0 =>
          length (o_attrs o) = length (o_attrs o0) /\
          forall a, nth_error (map snd (o_attrs o)) a = nth_error (map snd (o_attrs o0)) a /\
                    (targeted ops r j a = false -> nth_error (o_attrs o) a = nth_error (o_attrs o0) a)
      | _, _ => False
      end.
Proof. exact session_local_lemma. Qed.
Print Assumptions session_local.

(* without edits a session is the list of its readings, each on its own *)
Theorem session_no_edits : forall ops,
  (forall o, In o ops -> match o with ORead _ _ _ _ => True | OMut _ _ _ _ _ => False end) ->
  run_session ops = map read_spec (reads_of ops).
Proof. exact session_no_edits_lemma. Qed.
Print Assumptions session_no_edits.

(* an edit is applied to the value it names (the model does not lose the caller's edits) *)
Theorem session_edit_applied : forall ops r j a inner m rd o p,
  nth_error (run_session ops) r = Some rd ->
  nth_error (rd_items rd) j = Some (Some o) ->
  nth_error (o_attrs o) a = Some p ->
  exists rd' o',
    nth_error (run_session (ops ++ [OMut r j a inner m])) r = Some rd' /\
    nth_error (rd_items rd') j = Some (Some o') /\
    nth_error (o_attrs o') a = Some (mut_value inner m (fst p), snd p).
Proof. exact session_edit_applied_lemma. Qed.
Print Assumptions session_edit_applied.

(* non-vacuity: two rows with the same list text are read twice; the caller appends to the list of
   the first object of the first reading; the second object and the second reading are untouched *)
Definition ex_list_sheet : list (list cval) :=
  [ [CStr [73]; CStr [84]];                                   (* I T *)
    [CInt 1; CStr [97; 44; 98]];                              (* 1 "a,b" *)
    [CInt 2; CStr [97; 44; 98]] ].
Definition ex_list_cf : config :=
  mkConfig [RPlain [73] (mkConv KInt None None None) None;
            RPlain [84] (mkConv KList None None None) None] 1 [] false.
Example ex_session :
  map (fun rd => map (option_map (fun o => map fst (o_attrs o))) (rd_items rd))
      (run_session [ORead ex_list_cf ex_list_sheet [] false; OMut 0 0 1 None [8224]; ORead ex_list_cf ex_list_sheet [] true]) =
  [ [ Some [VS (VInt 1); VS (VList [[97]; [98]; [8224]])]; Some [VS (VInt 2); VS (VList [[97]; [98]])] ];
    [ Some [VS (VInt 1); VS (VList [[97]; [98]])]; Some [VS (VInt 2); VS (VList [[97]; [98]])] ] ] /\
  targeted [ORead ex_list_cf ex_list_sheet [] false; OMut 0 0 1 None [8224]; ORead ex_list_cf ex_list_sheet [] true] 0 0 1 = true /\
  targeted [ORead ex_list_cf ex_list_sheet [] false; OMut 0 0 1 None [8224]; ORead ex_list_cf ex_list_sheet [] true] 1 0 1 = false.
Proof. vm_compute. repeat split. Qed.
Print Assumptions ex_session.
