(* C07/Lemmas.v -- proofs about bumps and included_at *)
From Coq Require Import ZArith List Bool Arith Lia Permutation.
From AK Require Import Common.Sx Common.Err gen.C07_Consts C07.Model C07.LemmasOrder.
Import ListNotations.

(* ------------------------------------------------------------------ *)
(* obligations on the clauses read from the source                      *)

(* get_rbuilds_in_bump prunes at the from-builds AND their ancestors (what [excluded] + [collect] model) *)
Lemma src_prune_ok : src_prune = PruneAtFromAncestors.
Proof. reflexivity. Qed.

(* is_rbuild has the disjunct "non_trivial_bumps_present" *)
Lemma src_bump_clause : In ClBump src_is_rbuild.
Proof. vm_compute. tauto. Qed.

(* ... and exactly the three disjuncts the model's [finalise] uses *)
Lemma src_rbuild_clauses : forall c, In c src_is_rbuild <-> In c [ClNew; ClBump; ClMerge].
Proof. intros c. vm_compute. destruct c; tauto. Qed.

(* dependency cycles are reported as ValueError *)
Lemma src_cycle_err_ok : src_cycle_err = ValueErr.
Proof. reflexivity. Qed.

(* _mk_bumps_info creates from_builnums / from_rbuilds inside the loop over the components
   (what [mk_bumps] = one independent [mk_bump] per component models) *)
Lemma src_bump_state_ok : src_bump_state = StatePerComponent.
Proof. reflexivity. Qed.

(* ------------------------------------------------------------------ *)
(* from a build tag to a build number                                   *)

Lemma src_tag_routes_ok : src_tag_routes = [RouteKnown; RouteGuessIsNotNone; RouteSaved].
Proof. reflexivity. Qed.

Lemma finalize_release_l : forall saved M m n, finalize_tag saved (TagRelease M m, n) = (M, m, n).
Proof. reflexivity. Qed.
Lemma finalize_full_l : forall saved M m n, finalize_tag saved (TagFull M m, n) = (M, m, n).
Proof. reflexivity. Qed.
Lemma finalize_word_l : forall n,
  (forall M m, finalize_tag (Some (M, m)) (TagWord, n) = (M, m, n)) /\
  finalize_tag None (TagWord, n) = (qm, qm, n).
Proof. intros n. split; reflexivity. Qed.

(* the build number is found in a version map under exactly its own key *)
Lemma bn_eqb_eq : forall a b : bn, bn_eqb a b = true <-> a = b.
Proof.
  intros [[a1 a2] a3] [[b1 b2] b3]. unfold bn_eqb. rewrite !andb_true_iff, !Z.eqb_eq.
  split; [intros [[-> ->] ->]; reflexivity | intros H; injection H as -> -> ->; auto].
Qed.

Definition int_bn (a : bn) : Prop := let '(a1, a2, a3) := a in (0 <= a1 /\ 0 <= a2 /\ 0 <= a3)%Z.
Definition lex_le (a b : bn) : Prop :=
  let '(a1, a2, a3) := a in let '(b1, b2, b3) := b in
  (a1 < b1 \/ (a1 = b1 /\ (a2 < b2 \/ (a2 = b2 /\ a3 <= b3))))%Z.

Lemma bn_leb_int : forall a b, int_bn a -> int_bn b -> (bn_leb a b = true <-> lex_le a b).
Proof.
  intros [[a1 a2] a3] [[b1 b2] b3] (A1 & A2 & A3) (B1 & B2 & B3).
  unfold bn_leb, lex_le, cmp_opt_ints, is_int.
  repeat match goal with |- context [Z.leb 0 ?x] => replace (Z.leb 0 x) with true by (symmetry; apply Z.leb_le; assumption) end.
  cbn [andb].
  destruct (Z.eqb (a1 - b1) 0) eqn:E1; cbn [negb].
  - apply Z.eqb_eq in E1. destruct (Z.eqb (a2 - b2) 0) eqn:E2; cbn [negb].
    + apply Z.eqb_eq in E2. rewrite Z.leb_le. lia.
    + apply Z.eqb_neq in E2. rewrite Z.ltb_lt. lia.
  - apply Z.eqb_neq in E1. rewrite Z.ltb_lt. lia.
Qed.

Lemma bn_leb_qm : forall a n, int_bn a ->
  bn_leb a (qm, qm, n) = true /\ bn_leb (qm, qm, n) a = false.
Proof.
  intros [[a1 a2] a3] n (A1 & A2 & A3). unfold bn_leb, cmp_opt_ints, is_int, qm.
  replace (Z.leb 0 a1) with true by (symmetry; apply Z.leb_le; assumption).
  split; reflexivity.
Qed.

Lemma cmp_opt_total : forall a b, (cmp_opt_ints a b <= 0 \/ cmp_opt_ints b a <= 0)%Z.
Proof.
  intros a b. unfold cmp_opt_ints, is_int.
  destruct (Z.leb 0 a) eqn:A, (Z.leb 0 b) eqn:B; cbn [andb]; lia.
Qed.
Lemma cmp_opt_anti : forall a b, (cmp_opt_ints a b = 0 <-> cmp_opt_ints b a = 0)%Z.
Proof.
  intros a b. unfold cmp_opt_ints, is_int.
  destruct (Z.leb 0 a) eqn:A, (Z.leb 0 b) eqn:B; cbn [andb]; lia.
Qed.
Lemma cmp_opt_sign : forall a b, (cmp_opt_ints a b < 0 <-> 0 < cmp_opt_ints b a)%Z.
Proof.
  intros a b. unfold cmp_opt_ints, is_int.
  destruct (Z.leb 0 a) eqn:A, (Z.leb 0 b) eqn:B; cbn [andb]; lia.
Qed.

Lemma bn_leb_total : forall a b, bn_leb a b = true \/ bn_leb b a = true.
Proof.
  intros [[a1 a2] a3] [[b1 b2] b3]. unfold bn_leb.
  pose proof (cmp_opt_anti a1 b1) as H1. pose proof (cmp_opt_sign a1 b1) as S1.
  pose proof (cmp_opt_anti a2 b2) as H2. pose proof (cmp_opt_sign a2 b2) as S2.
  pose proof (cmp_opt_total a3 b3) as T3. pose proof (cmp_opt_sign b1 a1) as S1'. pose proof (cmp_opt_sign b2 a2) as S2'.
  destruct (Z.eqb (cmp_opt_ints a1 b1) 0) eqn:E1, (Z.eqb (cmp_opt_ints b1 a1) 0) eqn:E1',
           (Z.eqb (cmp_opt_ints a2 b2) 0) eqn:E2, (Z.eqb (cmp_opt_ints b2 a2) 0) eqn:E2';
    rewrite ?Z.eqb_eq, ?Z.eqb_neq in *; cbn [negb]; rewrite ?Z.leb_le, ?Z.ltb_lt; lia.
Qed.

(* get_builds_numbers loses and invents nothing: a permutation of the finalized tags *)
Lemma bn_insert_perm : forall x l, Permutation (bn_insert x l) (x :: l).
Proof.
  intros x l. induction l as [|y r IH]; cbn [bn_insert]; [apply Permutation_refl|].
  destruct (bn_leb x y); [apply Permutation_refl|].
  eapply perm_trans; [apply perm_skip, IH | apply perm_swap].
Qed.
Lemma bn_sort_perm : forall l, Permutation (bn_sort l) l.
Proof.
  induction l as [|x r IH]; [apply Permutation_refl|]. unfold bn_sort in *. cbn [fold_right].
  eapply perm_trans; [apply bn_insert_perm | apply perm_skip, IH].
Qed.
Lemma builds_numbers_perm : forall saved tags,
  Permutation (builds_numbers saved tags) (map (finalize_tag saved) tags).
Proof. intros. apply bn_sort_perm. Qed.

(* a release tag is looked up by a pin iff the pin is its major.minor.build -- 0 is a number like any other *)
Lemma release_tag_pin_l : forall saved M m n pin,
  bn_eqb (finalize_tag saved (TagRelease M m, n)) pin = true <-> pin = (M, m, n).
Proof. intros. rewrite finalize_release_l, bn_eqb_eq. split; congruence. Qed.

(* ------------------------------------------------------------------ *)
(* sets as sorted lists *)

Lemma nadd_In x y l : In x (nadd y l) <-> x = y \/ In x l.
Proof.
  induction l as [|z r IH]; cbn [nadd]; [cbn; intuition|].
  destruct (y =? z) eqn:E; [apply Nat.eqb_eq in E; subst; cbn; intuition|].
  destruct (y <? z); cbn [In]; [intuition|]. rewrite IH. intuition.
Qed.

Lemma nunion_In x a b : In x (nunion a b) <-> In x a \/ In x b.
Proof.
  unfold nunion. revert b. induction a as [|y r IH]; intros b; cbn [fold_left]; [cbn; intuition|].
  rewrite IH, nadd_In. cbn [In]. intuition.
Qed.

(* ------------------------------------------------------------------ *)
(* the component's RBuild graph                                         *)

Section Graph.
Variable cg : cgraph.

(* y is x or an ancestor of x *)
Inductive anc : nat -> nat -> Prop :=
| anc_refl x : anc x x
| anc_step x p y : In p (cparents cg x) -> anc p y -> anc x y.

(* ... reached from x on a path none of whose builds (x and y included) is in [from] *)
Inductive apath (from : list nat) : nat -> nat -> Prop :=
| ap_refl x : ~ In x from -> apath from x x
| ap_step x p y : ~ In x from -> In p (cparents cg x) -> apath from p y -> apath from x y.

(* RBuild iids: a parent build has a smaller iid than its child *)
Definition wf : Prop := forall x p, In p (cparents cg x) -> p < x.

Lemma anc_trans x y z : anc x y -> anc y z -> anc x z.
Proof. induction 1 as [x|x p y Hp A IH]; intros B; [exact B|]. eapply anc_step; [exact Hp|apply IH; exact B]. Qed.

Lemma apath_anc from x y : apath from x y -> anc x y.
Proof. induction 1; [constructor|]. eapply anc_step; eauto. Qed.

Lemma apath_end from x y : apath from x y -> ~ In y from.
Proof. induction 1; auto. Qed.

(* a path that meets no from-build *)
Lemma anc_apath from x y :
  anc x y -> (forall f, In f from -> ~ anc f y) -> apath from x y.
Proof.
  induction 1 as [x|x p y Hp H IH]; intros N.
  - apply ap_refl. intros Hx. apply (N x Hx). constructor.
  - eapply ap_step; [|exact Hp|apply IH; exact N].
    intros Hx. apply (N x Hx). eapply anc_step; eauto.
Qed.

(* --- the fold over the parents --- *)
Lemma fold_collect (F : nat -> option (list nat)) (P : nat -> nat -> Prop) ps :
  (forall p, In p ps -> exists lp, F p = Some lp /\ forall y, In y lp <-> P p y) ->
  forall a, exists l,
    fold_left (fun acc p => match acc, F p with Some a, Some b => Some (a ++ b) | _, _ => None end) ps (Some a) = Some l
    /\ forall y, In y l <-> In y a \/ exists p, In p ps /\ P p y.
Proof.
  induction ps as [|p r IH]; intros H a; cbn [fold_left].
  - exists a. split; [reflexivity|]. intros y. split; [auto|]. intros [Hy|(p & [] & _)]. exact Hy.
  - destruct (H p (or_introl eq_refl)) as (lp & E & Hlp). rewrite E.
    destruct (IH (fun q Hq => H q (or_intror Hq)) (a ++ lp)) as (l & El & Hl).
    exists l. split; [exact El|]. intros y. rewrite Hl, in_app_iff, Hlp. split.
    + intros [[Hy|Hy]|(q & Hq & Py)]; [left; exact Hy|right; exists p; split; [left; reflexivity|exact Hy]|].
      right. exists q. split; [right; exact Hq|exact Py].
    + intros [Hy|(q & [<-|Hq] & Py)]; [left; left; exact Hy|left; right; exact Py|].
      right. exists q. split; assumption.
Qed.


(* what the DFS of get_rbuilds_in_bump collects, for any set [ex] of excluded builds *)
Lemma collect_spec ex : wf -> forall fuel x, x < fuel ->
  exists l, collect fuel cg ex x = Some l /\ forall y, In y l <-> apath ex x y.
Proof.
  intros W. induction fuel as [|f IH]; intros x Hx; [lia|].
  cbn [collect]. destruct (nmem x ex) eqn:M.
  - apply nmem_In in M. exists []. split; [reflexivity|]. intros y. split; [intros []|].
    intros H. exfalso. inversion H; subst; contradiction.
  - apply nmem_false in M.
    destruct (fold_collect (collect f cg ex) (apath ex) (rev (nsort (cparents cg x)))) with (a := @nil nat) as (l & E & Hl).
    { intros p Hp. apply in_rev in Hp. apply (proj1 (nsort_In _ _)) in Hp. apply IH. pose proof (W x p Hp). lia. }
    rewrite E. exists (l ++ [x]). split; [reflexivity|].
    intros y. rewrite in_app_iff, Hl. split.
    + intros [[[]|(p & Hp & A)]|[<-|[]]].
      * apply in_rev in Hp. apply (proj1 (nsort_In _ _)) in Hp. eapply ap_step; eauto.
      * apply ap_refl. exact M.
    + intros A. inversion A; subst.
      * right. left. reflexivity.
      * left. right. exists p. split; [|assumption]. rewrite <- in_rev. apply nsort_In. assumption.
Qed.

(* ------------------------------------------------------------------ *)
(* excluded_iids: the from-builds and all their ancestors               *)

(* potential of the work-list loop: the parents of the builds (below n) not entered yet *)
Definition wsum (ex l : list nat) : nat :=
  fold_right (fun x a => if nmem x ex then a else length (cparents cg x) + a) 0 l.

Lemma nmem_nadd a x ex : nmem a (nadd x ex) = (a =? x) || nmem a ex.
Proof.
  apply Bool.eq_iff_eq_true. rewrite orb_true_iff, !nmem_In, nadd_In, Nat.eqb_eq. tauto.
Qed.

Lemma wsum_cons ex a r :
  wsum ex (a :: r) = if nmem a ex then wsum ex r else length (cparents cg a) + wsum ex r.
Proof. reflexivity. Qed.

Lemma wsum_skip x ex l : ~ In x l -> wsum (nadd x ex) l = wsum ex l.
Proof.
  induction l as [|a r IH]; intros N; [reflexivity|]. rewrite !wsum_cons.
  rewrite nmem_nadd. destruct (a =? x) eqn:E.
  - apply Nat.eqb_eq in E. subst. exfalso. apply N. left. reflexivity.
  - cbn [orb]. rewrite IH; [reflexivity|]. intros H. apply N. right. exact H.
Qed.

Lemma wsum_add x ex l : NoDup l -> In x l -> ~ In x ex ->
  wsum ex l = length (cparents cg x) + wsum (nadd x ex) l.
Proof.
  induction l as [|a r IH]; intros ND Hx Nx; [destruct Hx|].
  apply NoDup_cons_iff in ND as [Na ND]. rewrite !wsum_cons.
  rewrite nmem_nadd. destruct Hx as [->|Hx].
  - rewrite Nat.eqb_refl. cbn [orb]. apply nmem_false in Nx. rewrite Nx. rewrite wsum_skip by exact Na. reflexivity.
  - destruct (a =? x) eqn:E.
    + apply Nat.eqb_eq in E. subst. contradiction.
    + cbn [orb]. rewrite (IH ND Hx Nx). destruct (nmem a ex); lia.
Qed.

Lemma sum_parents_wsum n : sum_parents cg n = wsum [] (seq 0 n).
Proof. reflexivity. Qed.

(* the loop `while todo:` ends within the fuel and returns a set that contains what was
   collected before and the work list, is closed under parent_rbuilds, and contains nothing else *)
Lemma excl_loop_spec (W : wf) n : forall fuel todo ex,
  (forall x, In x todo -> x < n) ->
  (forall x p, In x ex -> In p (cparents cg x) -> In p ex \/ In p todo) ->
  length todo + wsum ex (seq 0 n) < fuel ->
  exists ex', excl_loop fuel cg todo ex = Some ex' /\
    (forall y, In y ex -> In y ex') /\ (forall x, In x todo -> In x ex') /\
    (forall x p, In x ex' -> In p (cparents cg x) -> In p ex') /\
    (forall y, In y ex' -> In y ex \/ exists x, In x todo /\ anc x y).
Proof.
  induction fuel as [|f IH]; intros todo ex B C F; [lia|].
  cbn [excl_loop]. destruct todo as [|x r].
  - exists ex. split; [reflexivity|]. split; [auto|]. split; [intros x []|]. split; [|auto].
    intros x p Hx Hp. destruct (C x p Hx Hp) as [H|[]]. exact H.
  - destruct (nmem x ex) eqn:M.
    + apply nmem_In in M.
      destruct (IH r ex) as (ex' & E & H1 & H2 & H3 & H4).
      { intros z Hz. apply B. right. exact Hz. }
      { intros z p Hz Hp. destruct (C z p Hz Hp) as [H|[<-|H]]; auto. }
      { cbn [length] in F. lia. }
      exists ex'. split; [exact E|]. split; [exact H1|]. split.
      { intros z [<-|Hz]; [apply H1; exact M|apply H2; exact Hz]. }
      split; [exact H3|]. intros y Hy. destruct (H4 y Hy) as [H|(z & Hz & A)]; [left; exact H|].
      right. exists z. split; [right; exact Hz|exact A].
    + apply nmem_false in M.
      assert (x < n) as Hxn by (apply B; left; reflexivity).
      destruct (IH (rev (cparents cg x) ++ r) (nadd x ex)) as (ex' & E & H1 & H2 & H3 & H4).
      { intros z Hz. apply in_app_or in Hz as [Hz|Hz].
        - apply in_rev in Hz. pose proof (W x z Hz). lia.
        - apply B. right. exact Hz. }
      { intros z p Hz Hp. apply nadd_In in Hz as [->|Hz].
        - right. apply in_or_app. left. apply -> in_rev. exact Hp.
        - destruct (C z p Hz Hp) as [H|[<-|H]].
          + left. apply nadd_In. right. exact H.
          + left. apply nadd_In. left. reflexivity.
          + right. apply in_or_app. right. exact H. }
      { rewrite app_length, rev_length. cbn [length] in F.
        rewrite (wsum_add x ex (seq 0 n)) in F; [lia|apply seq_NoDup|apply in_seq; lia|exact M]. }
      exists ex'. split; [exact E|]. split.
      { intros y Hy. apply H1. apply nadd_In. right. exact Hy. }
      split.
      { intros z [<-|Hz]; [apply H1; apply nadd_In; left; reflexivity|]. apply H2. apply in_or_app. right. exact Hz. }
      split; [exact H3|].
      intros y Hy. destruct (H4 y Hy) as [H|(z & Hz & A)].
      * apply nadd_In in H as [->|H]; [|left; exact H]. right. exists x. split; [left; reflexivity|apply anc_refl].
      * apply in_app_or in Hz as [Hz|Hz].
        -- apply in_rev in Hz. right. exists x. split; [left; reflexivity|]. eapply anc_step; eauto.
        -- right. exists z. split; [right; exact Hz|exact A].
Qed.

Lemma nmax_ge l x : In x l -> exists m, nmax l = Some m /\ x <= m.
Proof.
  induction l as [|a r IH]; intros H; [destruct H|]. cbn [nmax]. destruct H as [->|H].
  - destruct (nmax r) as [m|]; eexists; split; try reflexivity; lia.
  - destruct (IH H) as (m & -> & L). eexists. split; [reflexivity|]. lia.
Qed.

(* excluded_iids = ancestors*(from_rbuilds), for every from-set *)
Lemma excluded_spec from : wf ->
  exists ex, excluded cg from = Some ex /\ forall y, In y ex <-> exists f, In f from /\ anc f y.
Proof.
  intros W. unfold excluded, excl_fuel.
  set (n := match nmax from with Some m => S m | None => 0 end).
  destruct (excl_loop_spec W n (S (length from + sum_parents cg n)) (rev from) []) as (ex & E & _ & H2 & H3 & H4).
  - intros x Hx. apply in_rev in Hx. destruct (nmax_ge _ _ Hx) as (m & Em & L). unfold n. rewrite Em. lia.
  - intros x p [].
  - rewrite rev_length, sum_parents_wsum. lia.
  - exists ex. split; [exact E|]. intros y. split.
    + intros Hy. destruct (H4 y Hy) as [[]|(x & Hx & A)]. exists x. split; [apply in_rev; exact Hx|exact A].
    + intros (f & Hf & A). assert (In f ex) as Hfe by (apply H2; apply -> in_rev; exact Hf).
      clear Hf. induction A as [x|x p y Hp _ IH]; [exact Hfe|]. apply IH. eapply H3; eauto.
Qed.

(* ------------------------------------------------------------------ *)
(* bump_set                                                             *)

(* the set the property wants: ancestors*(to) \ ancestors*(from) *)
Definition bump_spec (from : list nat) (t y : nat) : Prop :=
  anc t y /\ forall f, In f from -> ~ anc f y.

(* a path that avoids the ancestors of the from-builds = a build the from-builds do not contain *)
Lemma apath_excluded from ex t y :
  (forall z, In z ex <-> exists f, In f from /\ anc f z) -> (apath ex t y <-> bump_spec from t y).
Proof.
  intros Hex. split.
  - intros P. split; [eapply apath_anc; eauto|]. intros f Hf A.
    apply (apath_end _ _ _ P). apply Hex. exists f. split; assumption.
  - intros [A N]. apply anc_apath; [exact A|]. intros e He Ae.
    apply Hex in He as (f & Hf & Af). apply (N f Hf). eapply anc_trans; eauto.
Qed.

(* get_rbuilds_in_bump(): exactly ancestors*(to) \ ancestors*(from), each build once *)
Lemma rbuilds_in_bump_spec b t : wf -> b_to b = Some t ->
  exists l, rbuilds_in_bump cg b = Some l /\ NoDup l /\ forall y, In y l <-> bump_spec (b_from b) t y.
Proof.
  intros W Et. unfold rbuilds_in_bump. rewrite Et.
  destruct (excluded_spec (b_from b) W) as (ex & Ex & Hex). rewrite Ex.
  destruct (collect_spec ex W (S t) t ltac:(lia)) as (l & E & Hl). rewrite E.
  exists (nodup Nat.eq_dec l). split; [reflexivity|]. split; [apply NoDup_nodup|].
  intros y. rewrite nodup_In, Hl. apply apath_excluded. exact Hex.
Qed.

Lemma rbuilds_in_bump_none b : b_to b = None -> rbuilds_in_bump cg b = Some [].
Proof. intros E. unfold rbuilds_in_bump. rewrite E. reflexivity. Qed.

Lemma anc_le x y : wf -> anc x y -> y <= x.
Proof. intros W. induction 1 as [x|x p y Hp _ IH]; [lia|]. pose proof (W x p Hp). lia. Qed.

End Graph.

(* the statement at full strength: for from-builds contained in the new pin (in fact for any
   from-builds), get_rbuilds_in_bump = ancestors*(to) \ ancestors*(from) *)
Definition bump_set_statement : Prop :=
  forall cg b t l, wf cg -> b_to b = Some t -> (forall f, In f (b_from b) -> anc cg t f) ->
    rbuilds_in_bump cg b = Some l -> forall y, In y l <-> bump_spec cg (b_from b) t y.

(* total, duplicate free, exact -- whatever the from-builds are *)
Lemma bump_set_exact_l cg b t : wf cg -> b_to b = Some t ->
  exists l, rbuilds_in_bump cg b = Some l /\ NoDup l /\
    forall y, In y l <-> (anc cg t y /\ forall f, In f (b_from b) -> ~ anc cg f y).
Proof. intros W Et. exact (rbuilds_in_bump_spec cg b t W Et). Qed.

Lemma bump_set_statement_l : bump_set_statement.
Proof.
  intros cg b t l W Et _ E. destruct (rbuilds_in_bump_spec cg b t W Et) as (l' & E' & _ & Hl).
  rewrite E in E'. injection E' as <-. exact Hl.
Qed.

(* the former witness of the refutation: component builds 0 <- {1, 2} <- 3 (1 || 2), pin moves
   from 2 to 3.  Build 0, an ancestor of the from-build 2, was collected through 1 by the code
   before d037b67; it is excluded now. *)
Definition w_cg : cgraph := [(0, []); (1, [0]); (2, [0]); (3, [1; 2])].
Definition w_bump : bump := mkB [(1, 1, 5)%Z] (1, 1, 7)%Z [2] (Some 3).

Lemma w_wf : wf w_cg.
Proof.
  intros x p. unfold cparents, w_cg.
  destruct x as [|[|[|[|x]]]]; cbn; intros H; repeat (destruct H as [<-|H]; [lia|]); destruct H.
Qed.

(* ------------------------------------------------------------------ *)
(* the registration loop                                                *)

Definition reg_step (cx : nat) (ci : cinfo) (br : nat) (acc : option (list (nat * (nat * bn)))) (p : Z * rbuild) :=
  let rb := snd p in
  if bn_eqb (rb_bn rb) fake_not_merged then acc
  else match rb_bump cx rb with
       | None => acc
       | Some b => match acc, rbuilds_in_bump (ci_graph ci) b with
                   | Some a, Some l => Some (a ++ map (fun x => (x, (br, rb_bn rb))) l)
                   | _, _ => None
                   end
       end.

Definition reg_branches (cx : nat) (ci : cinfo) (branches : list (nat * list (Z * rbuild))) acc :=
  fold_left (fun acc br => fold_left (reg_step cx ci (fst br)) (snd br) acc) branches acc.

Lemma registrations_unfold cx ci branches : registrations cx ci branches = reg_branches cx ci branches (Some []).
Proof. reflexivity. Qed.

Lemma reg_fold_none cx ci br rbs : fold_left (reg_step cx ci br) rbs None = None.
Proof.
  induction rbs as [|q r IH]; [reflexivity|]. cbn [fold_left].
  assert (reg_step cx ci br None q = None) as ->; [|exact IH].
  unfold reg_step. destruct (bn_eqb _ _); [reflexivity|]. destruct (rb_bump cx (snd q)); reflexivity.
Qed.

Lemma reg_branches_none cx ci branches : reg_branches cx ci branches None = None.
Proof.
  induction branches as [|b r IH]; [reflexivity|]. unfold reg_branches in *. cbn [fold_left].
  rewrite reg_fold_none. exact IH.
Qed.

(* component build y is registered with build number k by some reported build of [rbs]:
   a build that is not the "not merged" pseudo build, from its own bump *)
Definition reg_src (cx : nat) (ci : cinfo) (rbs : list (Z * rbuild)) (y : nat) (k : bn) : Prop :=
  exists p b l, In p rbs /\ rb_bn (snd p) = k /\ bn_eqb k fake_not_merged = false /\
                rb_bump cx (snd p) = Some b /\ rbuilds_in_bump (ci_graph ci) b = Some l /\ In y l.

Lemma reg_step_spec cx ci br0 a p a' : reg_step cx ci br0 (Some a) p = Some a' ->
  forall y br k, In (y, (br, k)) a' <->
    In (y, (br, k)) a \/
    (br = br0 /\ exists b l, rb_bn (snd p) = k /\ bn_eqb k fake_not_merged = false /\
                  rb_bump cx (snd p) = Some b /\ rbuilds_in_bump (ci_graph ci) b = Some l /\ In y l).
Proof.
  unfold reg_step. destruct (bn_eqb (rb_bn (snd p)) fake_not_merged) eqn:F.
  - intros [= <-] y br k. split; [auto|]. intros [H|(_ & b & l & E1 & E2 & _)]; [exact H|]. subst k. congruence.
  - destruct (rb_bump cx (snd p)) as [b|] eqn:B.
    + destruct (rbuilds_in_bump (ci_graph ci) b) as [l|] eqn:R; [|discriminate].
      intros [= <-] y br k. rewrite in_app_iff, in_map_iff. split.
      * intros [H|(x & E & Hx)]; [left; exact H|]. injection E as E1 E2 E3. subst x br k.
        right. split; [reflexivity|]. exists b, l. repeat split; assumption.
      * intros [H|(Eb & b' & l' & E1 & E2 & E3 & E4 & E5)]; [left; exact H|]. right.
        injection E3 as <-. rewrite R in E4. injection E4 as <-.
        exists y. split; [subst; reflexivity|exact E5].
    + intros [= <-] y br k. split; [auto|]. intros [H|(_ & b & l & _ & _ & E3 & _)]; [exact H|discriminate].
Qed.

Lemma reg_fold cx ci br0 rbs : forall a regs,
  fold_left (reg_step cx ci br0) rbs (Some a) = Some regs ->
  forall y br k, In (y, (br, k)) regs <-> In (y, (br, k)) a \/ (br = br0 /\ reg_src cx ci rbs y k).
Proof.
  induction rbs as [|p r IH]; intros a regs H y br k; cbn [fold_left] in H.
  - injection H as <-. unfold reg_src. split; [auto|]. intros [H|(_ & p & b & l & [] & _)]. exact H.
  - destruct (reg_step cx ci br0 (Some a) p) as [a'|] eqn:E; [|rewrite reg_fold_none in H; discriminate].
    rewrite (IH _ _ H), (reg_step_spec _ _ _ _ _ _ E). unfold reg_src. split.
    + intros [[Hy|(Eb & b & l & R)]|(Eb & q & b & l & Hq & R)].
      * left. exact Hy.
      * right. split; [exact Eb|]. exists p, b, l. split; [left; reflexivity|exact R].
      * right. split; [exact Eb|]. exists q, b, l. split; [right; exact Hq|exact R].
    + intros [Hy|(Eb & q & b & l & [<-|Hq] & R)].
      * left. left. exact Hy.
      * left. right. split; [exact Eb|]. exists b, l. exact R.
      * right. split; [exact Eb|]. exists q, b, l. split; [exact Hq|exact R].
Qed.

(* every registration comes from a reported build of the named branch, and from its own bump *)
Lemma reg_branches_spec cx ci branches : forall a regs,
  reg_branches cx ci branches (Some a) = Some regs ->
  forall y br k, In (y, (br, k)) regs <->
    In (y, (br, k)) a \/ exists rbs, In (br, rbs) branches /\ reg_src cx ci rbs y k.
Proof.
  induction branches as [|b0 r IH]; intros a regs H y br k; unfold reg_branches in H; cbn [fold_left] in H.
  - injection H as <-. split; [auto|]. intros [H|(rbs & [] & _)]. exact H.
  - destruct (fold_left (reg_step cx ci (fst b0)) (snd b0) (Some a)) as [a'|] eqn:E;
      [|change (reg_branches cx ci r None = Some regs) in H; rewrite reg_branches_none in H; discriminate].
    change (reg_branches cx ci r (Some a') = Some regs) in H.
    rewrite (IH _ _ H), (reg_fold _ _ _ _ _ _ E). destruct b0 as [n0 rbs0]. cbn [fst snd]. split.
    + intros [[Hy|(Eb & S)]|(rbs & Hr & S)].
      * left. exact Hy.
      * right. exists rbs0. split; [left; subst; reflexivity|exact S].
      * right. exists rbs. split; [right; exact Hr|exact S].
    + intros [Hy|(rbs & [Eq|Hr] & S)].
      * left. left. exact Hy.
      * injection Eq as -> ->. left. right. split; [reflexivity|exact S].
      * right. exists rbs. split; [exact Hr|exact S].
Qed.

(* ------------------------------------------------------------------ *)
(* never missing: what the property wants recorded at a build IS recorded,
   for every shape of parent and component history                      *)

Lemma never_missing_l cx ci branches regs : wf (ci_graph ci) ->
  registrations cx ci branches = Some regs ->
  forall br rbs p b t y, In (br, rbs) branches -> In p rbs ->
    bn_eqb (rb_bn (snd p)) fake_not_merged = false -> rb_bump cx (snd p) = Some b -> b_to b = Some t ->
    bump_spec (ci_graph ci) (b_from b) t y -> In (y, (br, rb_bn (snd p))) regs.
Proof.
  intros W R br rbs p b t y Hbr Hp HF HB HT HS. rewrite registrations_unfold in R.
  apply (reg_branches_spec _ _ _ _ _ R). right. exists rbs. split; [exact Hbr|].
  destruct (rbuilds_in_bump_spec _ b t W HT) as (l & El & _ & Hl).
  exists p, b, l. split; [exact Hp|]. split; [reflexivity|]. split; [exact HF|]. split; [exact HB|]. split; [exact El|].
  apply Hl. exact HS.
Qed.

(* ------------------------------------------------------------------ *)
(* included_first: the reported builds of one parent branch             *)

Lemma NoDup_map_inj {A B} (f : A -> B) l a b :
  NoDup (map f l) -> In a l -> In b l -> f a = f b -> a = b.
Proof.
  induction l as [|x r IH]; intros ND Ha Hb E; [destruct Ha|].
  cbn [map] in ND. apply NoDup_cons_iff in ND as [N ND].
  destruct Ha as [<-|Ha], Hb as [<-|Hb]; auto.
  - exfalso. apply N. rewrite E. apply in_map. exact Hb.
  - exfalso. apply N. rewrite <- E. apply in_map. exact Ha.
Qed.

Lemma key_unique {K V} (l : list (K * V)) k a b : NoDup (map fst l) -> In (k, a) l -> In (k, b) l -> a = b.
Proof.
  intros ND Ha Hb. assert ((k, a) = (k, b)) as E by (eapply (NoDup_map_inj fst); eauto).
  injection E as ->. reflexivity.
Qed.

(* rb' is a proper ancestor build of rb within one branch of the parent *)
Inductive panc (rbs : list (Z * rbuild)) : Z -> Z -> Prop :=
| panc1 i rb j : In (i, rb) rbs -> In j (rb_parents rb) -> panc rbs i j
| pancS i rb j k : In (i, rb) rbs -> In j (rb_parents rb) -> panc rbs j k -> panc rbs i k.

Section Branch.
Variable cx : nat.
Variable cg : cgraph.
Variable rbs : list (Z * rbuild).

(* what _mk_bumps_info establishes for the builds of a branch whose commits all pin the component
   (bump_from is the local step): every parent build is a build of the branch and carries a bump of
   the component; a bump whose new pin resolves to no report-related build starts from nothing; the
   from-builds of a bump are exactly the to-builds of the parent builds' bumps *)
Definition linked : Prop :=
  forall i rb, In (i, rb) rbs ->
    (forall j, In j (rb_parents rb) -> exists rb' b', In (j, rb') rbs /\ rb_bump cx rb' = Some b') /\
    (forall b, rb_bump cx rb = Some b ->
       (b_to b = None -> b_from b = []) /\
       (forall f, In f (b_from b) <->
          exists j rb' b', In j (rb_parents rb) /\ In (j, rb') rbs /\ rb_bump cx rb' = Some b' /\ b_to b' = Some f)).

(* successive pins are ancestor-ordered in the component's build graph: the build a bump moves
   to contains every build it moves from *)
Definition pins_ordered : Prop :=
  forall i rb b t f, In (i, rb) rbs -> rb_bump cx rb = Some b -> b_to b = Some t -> In f (b_from b) -> anc cg t f.

Hypothesis L : linked.
Hypothesis O : pins_ordered.
Hypothesis K : NoDup (map fst rbs).

(* along the branch the pinned builds then contain one another *)
Lemma panc_to i j : panc rbs i j ->
  forall rb b rb' b' t', In (i, rb) rbs -> rb_bump cx rb = Some b ->
    In (j, rb') rbs -> rb_bump cx rb' = Some b' -> b_to b' = Some t' ->
    exists t, b_to b = Some t /\ anc cg t t'.
Proof.
  induction 1 as [i rb0 j Hi Hj|i rb0 j k Hi Hj P IH]; intros rb b rb' b' t' Hrb Hb Hrb' Hb' Ht'.
  - assert (rb0 = rb) by (eapply key_unique; eauto). subst rb0.
    destruct (L i rb Hrb) as [_ L2]. destruct (L2 b Hb) as [N F].
    assert (In t' (b_from b)) as Hf by (apply F; exists j, rb', b'; auto).
    destruct (b_to b) as [t|] eqn:Et; [|rewrite (N eq_refl) in Hf; destruct Hf].
    exists t. split; [reflexivity|]. exact (O i rb b t t' Hrb Hb Et Hf).
  - assert (rb0 = rb) by (eapply key_unique; eauto). subst rb0.
    destruct (L i rb Hrb) as [L1 L2]. destruct (L2 b Hb) as [N F].
    destruct (L1 j Hj) as (rbj & bj & Hrbj & Hbj).
    destruct (IH rbj bj rb' b' t' Hrbj Hbj Hrb' Hb' Ht') as (tj & Etj & A).
    assert (In tj (b_from b)) as Hf by (apply F; exists j, rbj, bj; auto).
    destruct (b_to b) as [t|] eqn:Et; [|rewrite (N eq_refl) in Hf; destruct Hf].
    exists t. split; [reflexivity|]. eapply anc_trans; [|exact A]. exact (O i rb b t tj Hrb Hb Et Hf).
Qed.

(* "in the new pin and in none of the previous pins" = "in the new pin and in the pin of no
   ancestor build of the branch" *)
Lemma first_ship_iff i rb b t y : In (i, rb) rbs -> rb_bump cx rb = Some b -> b_to b = Some t ->
  (bump_spec cg (b_from b) t y <->
   anc cg t y /\
   forall j rb' b' t', panc rbs i j -> In (j, rb') rbs -> rb_bump cx rb' = Some b' -> b_to b' = Some t' ->
                       ~ anc cg t' y).
Proof.
  intros Hrb Hb Ht. destruct (L i rb Hrb) as [L1 L2]. destruct (L2 b Hb) as [_ F]. split.
  - intros [A N]. split; [exact A|]. intros j rb' b' t' P Hrb' Hb' Ht' A'.
    inversion P as [i0 rb0 j0 Hi Hj|i0 rb0 p j0 Hi Hp P']; subst.
    + assert (rb0 = rb) by (eapply key_unique; eauto). subst rb0.
      apply (N t'); [|exact A']. apply F. exists j, rb', b'. auto.
    + assert (rb0 = rb) by (eapply key_unique; eauto). subst rb0.
      destruct (L1 p Hp) as (rbp & bp & Hrbp & Hbp).
      destruct (panc_to p j P' rbp bp rb' b' t' Hrbp Hbp Hrb' Hb' Ht') as (tp & Etp & Ap).
      apply (N tp); [|eapply anc_trans; eauto]. apply F. exists p, rbp, bp. auto.
  - intros [A N]. split; [exact A|]. intros f Hf Af.
    apply F in Hf as (j & rb' & b' & Hj & Hrb' & Hb' & Ht').
    apply (N j rb' b' f); auto. eapply panc1; eauto.
Qed.

End Branch.

(* for every set of branches: in a branch whose builds are linked and whose successive pins are
   ancestor-ordered, over ANY component build graph (parallel sub-branches, merges) and any shape of
   the branch (forks and merges of builds), y is registered at a build iff that build ships y and
   no ancestor build of it in the branch does *)
Lemma included_first_l cx ci branches regs :
  wf (ci_graph ci) -> NoDup (map fst branches) -> registrations cx ci branches = Some regs ->
  forall br rbs, In (br, rbs) branches ->
    NoDup (map fst rbs) -> NoDup (map (fun p => rb_bn (snd p)) rbs) ->
    linked cx rbs -> pins_ordered cx (ci_graph ci) rbs ->
    forall i rb b t y, In (i, rb) rbs -> bn_eqb (rb_bn rb) fake_not_merged = false ->
      rb_bump cx rb = Some b -> b_to b = Some t ->
      (In (y, (br, rb_bn rb)) regs <->
       anc (ci_graph ci) t y /\
       forall j rb' b' t', panc rbs i j -> In (j, rb') rbs -> rb_bump cx rb' = Some b' -> b_to b' = Some t' ->
                           ~ anc (ci_graph ci) t' y).
Proof.
  intros W NB R br rbs Hbr K KB L O i rb b t y Hrb HF Hb Ht.
  rewrite registrations_unfold in R. rewrite (reg_branches_spec _ _ _ _ _ R).
  rewrite <- (first_ship_iff cx (ci_graph ci) rbs L O K i rb b t y Hrb Hb Ht).
  destruct (rbuilds_in_bump_spec _ b t W Ht) as (l & El & _ & Hl).
  split.
  - intros [[]|(rbs' & Hr & p & b' & l' & Hp & E1 & _ & E3 & E4 & E5)].
    assert (rbs' = rbs) by (eapply key_unique; eauto). subst rbs'.
    assert (p = (i, rb)) by (eapply (NoDup_map_inj (fun p => rb_bn (snd p))); eauto). subst p. cbn [snd] in *.
    rewrite Hb in E3. injection E3 as <-. rewrite El in E4. injection E4 as <-. apply Hl. exact E5.
  - intros S. right. exists rbs. split; [exact Hbr|]. exists (i, rb), b, l. cbn [snd].
    split; [exact Hrb|]. split; [reflexivity|]. split; [exact HF|]. split; [exact Hb|]. split; [exact El|].
    apply Hl. exact S.
Qed.

(* ------------------------------------------------------------------ *)
(* the same about a whole report                                        *)

(* included_at of RBuild y of component cx *)
Definition included_at (cx : nat) (r : report) (y : nat) : list (nat * bn) :=
  match nfind y (nth cx (r_included r) []) with Some l => l | None => [] end.

Lemma nth_error_mapi_from {A B} (f : nat -> A -> B) l : forall k i,
  nth_error (mapi_from f k l) i = option_map (f (k + i)) (nth_error l i).
Proof.
  induction l as [|a r IH]; intros k i; cbn [mapi_from].
  - destruct i; reflexivity.
  - destruct i as [|i]; cbn [nth_error option_map].
    + rewrite Nat.add_0_r. reflexivity.
    + rewrite IH. replace (S k + i) with (k + S i) by lia. reflexivity.
Qed.

Lemma mapi_from_length {A B} (f : nat -> A -> B) l : forall k, length (mapi_from f k l) = length l.
Proof. induction l as [|a r IH]; intros k; cbn [mapi_from length]; [reflexivity|rewrite IH; reflexivity]. Qed.

Lemma all_some_nth {A} (l : list (option A)) : forall a, all_some l = Some a ->
  forall i o, nth_error l i = Some o -> exists x, o = Some x /\ nth_error a i = Some x.
Proof.
  induction l as [|[x|] r IH]; intros a H i o Hi; cbn [all_some] in H.
  - destruct i; discriminate.
  - destruct (all_some r) as [a'|] eqn:E; [|discriminate]. injection H as <-.
    destruct i as [|i]; cbn [nth_error] in *.
    + injection Hi as <-. exists x. split; reflexivity.
    + exact (IH a' eq_refl i o Hi).
  - discriminate.
Qed.

Lemma nfind_map_key {A V} (F : nat -> V) (l : list (nat * A)) y :
  In y (map fst l) -> nfind y (map (fun p => (fst p, F (fst p))) l) = Some (F y).
Proof.
  unfold nfind. induction l as [|a r IH]; intros H; [destruct H|]. cbn [map find fst].
  destruct (fst a =? y) eqn:E.
  - apply Nat.eqb_eq in E. cbn [snd]. rewrite E. reflexivity.
  - apply IH. destruct H as [H|H]; [|exact H]. apply Nat.eqb_neq in E. contradiction.
Qed.

Lemma NoDup_map_filter {A B} (f : A -> B) (g : A -> bool) l : NoDup (map f l) -> NoDup (map f (filter g l)).
Proof.
  induction l as [|a r IH]; intros ND; [constructor|]. cbn [map] in ND. apply NoDup_cons_iff in ND as [N ND].
  cbn [filter]. destruct (g a); [|apply IH; exact ND]. cbn [map]. constructor; [|apply IH; exact ND].
  intros H. apply N. apply in_map_iff in H as (x & E & Hx). apply filter_In in Hx as [Hx _].
  rewrite <- E. apply in_map. exact Hx.
Qed.

Lemma read_branches_names (ci : list cinfo) commits : forall heads prev g acc g' acc',
  read_branches ci commits heads prev g acc = (g', acc') ->
  map fst acc' = rev (map fst heads) ++ map fst acc.
Proof.
  induction heads as [|[name head] r IH]; intros prev g acc g' acc' H; cbn [read_branches] in H.
  - injection H as _ <-. reflexivity.
  - destruct (read_branch ci commits prev head g) as [g1 rbs1].
    rewrite (IH _ _ _ _ _ H). cbn [map fst rev]. rewrite <- app_assoc. reflexivity.
Qed.

(* what parent_report hands over: for every component the registrations of the branches made by that
   component's loop, sorted out per component build *)
Lemma parent_report_regs cis commits heads r : parent_report cis commits heads = Ok r ->
  (NoDup (map fst heads) -> NoDup (map fst (r_branches r))) /\
  forall cx ci, nth_error cis cx = Some ci ->
  exists regs, registrations cx ci (r_branches r) = Some regs /\
    forall y br k, In y (map fst (ci_rbs ci)) -> (In (br, k) (included_at cx r y) <-> In (y, (br, k)) regs).
Proof.
  unfold parent_report. destruct (read_branches cis commits heads [] g_init []) as [g acc] eqn:RB.
  destruct (g_err g); [discriminate|].
  set (branches := filter (fun br => nonempty (snd br)) acc).
  destruct (all_some _) as [inc|] eqn:AS; [|discriminate].
  intros [= <-]. cbn [r_branches]. split.
  - intros ND. apply NoDup_map_filter. rewrite (read_branches_names _ _ _ _ _ _ _ _ RB), app_nil_r.
    apply NoDup_rev. exact ND.
  - intros cx ci Hci.
    pose proof (all_some_nth _ _ AS cx) as N. rewrite nth_error_mapi_from, Hci in N. cbn [option_map plus] in N.
    destruct (N _ eq_refl) as (x & E & Hx).
    destruct (registrations cx ci branches) as [regs|] eqn:R; [|discriminate]. injection E as <-.
    exists regs. split; [reflexivity|]. intros y br k Hy. unfold included_at. cbn [r_included].
    rewrite (nth_error_nth _ _ _ Hx). unfold included_of.
    rewrite (nfind_map_key (fun y => map snd (filter (fun q => fst q =? y) regs)) (ci_rbs ci) y Hy).
    rewrite in_map_iff. split.
    + intros ([y' bk] & E & H). cbn [snd] in E. subst bk. apply filter_In in H as [H E]. cbn [fst] in E.
      apply Nat.eqb_eq in E. subst y'. exact H.
    + intros H. exists (y, (br, k)). split; [reflexivity|]. apply filter_In. split; [exact H|]. cbn [fst].
      apply Nat.eqb_refl.
Qed.

Lemma included_first_report_l cis commits heads r cx ci :
  nth_error cis cx = Some ci ->
  wf (ci_graph ci) -> parent_report cis commits heads = Ok r -> NoDup (map fst heads) ->
  forall br rbs, In (br, rbs) (r_branches r) ->
    NoDup (map fst rbs) -> NoDup (map (fun p => rb_bn (snd p)) rbs) ->
    linked cx rbs -> pins_ordered cx (ci_graph ci) rbs ->
    forall i rb b t y, In (i, rb) rbs -> bn_eqb (rb_bn rb) fake_not_merged = false ->
      rb_bump cx rb = Some b -> b_to b = Some t -> In y (map fst (ci_rbs ci)) ->
      (In (br, rb_bn rb) (included_at cx r y) <->
       anc (ci_graph ci) t y /\
       forall j rb' b' t', panc rbs i j -> In (j, rb') rbs -> rb_bump cx rb' = Some b' -> b_to b' = Some t' ->
                           ~ anc (ci_graph ci) t' y).
Proof.
  intros Hci W PR NH br rbs Hbr K KB L O i rb b t y Hrb HF Hb Ht Hy.
  destruct (parent_report_regs _ _ _ _ PR) as (NB & HR).
  destruct (HR cx ci Hci) as (regs & R & HI).
  rewrite (HI y br (rb_bn rb) Hy).
  eapply included_first_l; eauto.
Qed.

(* ------------------------------------------------------------------ *)
(* the full statement about a report, and its refutation                 *)

(* pins never decrease along a parent branch (the property's domain): every bump's previous
   pins are <= its new pin in the order of build numbers *)
Definition pins_nondecr (cx : nat) (r : report) : Prop :=
  forall br rbs i rb b fb, In (br, rbs) (r_branches r) -> In (i, rb) rbs -> rb_bump cx rb = Some b ->
    In fb (b_from_bns b) -> bn_leb fb (b_to_bn b) = true.

(* every parent commit pins the component, branch names are distinct, pins never decrease:
   component build y is recorded at the reported parent build rb exactly when rb's pin
   contains y and no ancestor build of rb in that branch has a pin containing y *)
Definition included_first_statement : Prop :=
  forall cis commits heads r cx ci, nth_error cis cx = Some ci ->
    wf (ci_graph ci) -> parent_report cis commits heads = Ok r ->
    NoDup (map fst heads) -> (forall c, In c commits -> c_pin cx c <> None) -> pins_nondecr cx r ->
    forall br rbs i rb b t y, In (br, rbs) (r_branches r) -> In (i, rb) rbs -> rb_type rb = 0%Z ->
      rb_bump cx rb = Some b -> b_to b = Some t -> In y (map fst (ci_rbs ci)) ->
      (In (br, rb_bn rb) (included_at cx r y) <->
       anc (ci_graph ci) t y /\
       forall j rb' b' t', panc rbs i j -> In (j, rb') rbs -> rb_bump cx rb' = Some b' -> b_to b' = Some t' ->
                           ~ anc (ci_graph ci) t' y).

(* the history of DESIGN.md section 7 (the former witness): component builds 1.1.4 <- {1.1.5, 1.1.6} <- 1.1.7
   (RBuild iids 0, 2, 1, 3), parent builds 5.1.1 / 5.1.2 / 5.1.3 pin 1.1.1 / 1.1.5 / 1.1.7 *)
Definition w_ci : cinfo :=
  mkCI [(0, ((1, 1, 4)%Z, [])); (1, ((1, 1, 6)%Z, [0])); (2, ((1, 1, 5)%Z, [0])); (3, ((1, 1, 7)%Z, [1; 2]))]
       [((1, 1, 4)%Z, (0, 0)); ((1, 1, 6)%Z, (0, 1)); ((1, 1, 5)%Z, (0, 2)); ((1, 1, 7)%Z, (0, 3))]
       [[0; 1; 2; 3]].
Definition w_commits : list commit :=
  [mkC [] false [(5, 1, 1)%Z] [Some (1, 1, 1)%Z];
   mkC [0] false [(5, 1, 2)%Z] [Some (1, 1, 5)%Z];
   mkC [1] false [(5, 1, 3)%Z] [Some (1, 1, 7)%Z]].
Definition w_heads : list (nat * nat) := [(0, 2)].

Lemma w_ci_wf : wf (ci_graph w_ci).
Proof. exact w_wf. Qed.

(* since d037b67 component build 0 (1.1.4) is recorded at the first build that ships it only *)
Lemma w_included :
  exists r, parent_report [w_ci] w_commits w_heads = Ok r /\
            included_at 0 r 0 = [(0, (5, 1, 2)%Z)] /\ included_at 0 r 1 = [(0, (5, 1, 3)%Z)] /\
            included_at 0 r 2 = [(0, (5, 1, 2)%Z)] /\ included_at 0 r 3 = [(0, (5, 1, 3)%Z)].
Proof. eexists. split; [vm_compute; reflexivity|]. vm_compute. repeat split. Qed.

(* the witness that remains (finding included-at-again-after-pin-left): component builds
   1.1.1 <- {1.1.5, 1.1.6} <- 1.1.7 (RBuild iids 0, 2, 1, 3; 1.1.5 || 1.1.6), parent builds
   5.1.1 / 5.1.2 / 5.1.3 pin 1.1.5 / 1.1.6 / 1.1.7: build numbers never decrease, but 1.1.6 does
   not contain 1.1.5, and the third bump only subtracts what 1.1.6 contains *)
Definition v_ci : cinfo :=
  mkCI [(0, ((1, 1, 1)%Z, [])); (1, ((1, 1, 6)%Z, [0])); (2, ((1, 1, 5)%Z, [0])); (3, ((1, 1, 7)%Z, [1; 2]))]
       [((1, 1, 1)%Z, (0, 0)); ((1, 1, 6)%Z, (0, 1)); ((1, 1, 5)%Z, (0, 2)); ((1, 1, 7)%Z, (0, 3))]
       [[0; 1; 2; 3]].
Definition v_commits : list commit :=
  [mkC [] false [(5, 1, 1)%Z] [Some (1, 1, 5)%Z];
   mkC [0] false [(5, 1, 2)%Z] [Some (1, 1, 6)%Z];
   mkC [1] false [(5, 1, 3)%Z] [Some (1, 1, 7)%Z]].

Lemma v_ci_wf : wf (ci_graph v_ci).
Proof. exact w_wf. Qed.

Lemma v_included :
  exists r, parent_report [v_ci] v_commits w_heads = Ok r /\
            included_at 0 r 2 = [(0, (5, 1, 1)%Z); (0, (5, 1, 3)%Z)].
Proof. eexists. split; vm_compute; reflexivity. Qed.

Lemma included_first_refuted_l : ~ included_first_statement.
Proof.
  intros S.
  destruct (parent_report [v_ci] v_commits w_heads) as [r|e] eqn:E; [|vm_compute in E; discriminate].
  specialize (S [v_ci] v_commits w_heads r 0 v_ci eq_refl v_ci_wf E).
  vm_compute in E. injection E as <-.
  match type of S with _ -> _ -> pins_nondecr 0 ?r -> _ => set (R := r) in * end.
  assert (NoDup (map fst w_heads)) as NH by (repeat constructor; intros []).
  assert (forall c, In c v_commits -> c_pin 0 c <> None) as PIN.
  { intros c [<-|[<-|[<-|[]]]]; discriminate. }
  assert (pins_nondecr 0 R) as PG.
  { intros br rbs i rb b fb Hbr. destruct Hbr as [Hbr|[]]. injection Hbr as <- <-.
    intros [H|[H|[H|[]]]]; injection H as <- <-; cbn; intros [= <-]; cbn; intros HH;
      repeat (destruct HH as [<-|HH]; [reflexivity|]); destruct HH. }
  specialize (S NH PIN PG).
  (* the third parent build (iid 2, pin -> component RBuild 3) records component build 2 (1.1.5) ... *)
  pose proof (S 0 _ 2%Z _ _ 3 2 (or_introl eq_refl) (or_intror (or_intror (or_introl eq_refl))) eq_refl eq_refl eq_refl
                ltac:(cbn; auto)) as [H _].
  destruct H as [_ N]; [cbn; auto|].
  (* ... although its ancestor build (iid 0) pins component RBuild 2 itself *)
  eapply (N 0%Z _ _ 2).
  - eapply pancS; [right; right; left; reflexivity|cbn; left; reflexivity|].
    eapply panc1; [right; left; reflexivity|cbn; left; reflexivity].
  - left. reflexivity.
  - reflexivity.
  - reflexivity.
  - apply anc_refl.
Qed.

(* the guards of the proved part hold for the report of the DESIGN.md section 7 history *)
Lemma w_guards :
  exists r rbs, parent_report [w_ci] w_commits w_heads = Ok r /\ In (0, rbs) (r_branches r) /\
    length rbs = 2 /\ NoDup (map fst rbs) /\ NoDup (map (fun p => rb_bn (snd p)) rbs) /\
    linked 0 rbs /\ pins_ordered 0 (ci_graph w_ci) rbs.
Proof.
  eexists. eexists. split; [vm_compute; reflexivity|]. split; [left; reflexivity|].
  split; [reflexivity|].
  split; [cbn; repeat constructor; cbn; intuition discriminate|].
  split; [cbn; repeat constructor; cbn; intuition discriminate|].
  split.
  - intros i rb [H|[H|[]]]; injection H as <- <-; cbn [rb_parents rb_bump]; split.
    + intros j [].
    + intros b [= <-]. cbn [b_to b_from]. split; [intros [=]|]. intros f. split; [intros []|].
      intros (j & _ & _ & [] & _).
    + intros j [<-|[]]. eexists. eexists. split; [left; reflexivity|reflexivity].
    + intros b [= <-]. cbn [b_to b_from]. split; [intros [=]|]. intros f. split.
      * intros [<-|[]]. eexists. eexists. eexists. split; [left; reflexivity|].
        split; [left; reflexivity|]. split; reflexivity.
      * intros (j & rb' & b' & [<-|[]] & [H|[H|[]]] & Hb & Ht); [|discriminate H].
        injection H as <-. cbn in Hb. injection Hb as <-. cbn in Ht. injection Ht as <-. left. reflexivity.
  - intros i rb b t f [H|[H|[]]]; injection H as <- <-; cbn; intros [= <-] [= <-]; cbn; [intros []|].
    intros [<-|[]]. eapply anc_step; [|apply anc_refl]. cbn. auto.
Qed.

(* ------------------------------------------------------------------ *)
(* bump_reported                                                        *)

Lemma zfind_zput {V} k (v : V) m : zfind k (zput k v m) = Some v.
Proof.
  induction m as [|[k' v'] r IH]; cbn [zput].
  - unfold zfind. cbn. rewrite Z.eqb_refl. reflexivity.
  - destruct (Z.eqb k k') eqn:E.
    + unfold zfind. cbn. rewrite Z.eqb_refl. reflexivity.
    + destruct (Z.ltb k k') eqn:L.
      * unfold zfind. cbn. rewrite Z.eqb_refl. reflexivity.
      * unfold zfind in *. cbn. rewrite Z.eqb_sym, E. exact IH.
Qed.

Lemma set_err_cnt e g : g_cnt (set_err e g) = g_cnt g.
Proof. reflexivity. Qed.

Lemma find_new_cnt g heads : g_cnt (snd (find_new g heads)) = g_cnt g.
Proof.
  unfold find_new.
  destruct (fold_left _ (rev heads) (g_bpar g, [], false)) as [[bp nw] h].
  cbn [snd]. destruct h; reflexivity.
Qed.

(* ------------------------------------------------------------------ *)
(* _mk_bumps_info: one bump per component, each computed by itself      *)

Lemma mk_bumps_nth cis g cm prb cx ci : nth_error cis cx = Some ci ->
  nth_error (mk_bumps cis g cm prb) cx = Some (mk_bump cx ci g cm prb).
Proof. intros H. unfold mk_bumps. rewrite nth_error_mapi_from, H. reflexivity. Qed.

Lemma mk_bumps_length cis g cm prb : length (mk_bumps cis g cm prb) = length cis.
Proof. apply mapi_from_length. Qed.

(* bumps.get(component cx) of a build given by its iid (None: no such build, or no bump of cx) *)
Definition bump_at (cx : nat) (g : gst) (p : Z) : option bump :=
  match get_rb g p with Some rb => rb_bump cx rb | None => None end.

Lemma fold_left_ext_in {A B} (f f' : A -> B -> A) l : (forall a x, In x l -> f a x = f' a x) ->
  forall a, fold_left f l a = fold_left f' l a.
Proof.
  induction l as [|x r IH]; intros H a; [reflexivity|]. cbn [fold_left].
  rewrite (H a x (or_introl eq_refl)). apply IH. intros a' y Hy. apply H. right. exact Hy.
Qed.

(* the bump of component cx is a function of cx's version map, the commit's pin of cx and the
   parent builds' bumps of cx: nothing else of the commit or of the graph built so far enters *)
Lemma mk_bump_local cx ci g g' cm cm' prb :
  c_pin cx cm' = c_pin cx cm -> (forall p, In p prb -> bump_at cx g' p = bump_at cx g p) ->
  mk_bump cx ci g' cm' prb = mk_bump cx ci g cm prb.
Proof.
  intros EP EB. unfold mk_bump. rewrite EP.
  destruct (nonempty (ci_bnmap ci)); [|reflexivity]. destruct (c_pin cx cm) as [pin|]; [|reflexivity].
  match goal with |- (let '(_, _) := fold_left ?f1 _ _ in _) = (let '(_, _) := fold_left ?f2 _ _ in _) =>
    rewrite (fold_left_ext_in f1 f2 prb) end; [reflexivity|].
  intros acc p Hp. specialize (EB p Hp). unfold bump_at in EB.
  destruct (get_rb g' p) as [rb'|], (get_rb g p) as [rb|].
  - rewrite EB. reflexivity.
  - rewrite EB. reflexivity.
  - rewrite <- EB. reflexivity.
  - reflexivity.
Qed.

(* the per-component loop: the entry of component cx is cx's own bump, whatever the other
   components are, whatever the commit pins for them and whatever bumps of them the parent builds carry *)
Lemma bumps_independent_l cis cis' g g' cm cm' prb cx ci :
  nth_error cis cx = Some ci -> nth_error cis' cx = Some ci ->
  c_pin cx cm' = c_pin cx cm -> (forall p, In p prb -> bump_at cx g' p = bump_at cx g p) ->
  nth_error (mk_bumps cis g cm prb) cx = Some (mk_bump cx ci g cm prb) /\
  nth_error (mk_bumps cis' g' cm' prb) cx = nth_error (mk_bumps cis g cm prb) cx.
Proof.
  intros H H' EP EB. rewrite (mk_bumps_nth _ _ _ _ _ _ H), (mk_bumps_nth _ _ _ _ _ _ H').
  split; [reflexivity|]. f_equal. apply mk_bump_local; assumption.
Qed.

Lemma existsb_nth_error {A} (f : A -> bool) l i x : nth_error l i = Some x -> f x = true -> existsb f l = true.
Proof.
  intros H F. apply existsb_exists. exists x. split; [|exact F]. eapply nth_error_In. exact H.
Qed.

(* _mk_rcommits: a build commit (or the branch head) whose bump of the component is
   not trivial becomes an RBuild carrying that bump (and the bumps of all its components),
   whatever else holds -- in particular without any matching commit of its own or below it *)
Lemma bump_reported_l cis head c cm g cx ci : nth_error cis cx = Some ci ->
  (nonempty (c_tags cm) || (c =? head)) = true ->
  forall nw prb g1 b,
    find_new g (rc_parents_of g (c_parents cm)) = (nw, prb, g1) ->
    mk_bump cx ci g1 cm prb = Some b -> is_trivial b = false ->
    exists rb, zfind (g_cnt g) (g_cur (finalise cis head c cm g)) = Some rb /\
               rb_bump cx rb = Some b /\ rb_bumps rb = mk_bumps cis g1 cm prb /\
               rb_type rb = 0%Z /\ rb_parents rb = prb /\
               nfind c (g_selected (finalise cis head c cm g)) = Some (g_cnt g).
Proof.
  intros Hci Hb nw prb g1 b EF EB ET.
  assert (existsb (fun ci => nonempty (ci_bnmap ci)) cis = true) as Hrel.
  { apply (existsb_nth_error _ _ _ _ Hci). unfold mk_bump in EB.
    destruct (nonempty (ci_bnmap ci)); [reflexivity|discriminate]. }
  assert (nth_error (mk_bumps cis g1 cm prb) cx = Some (Some b)) as HN.
  { rewrite (mk_bumps_nth _ _ _ _ _ _ Hci), EB. reflexivity. }
  assert (existsb nontrivial_bump (mk_bumps cis g1 cm prb) = true) as Hnt.
  { apply (existsb_nth_error _ _ _ _ HN). cbn [nontrivial_bump]. rewrite ET. reflexivity. }
  assert (g_cnt g1 = g_cnt g) as Hc.
  { pose proof (find_new_cnt g (rc_parents_of g (c_parents cm))) as H. rewrite EF in H. exact H. }
  unfold finalise. rewrite Hrel, Hb, EF, Hnt.
  replace (negb (c_expl cm || true || nonempty (rc_parents_of g (c_parents cm)))) with false
    by (rewrite orb_true_r; reflexivity).
  cbn [negb]. rewrite !orb_true_r. cbn [orb].
  replace (c_expl cm || true) with true by (rewrite orb_true_r; reflexivity).
  cbn iota. rewrite Hc.
  eexists. cbn [g_cur g_selected]. split; [apply zfind_zput|]. cbn [rb_bumps rb_type rb_parents].
  split; [unfold rb_bump; cbn [rb_bumps]; apply (nth_error_nth _ _ _ HN)|].
  repeat split. unfold nfind. cbn [find fst snd]. rewrite Nat.eqb_refl. reflexivity.
Qed.

(* ------------------------------------------------------------------ *)
(* _mk_bumps_info: where a bump starts from                              *)

(* the from-builds of a new bump are the to-builds of the parent builds' bumps OF THE SAME COMPONENT
   (or, for a parent whose pin resolved to nothing, what that parent started from) *)
Lemma bump_from_l cx ci g cm prb b : mk_bump cx ci g cm prb = Some b ->
  forall f, In f (b_from b) <->
    exists p rb pb, In p prb /\ get_rb g p = Some rb /\ rb_bump cx rb = Some pb /\
                    (b_to pb = Some f \/ (b_to pb = None /\ In f (b_from pb))).
Proof.
  unfold mk_bump. destruct (nonempty (ci_bnmap ci)); [|discriminate].
  destruct (c_pin cx cm) as [pin|]; [|discriminate].
  set (step := fun (acc : list bn * list nat) (p : Z) => _).
  assert (forall l acc f, In f (snd (fold_left step l acc)) <->
            In f (snd acc) \/ exists p rb pb, In p l /\ get_rb g p = Some rb /\ rb_bump cx rb = Some pb /\
                    (b_to pb = Some f \/ (b_to pb = None /\ In f (b_from pb)))) as K.
  { induction l as [|p r IH]; intros acc f; cbn [fold_left].
    - split; [auto|]. intros [H|(p & rb & pb & [] & _)]. exact H.
    - rewrite IH. unfold step. split.
      + intros [H|(q & rb & pb & Hq & R)].
        * destruct (get_rb g p) as [rb|] eqn:E1; [|left; exact H].
          destruct (rb_bump cx rb) as [pb|] eqn:E2; [|left; exact H]. cbn [snd] in H.
          destruct (b_to pb) as [t|] eqn:E3.
          -- apply nadd_In in H as [->|H]; [|left; exact H]. right. exists p, rb, pb. intuition.
          -- apply nunion_In in H as [H|H]; [left; exact H|]. right. exists p, rb, pb. intuition.
        * right. exists q, rb, pb. intuition.
      + intros [H|(q & rb & pb & [<-|Hq] & E1 & E2 & E3)].
        * left. destruct (get_rb g p) as [rb|]; [|exact H]. destruct (rb_bump cx rb) as [pb|]; [|exact H]. cbn [snd].
          destruct (b_to pb); [apply nadd_In; right; exact H|apply nunion_In; left; exact H].
        * left. rewrite E1, E2. cbn [snd]. destruct E3 as [E3|[E3 E4]]; rewrite E3.
          -- apply nadd_In. left. reflexivity.
          -- apply nunion_In. right. exact E4.
        * right. exists q, rb, pb. intuition. }
  destruct (fold_left step prb ([], [])) as [fbns frbs] eqn:EF.
  intros [= <-]. cbn [b_from]. intros f. specialize (K prb ([], []) f). rewrite EF in K. cbn [snd] in K.
  rewrite K. split; [intros [[]|H]; exact H|intros H; right; exact H].
Qed.

(* ------------------------------------------------------------------ *)
(* two components of one parent, through the whole model                *)

(* components a and b: five builds each in a line (RBuild iids 0..4 in BOTH repositories), versions
   1.0.1 .. 1.0.5 and 2.0.1 .. 2.0.5; the parent's builds 9.0.1 .. 9.0.4 pin (a, b) =
   (1.0.3, 2.0.1), (1.0.3, 2.0.3), (1.0.4, 2.0.4), (1.0.5, 2.0.4): the pins do not move in lock-step *)
Definition m_ci (M : Z) : cinfo :=
  mkCI [(0, ((M, 0, 1)%Z, [])); (1, ((M, 0, 2)%Z, [0])); (2, ((M, 0, 3)%Z, [1])); (3, ((M, 0, 4)%Z, [2]));
        (4, ((M, 0, 5)%Z, [3]))]
       [((M, 0, 1)%Z, (0, 0)); ((M, 0, 2)%Z, (0, 1)); ((M, 0, 3)%Z, (0, 2)); ((M, 0, 4)%Z, (0, 3));
        ((M, 0, 5)%Z, (0, 4))]
       [[0; 1; 2; 3; 4]].
Definition m_commits (pb : list Z) : list commit :=
  [mkC [] false [(9, 0, 1)%Z] [Some (1, 0, 3)%Z; Some (2, 0, nth 0 pb 0)%Z];
   mkC [0] false [(9, 0, 2)%Z] [Some (1, 0, 3)%Z; Some (2, 0, nth 1 pb 0)%Z];
   mkC [1] false [(9, 0, 3)%Z] [Some (1, 0, 4)%Z; Some (2, 0, nth 2 pb 0)%Z];
   mkC [2] false [(9, 0, 4)%Z] [Some (1, 0, 5)%Z; Some (2, 0, nth 3 pb 0)%Z]].

(* every build of a and of b is recorded at exactly the first parent build whose pin of ITS
   component contains it (2.0.5 is never shipped); and what is recorded for a is the same when b's
   pins are different (b pinned at 2.0.5 throughout, or b moving where a stands) *)
Lemma m_included :
  exists r, parent_report [m_ci 1; m_ci 2] (m_commits [1; 3; 4; 4]%Z) [(0, 3)] = Ok r /\
    map (included_at 0 r) [0; 1; 2; 3; 4] =
      [[(0, (9, 0, 1)%Z)]; [(0, (9, 0, 1)%Z)]; [(0, (9, 0, 1)%Z)]; [(0, (9, 0, 3)%Z)]; [(0, (9, 0, 4)%Z)]] /\
    map (included_at 1 r) [0; 1; 2; 3; 4] =
      [[(0, (9, 0, 1)%Z)]; [(0, (9, 0, 2)%Z)]; [(0, (9, 0, 2)%Z)]; [(0, (9, 0, 3)%Z)]; []] /\
    forall pb, In pb [[5; 5; 5; 5]; [1; 1; 1; 1]; [1; 2; 2; 3]; [3; 3; 4; 5]]%Z ->
      exists r', parent_report [m_ci 1; m_ci 2] (m_commits pb) [(0, 3)] = Ok r' /\
                 map (included_at 0 r') [0; 1; 2; 3; 4] = map (included_at 0 r) [0; 1; 2; 3; 4].
Proof.
  eexists. split; [vm_compute; reflexivity|]. split; [vm_compute; reflexivity|]. split; [vm_compute; reflexivity|].
  intros pb [<-|[<-|[<-|[<-|[]]]]]; eexists; (split; [vm_compute; reflexivity|]); vm_compute; reflexivity.
Qed.
