(* C05/Witness.v -- concrete grammars and the trees LLParser.parse(text, do_cleanup=False)
   returned for them (written once by a script from the implementation's output;
   the same cases are in corpus/C05 and are re-run on every check). *)
From Coq Require Import ZArith List.
From AK Require Import LLP.Base C05.Model.
Import ListNotations.
Open Scope Z_scope.

Definition sATOM : sym := [65;84;79;77]%Z.   (* ATOM *)
Definition sCOLON : sym := [58]%Z.   (* : *)
Definition sCOMMA : sym := [44]%Z.   (* , *)
Definition sE : sym := [69]%Z.   (* E *)
Definition sITEM : sym := [73;84;69;77]%Z.   (* ITEM *)
Definition sLB : sym := [91]%Z.   (* [ *)
Definition sLC : sym := [123]%Z.   (* { *)
Definition sLIST : sym := [76;73;83;84]%Z.   (* LIST *)
Definition sLIST_TAIL : sym := [76;73;83;84;95;95;84;65;73;76]%Z.   (* LIST__TAIL *)
Definition sMAP : sym := [77;65;80]%Z.   (* MAP *)
Definition sMAP_ELEMENTS : sym := [77;65;80;95;95;69;76;69;77;69;78;84;83]%Z.   (* MAP__ELEMENTS *)
Definition sMAP_KV_PAIR : sym := [77;65;80;95;95;75;86;95;80;65;73;82]%Z.   (* MAP__KV_PAIR *)
Definition sNUM : sym := [78;85;77]%Z.   (* NUM *)
Definition sRB : sym := [93]%Z.   (* ] *)
Definition sRC : sym := [125]%Z.   (* } *)
Definition sROW : sym := [82;79;87]%Z.   (* ROW *)
Definition sROW_TAIL : sym := [82;79;87;95;95;84;65;73;76]%Z.   (* ROW__TAIL *)
Definition sSEMI : sym := [59]%Z.   (* ; *)
Definition sSEQ : sym := [83;69;81]%Z.   (* SEQ *)
Definition sSEQxELEMENT : sym := [83;69;81;120;69;76;69;77;69;78;84]%Z.   (* SEQxELEMENT *)
Definition sVALUE : sym := [86;65;76;85;69]%Z.   (* VALUE *)
Definition sWORD : sym := [87;79;82;68]%Z.   (* WORD *)

(* w1: text 'a [b,[c]] f ;' *)
Definition w1_g : gspec := [(sE, (PPlain [[sSEQ; sSEMI]])); (sSEQ, (PSeq [sWORD; sLIST])); (sLIST, (PList (Some sLB) sITEM (Some sCOMMA) (Some sRB) None None)); (sITEM, (PPlain [[sWORD]; [sLIST]]))].
Definition w1_raw : rt := (RNode sE [(RSeq sSEQ [(RTok sWORD [97]%Z); (RNode sLIST [(RTok sLB [91]%Z); (RNode sITEM [(RTok sWORD [98]%Z)]); (RNode sLIST_TAIL [(RTok sCOMMA [44]%Z); (RNode sITEM [(RNode sLIST [(RTok sLB [91]%Z); (RNode sITEM [(RTok sWORD [99]%Z)]); (RNull sLIST_TAIL); (RTok sRB [93]%Z)])]); (RNull sLIST_TAIL)]); (RTok sRB [93]%Z)]); (RTok sWORD [102]%Z)]); (RTok sSEMI [59]%Z)]).
Definition w1_raw2 : rt := (RNode sE [(RNode sSEQ [(RNode sSEQxELEMENT [(RTok sWORD [97]%Z)]); (RNode sSEQ [(RNode sSEQxELEMENT [(RNode sLIST [(RTok sLB [91]%Z); (RNode sITEM [(RTok sWORD [98]%Z)]); (RNode sLIST_TAIL [(RTok sCOMMA [44]%Z); (RNode sITEM [(RNode sLIST [(RTok sLB [91]%Z); (RNode sITEM [(RTok sWORD [99]%Z)]); (RNull sLIST_TAIL); (RTok sRB [93]%Z)])]); (RNull sLIST_TAIL)]); (RTok sRB [93]%Z)])]); (RNode sSEQ [(RNode sSEQxELEMENT [(RTok sWORD [102]%Z)]); (RNull sSEQ)])])]); (RTok sSEMI [59]%Z)]).
(* w2: text '[a, {k: [b, c], k: d}, [], ]' *)
Definition w2_g : gspec := [(sE, (PPlain [[sLIST]])); (sLIST, (PList (Some sLB) sVALUE (Some sCOMMA) (Some sRB) None None)); (sVALUE, (PPlain [[sWORD]; [sLIST]; [sMAP]])); (sMAP, (PMap (Some sLC) sWORD (Some sCOLON) sVALUE (Some sCOMMA) (Some sRC) None None))].
Definition w2_raw : rt := (RNode sE [(RNode sLIST [(RTok sLB [91]%Z); (RNode sVALUE [(RTok sWORD [97]%Z)]); (RNode sLIST_TAIL [(RTok sCOMMA [44]%Z); (RNode sVALUE [(RNode sMAP [(RTok sLC [123]%Z); (RNode sMAP_KV_PAIR [(RTok sWORD [107]%Z); (RTok sCOLON [58]%Z); (RNode sVALUE [(RNode sLIST [(RTok sLB [91]%Z); (RNode sVALUE [(RTok sWORD [98]%Z)]); (RNode sLIST_TAIL [(RTok sCOMMA [44]%Z); (RNode sVALUE [(RTok sWORD [99]%Z)]); (RNull sLIST_TAIL)]); (RTok sRB [93]%Z)])])]); (RNode sMAP_ELEMENTS [(RTok sCOMMA [44]%Z); (RNode sMAP_KV_PAIR [(RTok sWORD [107]%Z); (RTok sCOLON [58]%Z); (RNode sVALUE [(RTok sWORD [100]%Z)])]); (RNull sMAP_ELEMENTS)]); (RTok sRC [125]%Z)])]); (RNode sLIST_TAIL [(RTok sCOMMA [44]%Z); (RNode sVALUE [(RNode sLIST [(RTok sLB [91]%Z); (RTok sRB [93]%Z)])]); (RNode sLIST_TAIL [(RTok sCOMMA [44]%Z)])])]); (RTok sRB [93]%Z)])]).
(* w3: text '[a, ]' *)
Definition w3_g : gspec := [(sE, (PPlain [[sLIST]])); (sLIST, (PList (Some sLB) sVALUE (Some sCOMMA) (Some sRB) None None)); (sVALUE, (PPlain [[sWORD]; (@nil (list Z))]))].
Definition w3_raw : rt := (RNode sE [(RNode sLIST [(RTok sLB [91]%Z); (RNode sVALUE [(RTok sWORD [97]%Z)]); (RNode sLIST_TAIL [(RTok sCOMMA [44]%Z); (RNull sVALUE); (RNull sLIST_TAIL)]); (RTok sRB [93]%Z)])]).
(* w3b: text '[a, , ]' *)
Definition w3b_g : gspec := [(sE, (PPlain [[sLIST]])); (sLIST, (PList (Some sLB) sVALUE (Some sCOMMA) (Some sRB) None None)); (sVALUE, (PPlain [[sWORD]; (@nil (list Z))]))].
Definition w3b_raw : rt := (RNode sE [(RNode sLIST [(RTok sLB [91]%Z); (RNode sVALUE [(RTok sWORD [97]%Z)]); (RNode sLIST_TAIL [(RTok sCOMMA [44]%Z); (RNull sVALUE); (RNode sLIST_TAIL [(RTok sCOMMA [44]%Z); (RNull sVALUE); (RNull sLIST_TAIL)])]); (RTok sRB [93]%Z)])]).
(* w4: text 'a ;' *)
Definition w4_g : gspec := [(sE, (PPlain [[sWORD; sLIST; sSEMI]])); (sLIST, (PList (Some sLB) sWORD (Some sCOMMA) (Some sRB) None (Some true)))].
Definition w4_raw : rt := (RNode sE [(RTok sWORD [97]%Z); (RNull sLIST); (RTok sSEMI [59]%Z)]).
(* w5: text 'a 1 b ;' *)
Definition w5_g : gspec := [(sE, (PPlain [[sSEQ; sSEMI]])); (sSEQ, (PSeq [sWORD; sNUM]))].
Definition w5_raw : rt := (RNode sE [(RSeq sSEQ [(RTok sWORD [97]%Z); (RTok sNUM [49]%Z); (RTok sWORD [98]%Z)]); (RTok sSEMI [59]%Z)]).
Definition w5_raw2 : rt := (RNode sE [(RNode sSEQ [(RNode sSEQxELEMENT [(RTok sWORD [97]%Z)]); (RNode sSEQ [(RNode sSEQxELEMENT [(RTok sNUM [49]%Z)]); (RNode sSEQ [(RNode sSEQxELEMENT [(RTok sWORD [98]%Z)]); (RNull sSEQ)])])]); (RTok sSEMI [59]%Z)]).
(* w6: text '[a, [7]]' *)
Definition w6_g : gspec := [(sE, (PPlain [[sLIST]])); (sLIST, (PList (Some sLB) sVALUE (Some sCOMMA) (Some sRB) None None)); (sVALUE, (PPlain [[sATOM]; [sLIST]])); (sATOM, (PPlain [[sWORD]; [sNUM]]))].
Definition w6_raw : rt := (RNode sE [(RNode sLIST [(RTok sLB [91]%Z); (RNode sVALUE [(RNode sATOM [(RTok sWORD [97]%Z)])]); (RNode sLIST_TAIL [(RTok sCOMMA [44]%Z); (RNode sVALUE [(RNode sLIST [(RTok sLB [91]%Z); (RNode sVALUE [(RNode sATOM [(RTok sNUM [55]%Z)])]); (RNull sLIST_TAIL); (RTok sRB [93]%Z)])]); (RNull sLIST_TAIL)]); (RTok sRB [93]%Z)])]).
(* w8: text '[a, {k: [b], k: c}]' *)
Definition w8_g : gspec := [(sE, (PPlain [[sLIST]])); (sLIST, (PList (Some sLB) sVALUE (Some sCOMMA) (Some sRB) None None)); (sVALUE, (PPlain [[sWORD]; [sLIST]; [sMAP]])); (sMAP, (PMap (Some sLC) sWORD (Some sCOLON) sVALUE (Some sCOMMA) (Some sRC) None None))].
Definition w8_raw : rt := (RNode sE [(RNode sLIST [(RTok sLB [91]%Z); (RNode sVALUE [(RTok sWORD [97]%Z)]); (RNode sLIST_TAIL [(RTok sCOMMA [44]%Z); (RNode sVALUE [(RNode sMAP [(RTok sLC [123]%Z); (RNode sMAP_KV_PAIR [(RTok sWORD [107]%Z); (RTok sCOLON [58]%Z); (RNode sVALUE [(RNode sLIST [(RTok sLB [91]%Z); (RNode sVALUE [(RTok sWORD [98]%Z)]); (RNull sLIST_TAIL); (RTok sRB [93]%Z)])])]); (RNode sMAP_ELEMENTS [(RTok sCOMMA [44]%Z); (RNode sMAP_KV_PAIR [(RTok sWORD [107]%Z); (RTok sCOLON [58]%Z); (RNode sVALUE [(RTok sWORD [99]%Z)])]); (RNull sMAP_ELEMENTS)]); (RTok sRC [125]%Z)])]); (RNull sLIST_TAIL)]); (RTok sRB [93]%Z)])]).
(* w7: text 'a b ;' *)
Definition w7_g : gspec := [(sE, (PPlain [[sLIST; sSEMI]])); (sLIST, (PList None sWORD None None None None))].
Definition w7_raw : rt := (RNode sE [(RNode sLIST [(RTok sWORD [97]%Z); (RNode sLIST [(RTok sWORD [98]%Z); (RNull sLIST)])]); (RTok sSEMI [59]%Z)]).
(* items that are DIRECTLY template symbols (no choice symbol in between): rows that are bracket-less lists (one of them
   empty) and rows that are sequences (one of them empty, one holding a map whose value is again a list of rows) *)
(* w9: text '[a, b; ; c]' *)
Definition w9_g : gspec := [(sE, (PPlain [[sLIST]])); (sLIST, (PList (Some sLB) sROW (Some sSEMI) (Some sRB) None None)); (sROW, (PList None sWORD (Some sCOMMA) None None None))].
Definition w9_raw : rt := (RNode sE [(RNode sLIST [(RTok sLB [91]%Z); (RNode sROW [(RTok sWORD [97]%Z); (RNode sROW_TAIL [(RTok sCOMMA [44]%Z); (RTok sWORD [98]%Z); (RNull sROW_TAIL)])]); (RNode sLIST_TAIL [(RTok sSEMI [59]%Z); (RNull sROW); (RNode sLIST_TAIL [(RTok sSEMI [59]%Z); (RNode sROW [(RTok sWORD [99]%Z); (RNull sROW_TAIL)]); (RNull sLIST_TAIL)])]); (RTok sRB [93]%Z)])]).
(* w10: text '[s {k: [p]}; ; g]' *)
Definition w10_g : gspec := [(sE, (PPlain [[sLIST]])); (sLIST, (PList (Some sLB) sSEQ (Some sSEMI) (Some sRB) None None)); (sSEQ, (PSeq [sWORD; sMAP])); (sMAP, (PMap (Some sLC) sWORD (Some sCOLON) sVALUE (Some sCOMMA) (Some sRC) None None)); (sVALUE, (PPlain [[sWORD]; [sLIST]]))].
Definition w10_raw : rt := (RNode sE [(RNode sLIST [(RTok sLB [91]%Z); (RSeq sSEQ [(RTok sWORD [115]%Z); (RNode sMAP [(RTok sLC [123]%Z); (RNode sMAP_KV_PAIR [(RTok sWORD [107]%Z); (RTok sCOLON [58]%Z); (RNode sVALUE [(RNode sLIST [(RTok sLB [91]%Z); (RSeq sSEQ [(RTok sWORD [112]%Z)]); (RNull sLIST_TAIL); (RTok sRB [93]%Z)])])]); (RNull sMAP_ELEMENTS); (RTok sRC [125]%Z)])]); (RNode sLIST_TAIL [(RTok sSEMI [59]%Z); (RSeq sSEQ (@nil rt)); (RNode sLIST_TAIL [(RTok sSEMI [59]%Z); (RSeq sSEQ [(RTok sWORD [103]%Z)]); (RNull sLIST_TAIL)])]); (RTok sRB [93]%Z)])]).
