(* C18/LemmasRange.v -- detection of the columns of a ranged attribute
   (range_detect) and the text get_attr_origin gives for the whole range
   ("<leftmost source cell>:<rightmost source cell>", all columns). *)
From Coq Require Import ZArith List Bool Lia.
From AK Require Import Common.Sx Common.Err C18.Base gen.C18_Consts C18.Model C18.Lemmas C18.LemmasCoord.
Import ListNotations.

(* ------------------------------------------------------------------ *)
(* range_scan finds the first maximal run of titled, unknown columns   *)

Lemma range_scan_in known : forall names,
  exists post,
    names = range_scan known names true ++ post /\
    Forall (fun n => not_range known n = false) (range_scan known names true) /\
    (post = [] \/ exists n post', post = n :: post' /\ not_range known n = true).
Proof.
  induction names as [|n names IH]; cbn [range_scan].
  - exists []. repeat split; auto.
  - destruct (not_range known n) eqn:E.
    + exists (n :: names). repeat split; auto. right. eauto.
    + destruct IH as [post [H1 [H2 H3]]]. exists post. cbn [app]. rewrite <- H1.
      repeat split; auto.
Qed.

Lemma range_scan_spec known : forall names,
  exists pre post,
    names = pre ++ range_scan known names false ++ post /\
    Forall (fun n => not_range known n = true) pre /\
    Forall (fun n => not_range known n = false) (range_scan known names false) /\
    (post = [] \/ exists n post', post = n :: post' /\ not_range known n = true).
Proof.
  induction names as [|n names IH]; cbn [range_scan].
  - exists [], []. repeat split; auto.
  - destruct (not_range known n) eqn:E.
    + destruct IH as [pre [post [H1 [H2 [H3 H4]]]]]. exists (n :: pre), post.
      cbn [app]. rewrite <- H1. repeat split; auto.
    + destruct (range_scan_in known names) as [post [H1 [H2 H3]]]. exists [], post.
      cbn [app]. rewrite <- H1. repeat split; auto.
Qed.

(* with distinct titles the bound column of a title is its position *)
Lemma col_id_nodup names i n :
  NoDup names -> nth_error names i = Some n -> col_id names n = Some i.
Proof.
  intros Hnd Hi. destruct (col_id names n) as [i'|] eqn:E.
  - apply col_id_some in E. f_equal.
    assert (Hlt : (i' < length names)%nat) by (apply nth_error_Some; congruence).
    apply (proj1 (NoDup_nth_error names) Hnd i' i Hlt). congruence.
  - apply col_id_none in E. exfalso. apply E. eapply nth_error_In. exact Hi.
Qed.

(* ... so the cells of the range group stand in consecutive columns *)
Lemma range_cols_nodup (post : list str) : forall (run : list str) (cells : list cell) (pre : list str),
  NoDup (pre ++ run ++ post) ->
  Forall2 (fun n (x : cell) => nth_error (pre ++ run ++ post) (c_col x) = Some n) run cells ->
  map c_col cells = seq (length pre) (length run).
Proof.
  induction run as [|n run IH]; intros cells pre Hnd H; inversion H as [|? x ? cells' Hx Hrest]; subst.
  - reflexivity.
  - cbn [map length seq].
    assert (Hpos : nth_error (pre ++ (n :: run) ++ post) (length pre) = Some n).
    { rewrite nth_error_app2 by lia. rewrite Nat.sub_diag. reflexivity. }
    assert (Hc : c_col x = length pre).
    { assert (Hlt : (c_col x < length (pre ++ (n :: run) ++ post))%nat)
        by (apply nth_error_Some; congruence).
      apply (proj1 (NoDup_nth_error _) Hnd _ _ Hlt). congruence. }
    rewrite Hc. f_equal.
    assert (Heq : pre ++ (n :: run) ++ post = (pre ++ [n]) ++ run ++ post)
      by (rewrite <- app_assoc; reflexivity).
    rewrite Heq in Hnd, Hrest.
    rewrite (IH cells' (pre ++ [n]) Hnd Hrest). rewrite app_length. cbn. f_equal. lia.
Qed.

(* ------------------------------------------------------------------ *)
(* dictionaries with distinct keys                                     *)

Lemma assoc_set_fresh {A} k (v : A) : forall d,
  ~ In k (map fst d) -> assoc_set k v d = d ++ [(k, v)].
Proof.
  induction d as [|[k' v'] d IH]; intros H; cbn [assoc_set app]; [reflexivity|].
  destruct (str_eqb k k') eqn:E.
  - apply str_eqb_eq in E. subst. exfalso. apply H. left. reflexivity.
  - rewrite IH; [reflexivity|]. intros Hin. apply H. right. exact Hin.
Qed.

Lemma dict_of_nodup {A} (l : list (str * A)) : NoDup (map fst l) -> dict_of l = l.
Proof.
  unfold dict_of.
  assert (G : forall (l d : list (str * A)), NoDup (map fst (d ++ l)) ->
                          fold_left (fun d kv => assoc_set (fst kv) (snd kv) d) l d = d ++ l).
  { clear. induction l as [|[k v] l IH]; intros d H; cbn [fold_left fst snd].
    - rewrite app_nil_r. reflexivity.
    - rewrite assoc_set_fresh.
      + rewrite IH; rewrite <- app_assoc; [reflexivity|exact H].
      + rewrite map_app in H. apply NoDup_remove_2 in H. intros Hin. apply H.
        apply in_or_app. left. exact Hin. }
  intros H. apply (G l []). exact H.
Qed.

(* ------------------------------------------------------------------ *)
(* insertion sort: permutation, sortedness                             *)

Lemma insert_by_map {A B} (f : A -> B) (leA : A -> A -> bool) (leB : B -> B -> bool) :
  (forall x y, leB (f x) (f y) = leA x y) ->
  forall x l, insert_by leB (f x) (map f l) = map f (insert_by leA x l).
Proof.
  intros H x. induction l as [|y l IH]; cbn [map insert_by]; [reflexivity|].
  rewrite H. destruct (leA x y); [reflexivity|]. cbn [map]. rewrite IH. reflexivity.
Qed.

Lemma sort_by_map {A B} (f : A -> B) (leA : A -> A -> bool) (leB : B -> B -> bool) :
  (forall x y, leB (f x) (f y) = leA x y) ->
  forall l, sort_by leB (map f l) = map f (sort_by leA l).
Proof.
  intros H. unfold sort_by. induction l as [|x l IH]; cbn [map fold_right]; [reflexivity|].
  rewrite IH. apply insert_by_map. exact H.
Qed.

Section Sort.
  Context {A : Type} (leb : A -> A -> bool).
  Hypothesis leb_total : forall x y, leb x y = false -> leb y x = true.
  Hypothesis leb_trans : forall x y z, leb x y = true -> leb y z = true -> leb x z = true.

  (* every element is below all later ones *)
  Fixpoint ssorted (l : list A) : Prop :=
    match l with
    | [] => True
    | x :: r => Forall (fun y => leb x y = true) r /\ ssorted r
    end.

  Lemma insert_by_in x y : forall l, In y (insert_by leb x l) <-> y = x \/ In y l.
  Proof.
    induction l as [|z l IH]; cbn [insert_by].
    - cbn. intuition.
    - destruct (leb x z); cbn [In]; [intuition|]. rewrite IH. intuition.
  Qed.

  Lemma sort_by_in y : forall l, In y (sort_by leb l) <-> In y l.
  Proof.
    unfold sort_by. induction l as [|x l IH]; cbn [fold_right]; [reflexivity|].
    rewrite insert_by_in, IH. cbn [In]. intuition.
  Qed.

  Lemma insert_by_ssorted x : forall l, ssorted l -> ssorted (insert_by leb x l).
  Proof.
    induction l as [|z l IH]; intros H; cbn [insert_by].
    - cbn. auto.
    - destruct H as [H1 H2]. destruct (leb x z) eqn:E.
      + cbn [ssorted]. split; [|split; assumption]. constructor; [exact E|].
        eapply Forall_impl; [|exact H1]. intros w Hw. eapply leb_trans; eauto.
      + cbn [ssorted]. split; [|apply IH; exact H2].
        apply Forall_forall. intros w Hw. apply insert_by_in in Hw as [->|Hw].
        * apply leb_total. exact E.
        * rewrite Forall_forall in H1. apply H1. exact Hw.
  Qed.

  Lemma sort_by_ssorted : forall l, ssorted (sort_by leb l).
  Proof.
    unfold sort_by. induction l as [|x l IH]; cbn [fold_right]; [exact I|].
    apply insert_by_ssorted. exact IH.
  Qed.

  Lemma ssorted_last : forall l d x, ssorted l -> In x l -> x = last l d \/ leb x (last l d) = true.
  Proof.
    induction l as [|y l IH]; intros d x H Hin; [destruct Hin|].
    destruct H as [H1 H2]. destruct l as [|z l].
    - destruct Hin as [<-|[]]. left. reflexivity.
    - change (last (y :: z :: l) d) with (last (z :: l) d). destruct Hin as [<-|Hin].
      + right. rewrite Forall_forall in H1. apply H1.
        clear. generalize z. induction l as [|w l IH]; intros z'; [left; reflexivity|].
        change (last (z' :: w :: l) d) with (last (w :: l) d). right. apply IH.
      + apply IH; assumption.
  Qed.
End Sort.

Lemma insert_by_length {A} (leb : A -> A -> bool) x : forall l, length (insert_by leb x l) = S (length l).
Proof.
  induction l as [|y l IH]; cbn [insert_by]; [reflexivity|]. destruct (leb x y); cbn [length]; [reflexivity|].
  rewrite IH. reflexivity.
Qed.

Lemma sort_by_length {A} (leb : A -> A -> bool) : forall l, length (sort_by leb l) = length l.
Proof.
  unfold sort_by. induction l as [|x l IH]; cbn [fold_right]; [reflexivity|].
  rewrite insert_by_length, IH. reflexivity.
Qed.

(* ------------------------------------------------------------------ *)
(* the order of source cells: by column, then by row                   *)

Definition pos_le (p q : nat * nat) : Prop :=
  (snd p < snd q)%nat \/ (snd p = snd q /\ (fst p <= fst q)%nat).

Lemma pos_leb_le p q : pos_leb p q = true <-> pos_le p q.
Proof.
  unfold pos_leb, pos_le.
  destruct (Nat.ltb_spec (snd p) (snd q)), (Nat.eqb_spec (snd p) (snd q)), (Nat.leb_spec (fst p) (fst q));
    cbn; split; intros G; try reflexivity; try discriminate; lia.
Qed.

Lemma pos_leb_total p q : pos_leb p q = false -> pos_leb q p = true.
Proof.
  intros G. apply pos_leb_le. unfold pos_leb in G. unfold pos_le.
  destruct (Nat.ltb_spec (snd p) (snd q)), (Nat.eqb_spec (snd p) (snd q)), (Nat.leb_spec (fst p) (fst q));
    cbn in G; try discriminate; lia.
Qed.

Lemma pos_leb_trans p q r : pos_leb p q = true -> pos_leb q r = true -> pos_leb p r = true.
Proof. rewrite !pos_leb_le. unfold pos_le. lia. Qed.

(* ------------------------------------------------------------------ *)
(* the range text                                                      *)

Definition pos_text (p : nat * nat) : str := coord_text (fst p) (snd p).

Definition range_text_spec (ps : list (nat * nat)) : str :=
  match ps with
  | [] => marker_range_empty
  | [p] => pos_text p
  | p :: _ => pos_text p ++ [58%Z] ++ pos_text (last ps p)
  end.

Lemma last_indep {A} : forall (l : list A) x d d', last (x :: l) d = last (x :: l) d'.
Proof.
  induction l as [|y l IH]; intros x d d'; [reflexivity|].
  change (last (x :: y :: l) d) with (last (y :: l) d).
  change (last (x :: y :: l) d') with (last (y :: l) d'). apply IH.
Qed.

Lemma last_map {A B} (f : A -> B) : forall l d, last (map f l) (f d) = f (last l d).
Proof.
  induction l as [|x l IH]; intros d; [reflexivity|].
  destruct l as [|y l]; [reflexivity|].
  change (last (map f (x :: y :: l)) (f d)) with (last (map f (y :: l)) (f d)).
  change (last (x :: y :: l) d) with (last (y :: l) d). apply IH.
Qed.

Lemma last_in {A} : forall (l : list A) x d, In (last (x :: l) d) (x :: l).
Proof.
  induction l as [|y l IH]; intros x d; [left; reflexivity|].
  change (last (x :: y :: l) d) with (last (y :: l) d). right. apply IH.
Qed.

(* get_attr_origin(attr) of a ranged attribute = the text of the source cells sorted by
   (column, row): first ":" last *)
Lemma range_text_sorted (d : list (str * (nat * nat))) :
  range_text d = range_text_spec (sort_by pos_leb (map snd d)).
Proof.
  unfold range_text.
  assert (E : map (fun kv : str * (nat * nat) => coord_text (fst (snd kv)) (snd (snd kv))) d =
              map pos_text (map snd d)) by (rewrite map_map; reflexivity).
  rewrite E.
  rewrite (sort_by_map pos_text pos_leb coord_leb)
    by (intros [r c] [r' c']; apply coord_leb_pos).
  destruct (sort_by pos_leb (map snd d)) as [|p [|q r]]; try reflexivity.
  unfold range_text_spec. cbn [map]. f_equal. f_equal.
  change (last (map pos_text (p :: q :: r)) [] = pos_text (last (p :: q :: r) p)).
  cbn [map]. rewrite (last_indep (pos_text q :: map pos_text r) (pos_text p) [] (pos_text p)).
  change (pos_text p :: pos_text q :: map pos_text r) with (map pos_text (p :: q :: r)).
  apply last_map.
Qed.

(* ... for ANY recorded origins (any columns, cells of different rows as in a ladder reading,
   any insertion order): the text names a leftmost and a rightmost source cell *)
Lemma range_text_extremes_l (d : list (str * (nat * nat))) :
  match map snd d with
  | [] => range_text d = marker_range_empty
  | [p] => range_text d = pos_text p
  | _ => exists p q, In p (map snd d) /\ In q (map snd d) /\
                     (forall x, In x (map snd d) -> pos_le p x /\ pos_le x q) /\
                     range_text d = pos_text p ++ [58%Z] ++ pos_text q
  end.
Proof.
  rewrite range_text_sorted.
  pose proof (sort_by_ssorted pos_leb pos_leb_total pos_leb_trans (map snd d)) as Hs.
  pose proof (sort_by_in pos_leb) as Hin.
  pose proof (sort_by_length pos_leb (map snd d)) as Hlen.
  destruct (map snd d) as [|p1 [|p2 rest]] eqn:Eps; try reflexivity.
  destruct (sort_by pos_leb (p1 :: p2 :: rest)) as [|a [|b r]] eqn:Es; try discriminate.
  unfold range_text_spec.
  exists a, (last (a :: b :: r) a). repeat split.
  - apply Hin. rewrite Es. left. reflexivity.
  - apply Hin. rewrite Es. apply last_in.
  - apply (proj2 (Hin x _)) in H. rewrite Es in H. destruct H as [<-|H].
    + right. split; reflexivity.
    + destruct Hs as [Hs _]. rewrite Forall_forall in Hs. apply pos_leb_le. apply Hs. exact H.
  - apply (proj2 (Hin x _)) in H. rewrite Es in H.
    destruct (ssorted_last pos_leb (a :: b :: r) a x Hs H) as [->|Hl].
    + right. split; reflexivity.
    + apply pos_leb_le. exact Hl.
Qed.

(* adjacent elements in order: insertion sort leaves the list alone *)
Fixpoint adj_sorted {A} (leb : A -> A -> bool) (l : list A) : Prop :=
  match l with
  | x :: ((y :: _) as r) => leb x y = true /\ adj_sorted leb r
  | _ => True
  end.

Lemma sort_by_sorted {A} (leb : A -> A -> bool) : forall l, adj_sorted leb l -> sort_by leb l = l.
Proof.
  induction l as [|x l IH]; intros H; [reflexivity|].
  unfold sort_by in *. cbn [fold_right]. destruct l as [|y r].
  - reflexivity.
  - destruct H as [H1 H2]. rewrite (IH H2). cbn [insert_by]. rewrite H1. reflexivity.
Qed.

Lemma cols_inc_sorted : forall cells : list cell,
  (forall i j x y, (i < j)%nat -> nth_error cells i = Some x -> nth_error cells j = Some y ->
                   (c_col x < c_col y)%nat) ->
  adj_sorted pos_leb (map cpos cells).
Proof.
  induction cells as [|x cells IH]; intros H; [exact I|].
  destruct cells as [|y r]; [exact I|]. cbn [map adj_sorted]. split.
  - apply pos_leb_le. left. cbn. apply (H 0%nat 1%nat x y); auto.
  - apply IH. intros i j a b Hij Ha Hb. apply (H (S i) (S j) a b); auto. lia.
Qed.

(* object level: distinct titles, cells in strictly increasing columns (what range detection
   yields, LemmasRange.range_cols_nodup), rows arbitrary:  "<first cell>:<last cell>" *)
Lemma range_text_l names cells :
  NoDup names -> length names = length cells ->
  (forall i j x y, (i < j)%nat -> nth_error cells i = Some x -> nth_error cells j = Some y ->
                   (c_col x < c_col y)%nat) ->
  range_text (dict_of (combine names (map cpos cells))) = range_text_spec (map cpos cells).
Proof.
  intros Hnd Hl Hc.
  assert (Hfst : map fst (combine names (map cpos cells)) = names).
  { clear - Hl. revert cells Hl. induction names as [|n names IH]; intros [|x cells] Hl; cbn in *;
      try reflexivity; try discriminate. rewrite IH; [reflexivity|lia]. }
  assert (Hsnd : map snd (combine names (map cpos cells)) = map cpos cells).
  { clear - Hl. revert cells Hl. induction names as [|n names IH]; intros [|x cells] Hl; cbn in *;
      try reflexivity; try discriminate. rewrite IH; [reflexivity|lia]. }
  rewrite dict_of_nodup by (rewrite Hfst; exact Hnd).
  rewrite range_text_sorted, Hsnd.
  rewrite (sort_by_sorted pos_leb _ (cols_inc_sorted _ Hc)). reflexivity.
Qed.

(* the former witness of the string-sort defect: source cells Y2 Z2 AA2 AB2 *)
Definition wide_sheet : list (list cval) :=
  [ CStr [105] :: repeat CNone 23 ++ [CStr [121]; CStr [122]; CStr [97;97]; CStr [97;98]];
    CInt 1 :: repeat CNone 23 ++ [CInt 10; CInt 20; CInt 30; CInt 40] ].
Definition wide_cf : config :=
  mkConfig [RPlain [105] (mkConv KInt None None None) None;
            RRange true (mkConv KInt None None None) false] 1 [] false.

Definition wide_origins : list (str * (nat * nat)) :=
  [ ([121%Z], (1%nat, 24%nat)); ([122%Z], (1%nat, 25%nat));
    ([97%Z; 97%Z], (1%nat, 26%nat)); ([97%Z; 98%Z], (1%nat, 27%nat)) ].
Definition wide_text : str := [89%Z; 50%Z; 58%Z; 65%Z; 66%Z; 50%Z].     (* "Y2:AB2" *)

Lemma range_text_wide_l :
  exists o,
    read_table wide_cf wide_sheet = ([Some o], None) /\
    (exists v, nth_error (o_attrs o) 1 = Some (v, ORange wide_origins)) /\
    get_attr_origin o (Some 1%nat) None true = Ok wide_text.
Proof.
  destruct (read_table wide_cf wide_sheet) as [items e] eqn:E.
  vm_compute in E. injection E as <- <-.
  eexists. split; [reflexivity|]. split; [eexists; reflexivity|]. vm_compute. reflexivity.
Qed.

(* a ladder reading where the source cells of one ranged attribute come from different rows:
   titles Y p q, rows (2019, 5, 6) and (blank, blank, 7): the second object's range reads
   B2 (taken from the row above) and C3 *)
Definition lad_sheet : list (list cval) :=
  [ [CStr [89]; CStr [112]; CStr [113]];
    [CInt 2019; CInt 5; CInt 6];
    [CNone; CNone; CInt 7] ].
Definition lad_cf : config :=
  mkConfig [RPlain [89] (mkConv KInt None None None) None;
            RRange true (mkConv KInt None None None) false] 1 [] true.

Lemma range_text_ladder_l :
  exists o1 o2,
    read_table lad_cf lad_sheet = ([Some o1; Some o2], None) /\
    (exists v, nth_error (o_attrs o2) 1 =
               Some (v, ORange [([112%Z], (1%nat, 1%nat)); ([113%Z], (2%nat, 2%nat))])) /\
    get_attr_origin o2 (Some 1%nat) None true = Ok [66%Z; 50%Z; 58%Z; 67%Z; 51%Z].     (* "B2:C3" *)
Proof.
  destruct (read_table lad_cf lad_sheet) as [items e] eqn:E.
  vm_compute in E. injection E as <- <-.
  eexists. eexists. split; [reflexivity|]. split; [eexists; reflexivity|]. vm_compute. reflexivity.
Qed.
