"""C13  A table's reported format string reproduces the table  (ak/ppobj.py, fmt mini-language)

Notes: harness/props/c13.notes.md (model, theorem inventory, detection table)."""
import ast
import hashlib
import os

from harness.lib import pytranslate
from harness.lib import sx as SX

ID = "C13"
COQ_DIR = "C13"
RUN_MOD = "C13.Run"
MODEL_TARGETS = ["C13/Run.vo"]
PROOF_TARGETS = ["C13/Lemmas.vo", "C13/TransEq.vo"]
PROPS = ["C13/Props.v", "C13/PropsTranslated.v"]
ALLOWED_AXIOMS = []
IMPL_TIMEOUT = 10.0
COQ_SHARD = 80

RULE = ("life-cycle programs on one PPTable: constructor (fmt / limits= / skip_columns=, explicit fields with "
        "default, enum and custom-width field types), then 3-8 operations out of print, t.fmt = <generated fmt> "
        "(mostly valid: repeated fields, modifiers, break-by, fixed/ranged/'(w)'/hidden widths, blanks, limits, "
        "'*', separators only; plus a malformed stream), t.fmt = str(t.fmt), remove_columns, t.fmt.set_limits(..), rebuild through "
        "PPTable(records, fmt=str(t.fmt), fields=...), and 'check' (on copies of the table: render; "
        "t.fmt = str(t.fmt) and render; PPTable(records, fmt=str(t.fmt), same fields) and render; t.fmt = '' / ';' "
        "/ ';;' and render).  0-14 records so that small limits are exceeded.  Field names from the stated character "
        "set (blanks inside, parentheses, '<', '-', '*', non-ASCII, newline, empty) and, for the model only, names "
        "outside it.  Non-trivial = the program reaches a 'check' in a printed or re-formatted state with at least "
        "one ranged column, or exercises a rejected fmt.  SESSIONS (several tables alive in one run): 2-3 record sets "
        "of one record structure with different width needs (short / long / mixed values, different record counts), 0-2 "
        "shared PPTableFormat objects made with PPTableFormat.make, 2-4 tables created from fmt strings, with "
        "fmt_obj=<shared object> or fmt_obj=<another table's live .fmt object> (mostly over other records than the "
        "source's; limits= / skip_columns= sometimes), 5-12 interleaved operations (the ones above) on random tables, a "
        "final check of every table; after every operation str(.fmt) of ALL tables and shared objects is observed.  "
        "Non-trivial session = a check of a table with a ranged column after a table was made with fmt_obj=.  "
        "AFTER-PRINT programs: tables with break-by columns and small limits over grouped records are rendered, then a "
        "(break-by) column is removed / the limits are changed through t.fmt.set_limits, then checked, rendered, "
        "checked (the former finding stale-width-after-remove-columns, repaired by 38581d5).  NEAR-NAMES programs and "
        "sessions: field sets whose names nearly collide (equal up to letter case / case folding / Unicode NFC-NFD-NFKC / "
        "inner blanks and zero-width characters, one a prefix or suffix of another, number-like, words of the fmt "
        "vocabulary and modifier names, 'count(*)'-like), every field with values of its own length; fmt strings that "
        "name the fields in another order than the fields list; near-miss spellings that are NO field given to the "
        "setter, to fmt= / PPTableFormat.make (must be refused) and to remove_columns / skip_columns (must be ignored); "
        "a quarter of the ordinary programs and sessions draw their field names from such a cluster too.")
TRUSTED_BASE = [
    "gen/C13_Consts.v: the literal pieces of to_fmt_str, _parse_col_fmt, _parse_cols_fmt, both _get_fmt_str, "
    "_fmt_str_split, _parse_vis_lines_fmt, the keys of PPEnumFieldType._FMT_MODIFIERS and FieldType's default width "
    "bounds are read from ak/ppobj.py by harness/props/c13.py:gen_consts (ast, fail-closed)",
    "Python's int(), str(int), str.strip/split/find/endswith are modelled by hand (ASCII digits only; other decimal "
    "digits are outside the model) and tied by the correspondence check",
    "cell text lengths and value equality classes of the records are computed by the harness (len(str(v)), the enum "
    "length formula) and passed to the model; cell rendering itself is C12's subject, not modelled here",
    "for the *_translated theorems (coq/C13/PropsTranslated.v): the shared translator harness/lib/pytranslate.py (Python ast -> Gallina, "
    "fail closed, NOT verified; self test against CPython: `python -m harness.lib.pytranslate --selftest`) and coq/Common/PyLib.v "
    "(f-strings of int / str = py_str_of_int / the text, str +=, ==, `is not None` on an Optional attribute as a case split, if/else); "
    "c13.TO_FMT_STR_ATTRS: ReprColumn.to_fmt_str is translated as a function of the attributes it reads with the types "
    "ReprColumn.__init__ gives them (name: str, fmt_modifier: Optional[str], break_by: bool, min_width, max_width: int, width: "
    "Optional[int]); only the serializer of ONE column is translated -- the parser and the `cols;limits` splitter are not (they "
    "build a record object by attribute stores and use str.split / find / index / strip(), outside the subset)",
]
ASSUMPTIONS = [
    "field names are from the stated character set: no ',' ':' ';' '!' '/', no '<-', no leading/trailing white space; "
    "format modifiers without white space and without , : ; ! <",
    "width bounds are non-negative integers; record limits are non-negative integers or None (with a negative limit "
    "the renderer duplicates lines and reports a non-positive skipped count; outside the quantifier)",
    "the constructor round trip is claimed with the same fields/fields_types passed along and for tables with at "
    "least one column (a table without columns cannot be rendered at all)",
    "life points = fresh / printed / re-formatted / made with fmt_obj= from a shared format object or from another "
    "table's format object, after remove_columns() / PPTableFormat.set_limits() at any moment (also on a rendered "
    "table), with any operations on sibling tables in between",
    "all tables of a session have one record structure given as fields=[names] (+ fields_types); format objects are "
    "handed over at the moment of the construction (no format object is held across a later fmt assignment)",
]
MODELLED = ("ak/ppobj.py: ReprColumn.to_fmt_str, _ColumnsParsedFmt, ReprStructure.make (explicit fields) / "
            "_set_parsed_fmt / detect_actual_columns_widths / remove_columns, _PPTableParsedFmt, PPTableFormat "
            "(make, clone, set_limits), ReprStructure.clone / ReprColumn.clone, _PPTableImpl.__init__ (fmt= and "
            "fmt_obj= with limits= / skip_columns=) / set_fmt and the state-changing prefix of gen_ch_lines (visible "
            "lines, any_lines_skipped, width negotiation); sessions of several tables and shared format objects "
            "(functional: every clone is a deep copy).  Not modelled: cell rendering, value paths / enhanced fmt, "
            "titles other than the field name")


class ExtractError(Exception):
    pass


# ------------------------------------------------------------------ constants
def _find_class(tree, name):
    for n in ast.walk(tree):
        if isinstance(n, ast.ClassDef) and n.name == name:
            return n
    raise ExtractError(f"class {name} not found")


def _find_func(cls, name):
    for n in cls.body:
        if isinstance(n, ast.FunctionDef) and n.name == name:
            return n
    raise ExtractError(f"{cls.name}.{name} not found")


def _literals(func):
    """string / int constants of a function in source order, without the doc string and
    without what is only used to build error messages (raise / assert)."""
    out = []

    def visit(node, top=False):
        if isinstance(node, (ast.Raise, ast.Assert)):
            return
        if isinstance(node, ast.Expr) and isinstance(node.value, ast.Constant) and isinstance(node.value.value, str):
            return  # doc string / bare string statement
        if isinstance(node, ast.Constant):
            v = node.value
            if isinstance(v, bool) or v is None:
                return
            if isinstance(v, (str, int)):
                out.append(v)
                return
            raise ExtractError(f"unexpected constant {v!r} in {func.name}")
        if isinstance(node, ast.UnaryOp) and isinstance(node.op, ast.USub) and isinstance(node.operand, ast.Constant) \
                and isinstance(node.operand.value, int):
            out.append(-node.operand.value)
            return
        if isinstance(node, ast.FormattedValue):
            visit(node.value)
            out.append("{}")
            return
        for ch in ast.iter_child_nodes(node):
            visit(ch)
    for st in func.body:
        visit(st)
    return out


def _coq_lit(v):
    if isinstance(v, int):
        return f"LInt {SX.cZ(v)}"
    return f"LStr {SX.cstr(v)}"


FUNCS = [("ReprColumn", "to_fmt_str"), ("_ColumnsParsedFmt", "_parse_cols_fmt"),
         ("_ColumnsParsedFmt", "_parse_col_fmt"), ("ReprStructure", "_get_fmt_str"),
         ("_PPTableParsedFmt", "_fmt_str_split"), ("_PPTableParsedFmt", "_parse_vis_lines_fmt"),
         ("PPTableFormat", "_get_fmt_str")]


TO_FMT_STR_ATTRS = {"name": "str", "fmt_modifier": ("opt", "str"), "break_by": "bool", "min_width": "int", "max_width": "int",
                    "width": ("opt", "int")}    # what ReprColumn.to_fmt_str reads of self, with the types ReprColumn.__init__ gives them


def _translate(src):
    """ReprColumn.to_fmt_str of the current source as a function of the attributes it reads -> coq/gen/C13_Translated.v, by the
    shared translator harness/lib/pytranslate.py (fail closed); coq/C13/TransEq.v proves it equal to the hand model's col_to_str"""
    tr = pytranslate.Translator(src, pytranslate.Config(source_name="ak/ppobj.py"))
    rt = tr.add_function("ReprColumn.to_fmt_str", [], self_attrs=TO_FMT_STR_ATTRS)
    tr.check_hygiene()
    if rt != "str":
        raise pytranslate.Unsupported(f"ReprColumn.to_fmt_str returns {rt}, str expected")
    return tr.emit("ReprColumn.to_fmt_str")


def _translation_stub(reason):
    return pytranslate.stub(pytranslate.Config(source_name="ak/ppobj.py"), reason, [
        ("T_ReprColumn_to_fmt_str", "(a_name : list Z) (a_fmt_modifier : option (list Z)) (a_break_by : bool) (a_min_width a_max_width : Z) "
                                    "(a_width : option Z) : res (list Z)")])


def gen_consts(repo):
    """constants (literal extractor below) + translation (harness/lib/pytranslate.py).  The translation of THIS source (or the stub
    saying why there is none) is written even when the extractor refuses the source; any refusal is raised."""
    src = open(os.path.join(repo, "ak", "ppobj.py")).read()
    try:
        translated, terr = _translate(src), None
    except pytranslate.Unsupported as e:
        translated, terr = _translation_stub(str(e)), e
    from harness.lib import coqrun
    try:
        gens = _gen_consts_only(repo)
    except Exception:
        with coqrun.Lock():
            coqrun.write_gen("C13_Translated", translated)
        raise
    gens["C13_Translated"] = translated
    if terr is not None:
        with coqrun.Lock():
            for name, text in gens.items():
                coqrun.write_gen(name, text)
        raise ExtractError(f"translator (harness/lib/pytranslate.py): {terr}")
    return gens


def _gen_consts_only(repo):
    src = open(os.path.join(repo, "ak", "ppobj.py")).read()
    tree = ast.parse(src)
    lines = ["(* generated from ak/ppobj.py by harness/props/c13.py -- do not edit *)",
             "From Coq Require Import ZArith List.", "Import ListNotations.", "Open Scope Z_scope.",
             "Inductive lit := LStr (s : list Z) | LInt (n : Z)."]
    for cname, fname in FUNCS:
        f = _find_func(_find_class(tree, cname), fname)
        lits = _literals(f)
        if len(lits) > 60:
            raise ExtractError(f"{cname}.{fname}: unreasonable number of literals")
        lines.append(f"Definition lits_{cname.strip('_')}_{fname.strip('_')} : list lit := "
                     f"{SX.clist(_coq_lit(v) for v in lits)}.")
    # PPEnumFieldType._FMT_MODIFIERS
    enum = _find_class(tree, "PPEnumFieldType")
    mods = None
    for n in enum.body:
        if isinstance(n, ast.Assign) and len(n.targets) == 1 and isinstance(n.targets[0], ast.Name) \
                and n.targets[0].id == "_FMT_MODIFIERS":
            if not isinstance(n.value, ast.Dict) or not all(
                    isinstance(k, ast.Constant) and isinstance(k.value, str) for k in n.value.keys):
                raise ExtractError("_FMT_MODIFIERS is not a dict literal with string keys")
            mods = [k.value for k in n.value.keys]
    if not mods:
        raise ExtractError("PPEnumFieldType._FMT_MODIFIERS not found")
    # FieldType.__init__(self, min_width=1, max_width=999)
    init = _find_func(_find_class(tree, "FieldType"), "__init__")
    names = [a.arg for a in init.args.args]
    dfl = init.args.defaults
    if names != ["self", "min_width", "max_width"] or len(dfl) != 2 or not all(
            isinstance(d, ast.Constant) and isinstance(d.value, int) and not isinstance(d.value, bool) for d in dfl):
        raise ExtractError("FieldType.__init__ signature not recognised")
    lines.append(f"Definition enum_mods : list (list Z) := {SX.clist(SX.cstr(m) for m in mods)}.")
    lines.append(f"Definition ft_min : Z := {SX.cZ(dfl[0].value)}.")
    lines.append(f"Definition ft_max : Z := {SX.cZ(dfl[1].value)}.")
    return {"C13_Consts": "\n".join(lines) + "\n"}


_CONSTS_CACHE = []


def _consts_py():
    """enum modifiers / default widths as the *current* source has them (harness side)"""
    if not _CONSTS_CACHE:
        _CONSTS_CACHE.append(_consts_py_read())
    return _CONSTS_CACHE[0]


def _consts_py_read():
    repo = os.environ.get("VERIF_REPO", "/repo")
    try:
        tree = ast.parse(open(os.path.join(repo, "ak", "ppobj.py")).read())
        enum = _find_class(tree, "PPEnumFieldType")
        for n in enum.body:
            if isinstance(n, ast.Assign) and getattr(n.targets[0], "id", None) == "_FMT_MODIFIERS":
                mods = [k.value for k in n.value.keys]
        init = _find_func(_find_class(tree, "FieldType"), "__init__")
        return mods, init.args.defaults[0].value, init.args.defaults[1].value
    except Exception:
        return ["full", "val", "name"], 1, 999


# ------------------------------------------------------------------ cases
GOOD_NAMES = ["id", "name", "lv", "a b", "x(1)", "né", "名前", "a<b", "a-b", "-", "*", "3", "",
              "a\nb", "<", "->", "a.b", "[k]", "a  b", "Ω", "st", "grade", "(", ")", "a(b", "1-2", "-1",
              "a b", "x<", "<<-"[0:2]]
BAD_NAMES = ["a,b", "a:b", "a!", "a/b", " a", "a ", "a;b", "a<-b", "\ta", "!", "a　", "b\x1c", "<-"]
ENUM = {10: "Ok", 20: ("Warn", "warn"), 300: "Error state"}
ENUM_VALUES = [10, 20, 300, 7, None, 12345, 10, 20]
STR_VALUES = ["", "a", "bb", "Linus", "Arnold", "x y", "+--+", "|", "été", "long text here", "zzzzzzzzzzzz",
              "0123456789012345"]
SPACES = [" ", "  ", "\t", " ", "　"]


# ---- near-collision field names (round 4, seeded change C13-m8: the setter resolved names through a
# case-folded key).  Every name of a cluster is a DIFFERENT field: names are compared exactly, code point by
# code point (coq/C13/Model.v get_field / str_eqb), so a lookup through any coarser key - lower / casefold /
# Unicode normalisation / blanks squeezed or dropped / a prefix or a numeric value - binds a column to the
# wrong field or accepts a name that is no field.
NEAR_CLUSTERS = [
    ["n", "N"], ["id", "ID", "Id", "iD"], ["name", "Name", "NAME"], ["lv", "LV", "Lv"],
    ["\xe9", "\xc9", "e\u0301", "E\u0301", "e"],                 # case, NFC / NFD
    ["\xdf", "ss", "SS", "\u1e9e", "sS"],                          # casefold / upper of sharp s
    ["s", "\u017f", "S"], ["k", "K", "\u212a"],                      # long s, Kelvin sign
    ["i", "I", "\u0130", "\u0131", "i\u0307"],                       # dotted / dotless i
    ["\u03c9", "\u03a9", "\u2126"], ["\u03c3", "\u03c2", "\u03a3"],  # omega / Ohm sign; sigma / final sigma
    ["\xe5", "\xc5", "\u212b", "a\u030a"],                       # A ring / Angstrom sign / NFD
    ["fi", "\ufb01", "FI", "Fi"], ["a", "\uff41", "A", "\uff21"],    # ligature, full-width (NFKC)
    ["\u01c6", "\u01c5", "\u01c4"],                                  # lower / title / upper case digraph
    ["a b", "a  b", "a\xa0b", "ab", "a\tb", "a\u3000b", "a\u200bb", "A B", "a\nb"],
    ["a", "a\u200b", "\ufeffa", "a\xad", "\u200ba"],               # zero width space / BOM / soft hyphen: not stripped
    ["a", "ab", "abc", "b", "bc"], ["name", "nam", "name2", "ame", "name name", "names"],
    ["x", "x(1)", "x(", "x(1", "(1)", "x()"], ["id", "id_", "_id", "id id", "i", "d"],
    ["1", "01", "10", "1_0", "+1", "1.0", "0", "00", "1e1"], ["-1", "1", "1-2", "2", "1-", "-", "--1"],
    ["3-10(7)", "3-10", "3", "(7)", "10(7)", "3-10(7"],
    ["min", "max", "val", "name", "full", "width"], ["val", "Val", "VAL", "value", "va"],
    ["full", "Full", "ful", "fullx"], ["*", "**", "* *", "*a"], ["None", "none", "True", "", "null", "NONE"],
    ["fmt", "fields", "limits", "break", "skip"], ["count(*)", "count", "COUNT(*)", "count(", "count(*"],
]


def _name_variant_groups(n):
    """spellings a coarse lookup key would identify with n, by kind of key: letter case / Unicode
    normalisation / blanks and invisible characters / prefix, suffix, numeric value"""
    import unicodedata as ud
    groups = [[n.swapcase(), n.upper(), n.lower(), n.casefold(), n.title(), n.capitalize()],
              [ud.normalize("NFD", n), ud.normalize("NFC", n), ud.normalize("NFKC", n), ud.normalize("NFKD", n),
               ud.normalize("NFKC", n).casefold()],
              ["".join(n.split()), " ".join(n.split()), n.replace(" ", "  "), n.replace(" ", "\xa0"), n + "\u200b",
               "\ufeff" + n],
              [n[:-1], n[1:], n + n[-1:], n + "x", n + "(1)", n.lstrip("0+") if n[:1] in "0+" else "0" + n]]
    seen = {n}
    out = []
    for g in groups:
        h = []
        for v in g:
            if v not in seen and v == v.strip():
                seen.add(v)
                h.append(v)
        out.append(h)
    return out


def _name_variants(n):
    return [v for g in _name_variant_groups(n) for v in g]


def fixed_misses(names, k):
    """k spellings that are NOT in names, one per kind of coarse key where the names have such a variant"""
    out = []
    for gi in range(4):
        for j in range(len(names)):
            n = names[(j + gi) % len(names)]
            vs = [v for v in _name_variant_groups(n)[gi] if v not in names and v not in out]
            if vs:
                out.append(vs[0])
                break
    for n in names:
        for v in _name_variants(n):
            if len(out) < k and v not in names and v not in out:
                out.append(v)
    return (out + [names[0] + "xx"] * k)[:k]


def near_names(rng, nf):
    """nf distinct field names, at least two of them from one cluster of near-collisions"""
    cl = rng.choice(NEAR_CLUSTERS)
    k = min(len(cl), nf, rng.choice([2, 2, 3, 4]))
    names = rng.sample(cl, k)
    if k < nf and rng.random() < 0.3:
        names += [v for v in rng.sample(_name_variants(names[0]) or ["q"], 1) if v not in names]
    guard = 0
    while len(names) < nf and guard < 50:
        guard += 1
        n = rng.choice(rng.choice(NEAR_CLUSTERS) if rng.random() < 0.5 else GOOD_NAMES)
        if n not in names:
            names.append(n)
    rng.shuffle(names)
    return names


def near_miss(rng, n, names):
    """a spelling close to the field name n; mostly one that is NOT a field (the reference must then be
    refused by fmt= / the setter and ignored by remove_columns / skip_columns)"""
    vs = _name_variants(n)
    if not vs:
        return n + "x"
    other = [v for v in vs if v not in names]
    return rng.choice(other if other and rng.random() < 0.8 else vs)


def name_in_charset(n):
    return (not any(c in n for c in ",:;!/")) and "<-" not in n and n == n.strip()


def _sp(rng, p=0.15):
    return rng.choice(SPACES) if rng.random() < p else ""


def gen_width(rng, malformed):
    r = rng.random()
    if malformed and r < 0.5:
        return rng.choice(["x", "3-", "-3", "(3)", "3-4-5", "3(", "3)", "-2", "3--4", "1 0", "_1", "1_", "1__0", "+", "-",
                           "3-x", "()", "3(4)-5", "--1", "- 1", "\x1c3", "3:4", "0x1", "1.5", "-1(2)"])
    if r < 0.2:
        return None
    a = rng.choice([0, 1, 2, 3, 4, 5, 7, 10, 12, 25, 100, 999, 1000])
    if r < 0.45:
        return f"{_sp(rng)}{a}{_sp(rng)}"
    b = rng.choice([0, 1, 2, 3, 5, 8, 10, 15, 30, 999, 12345678901234567890])
    if r < 0.8:
        return f"{_sp(rng)}{a}{_sp(rng)}-{_sp(rng)}{b}{_sp(rng)}"
    if r < 0.9:
        w = rng.choice(["7", "", "x", "0", "-3", "(1)", "3-4"])
        return f"{a}-{b}({w})"
    if r < 0.94:
        return "-1"
    return rng.choice(["+3", "1_0", "007", "3-3", "+2-+5", "00", "1_000"])


def gen_fmt(rng, fields, mods, malformed=False, allow_neg=False, miss=0.0):
    """-> (fmt string, uses negative limits); miss = probability (per column) of a near-miss spelling of the name"""
    neg = False
    r = rng.random()
    # columns part
    if r < 0.08:
        cols = ""
    elif r < 0.13:
        cols = rng.choice(["*", "*", " *", "* "])
    else:
        n = rng.choice([1, 1, 2, 2, 3, 3, 4, 5])
        items = []
        for _ in range(n):
            f = rng.choice(fields)
            s = _sp(rng) + f["n"]
            if malformed and rng.random() < 0.15:
                s = rng.choice(["nope", "", "ID", f["n"] + "x"])
            elif rng.random() < (0.12 if malformed else miss):
                s = _sp(rng) + near_miss(rng, f["n"], [g["n"] for g in fields])
            if f["t"] == "e" and rng.random() < 0.6:
                s += "/" + rng.choice(mods)
            elif rng.random() < (0.25 if malformed else 0.02):
                s += "/" + rng.choice(["full", "x", "", " val", "name ", "VAL", "Full", "nam", "val\u200b"])
            if rng.random() < 0.25:
                s += "!"
                if malformed and rng.random() < 0.2:
                    s += "!"
            if rng.random() < (0.15 if malformed else 0.03):
                s += "<-" + rng.choice(["0", "0.1", "[k].a", ""])
            s += _sp(rng)
            w = gen_width(rng, malformed)
            if w is not None:
                s += ":" + w
                if malformed and rng.random() < 0.1:
                    s += ":" + rng.choice(["", "3"])
            items.append(s)
        cols = ",".join(items)
        if malformed and rng.random() < 0.1:
            cols += ","
    # limits part
    r = rng.random()
    if r < 0.45:
        return cols, neg
    if r < 0.55:
        lim = ""
    elif r < 0.65:
        lim = "*"
    elif malformed and r < 0.8:
        lim = rng.choice(["3", "1:2:3", "a:b", ":", "3:", ":3", "* ", "1-2", "1:*", "1 :x"])
    else:
        a = rng.choice([0, 0, 1, 1, 2, 3, 4, 6, 30])
        b = rng.choice([0, 0, 1, 1, 2, 3, 5, 20])
        if allow_neg and rng.random() < 0.5:
            a = -rng.choice([1, 2, 3])
            neg = True
        lim = f"{_sp(rng)}{a}{_sp(rng)}:{_sp(rng)}{b}{_sp(rng)}"
    s = cols + ";" + lim
    r = rng.random()
    if r < 0.1:
        s += ";"
    elif r < 0.14:
        s += ";" + rng.choice(["80", "junk", "*"])
    elif malformed and r < 0.24:
        s += ";;"
    return s, neg


def gen_fields(rng, ft_min, ft_max, flavour):
    nf = rng.choice([1, 2, 2, 3, 3, 3, 4, 5])
    pool = list(GOOD_NAMES)
    if flavour == "badnames":
        pool = GOOD_NAMES[:6] + BAD_NAMES
    names = rng.sample(pool, nf)
    if flavour == "badnames" and rng.random() < 0.3:
        # outside the stated character set (model only): a name and the same name with a blank around it
        x = rng.choice(["a", "id", "n\xe9", "a b"])
        names[:2] = rng.sample([x, x + " ", " " + x, x + "\t", "\xa0" + x], 2)
        names = list(dict.fromkeys(names))
        nf = len(names)
    elif flavour != "badnames" and nf >= 2 and rng.random() < 0.25:
        names = near_names(rng, nf)
    if flavour == "malformed" and rng.random() < 0.05:
        names[-1] = names[0]  # duplicated field name: RecordStructure raises ValueError
    fields = []
    for n in names:
        t = rng.choice(["d", "d", "d", "e", "c"])
        f = {"n": n, "t": t, "min": ft_min, "max": ft_max}
        if t == "c":
            a, b = rng.choice([(2, 4), (0, 3), (3, 3), (5, 2), (1, 8), (0, 0), (4, 40)])
            f["min"], f["max"] = a, b
        fields.append(f)
    return names, fields


def gen_program(rng, mods, ft_min, ft_max, flavour):
    """flavour: 'valid' (oracle-checked), 'badnames' (model only), 'malformed'"""
    names, fields = gen_fields(rng, ft_min, ft_max, flavour)
    nf = len(names)
    nrec = rng.choice([0, 1, 2, 3, 4, 5, 6, 7, 8, 9, 11, 14])
    if rng.random() < 0.04:
        nrec = rng.choice([51, 52, 56, 70])     # beyond PPTableFormat._DFLT_LIMIT_LINES
    recs = []
    for i in range(nrec):
        row = []
        for f in fields:
            if f["t"] == "e":
                row.append(rng.choice(ENUM_VALUES))
            else:
                k = rng.random()
                if k < 0.4:
                    row.append(rng.choice(STR_VALUES))
                elif k < 0.8:
                    row.append(rng.choice([0, 1, 1, 2, 2, 3, 10, 17, -5, 123456, 10 ** 9]))
                else:
                    row.append(None)
        recs.append(row)
    if recs and rng.random() < 0.5:
        # group some records so that break-by has runs
        recs.sort(key=lambda r: repr(r[0]))
    neg = False
    case = {"fields": fields, "recs": recs, "fmt": None, "lim": None, "skip": None, "ops": []}
    malformed = flavour == "malformed"
    if rng.random() < 0.7:
        case["fmt"], ng = gen_fmt(rng, fields, mods, malformed and rng.random() < 0.3, allow_neg=malformed)
        neg = neg or ng
    if rng.random() < 0.25:
        case["lim"] = rng.choice([[None, None], [None, 3], [2, None], [0, 0], [1, 2], [2, 2], [3, 0], [0, 4], [30, 20]])
    if rng.random() < 0.1:
        case["skip"] = rng.sample(names, rng.choice([0, 1, 1, min(2, nf)])) + rng.sample(["zz"], rng.choice([0, 1]))
    nops = rng.choice([3, 4, 5, 6, 7, 8])
    ops = []
    for _ in range(nops):
        r = rng.random()
        if r < 0.25:
            ops.append(["print"])
        elif r < 0.45:
            s, ng = gen_fmt(rng, fields, mods, malformed and rng.random() < 0.6, allow_neg=malformed)
            neg = neg or ng
            ops.append(["set", s])
        elif r < 0.55:
            ops.append(["self"])
        elif r < 0.63:
            ops.append(["remove", rng.sample(names, rng.choice([1, 1, min(2, nf)])) if rng.random() < 0.9 else ["zz"]])
        elif r < 0.69:
            ops.append(["limits", rng.choice(LIMS) if rng.random() < 0.9 else None])
        elif r < 0.74:
            ops.append(["rebuild"])
        elif r < 0.78:
            ops.append(["set", rng.choice(["", ";", ";;", " ", ";;;", "; ;"])])
        else:
            ops.append(["check"])
    if not any(o[0] == "check" for o in ops):
        ops.append(["check"])
    case["ops"] = ops
    case["flavour"] = flavour
    if neg:
        case["neglim"] = True
    return case


# record sets of one session need DIFFERENT column widths: a format (object) that carries the
# widths negotiated for one of them renders the other differently
SHORT_STR = ["", "a", "b", "bb", "|", "é"]
LONG_STR = ["long text here", "zzzzzzzzzzzz", "0123456789012345", "Arnold S.", "été été été", "+--------+", "Bartholomew"]
SHORT_INT = [0, 1, 2, 3, 7]
LONG_INT = [123456, 10 ** 9, -54321, 1234567890123]
SHORT_ENUM = [None, 7, 10]
LONG_ENUM = [300, 12345, 20]


def gen_records(rng, fields, nrec, style):
    recs = []
    for _ in range(nrec):
        row = []
        for f in fields:
            st = style if style != "mix" else rng.choice(["short", "long", "any"])
            if f["t"] == "e":
                row.append(rng.choice(SHORT_ENUM if st == "short" else LONG_ENUM if st == "long" else ENUM_VALUES))
            elif st == "any":
                row.append(rng.choice(STR_VALUES + [0, 1, 17, -5, None]))
            elif rng.random() < 0.5:
                row.append(rng.choice(SHORT_STR if st == "short" else LONG_STR))
            else:
                row.append(rng.choice(SHORT_INT if st == "short" else LONG_INT))
        recs.append(row)
    if recs and rng.random() < 0.5:
        recs.sort(key=lambda r: repr(r[0]))
    return recs


LIMS = [[None, None], [None, 3], [2, None], [0, 0], [1, 1], [1, 2], [2, 2], [3, 0], [0, 4], [30, 20]]


def gen_session(rng, mods, ft_min, ft_max, flavour):
    """flavour: 'session' (oracle-checked) or 'session-malformed' (some fmt strings malformed)"""
    malformed = flavour == "session-malformed"
    names, fields = gen_fields(rng, ft_min, ft_max, "valid")
    nf = len(names)
    styles = ["short", "long", "mix"]
    rng.shuffle(styles)
    styles = styles[:rng.choice([2, 2, 3])]
    if "long" not in styles:
        styles[0] = "long"
    sizes = {"short": [1, 2, 3, 4], "long": [2, 3, 5, 7, 9, 12], "mix": [0, 2, 6, 14]}
    recsets = [gen_records(rng, fields, rng.choice(sizes[st]), st) for st in styles]

    def a_fmt(p_none=0.2):
        if rng.random() < p_none:
            return None
        return gen_fmt(rng, fields, mods, malformed and rng.random() < 0.3, miss=0.03)[0]

    def a_lim():
        return rng.choice(LIMS) if rng.random() < 0.2 else None

    def a_skip():
        if rng.random() < 0.12:
            return rng.sample(names, rng.choice([0, 1, 1, min(2, nf)])) + rng.sample(["zz"], rng.choice([0, 1]))
        return None

    shared = [a_fmt() for _ in range(rng.choice([0, 1, 1, 1, 2]))]
    ops = []
    owner = []           # record set of each table

    def add_new():
        k = rng.randrange(len(recsets))
        ops.append(["new", k, a_fmt(0.3), a_lim(), a_skip()])
        owner.append(k)

    def add_newobj():
        srcs = [["shared", i] for i in range(len(shared))] + [["table", j] for j in range(len(owner))]
        if not srcs:
            return add_new()
        src = rng.choice(srcs)
        ks = list(range(len(recsets)))
        if src[0] == "table" and rng.random() < 0.8:
            ks = [k for k in ks if k != owner[src[1]]] or ks      # mostly OTHER records than the source table's
        k = rng.choice(ks)
        ops.append(["newobj", k, src, a_lim(), a_skip()])
        owner.append(k)

    if shared and rng.random() < 0.7:
        add_newobj()
    else:
        add_new()
    if rng.random() < 0.6:
        add_newobj()
    for _ in range(rng.choice([5, 6, 7, 8, 9, 10, 12])):
        r = rng.random()
        if r < 0.16 and len(owner) < 4:
            add_newobj()
        elif r < 0.20 and len(owner) < 4:
            add_new()
        else:
            j = rng.randrange(len(owner))
            r = rng.random()
            if r < 0.34:
                o = ["print"]
            elif r < 0.62:
                o = ["check"]
            elif r < 0.74:
                o = ["set", gen_fmt(rng, fields, mods, malformed and rng.random() < 0.6)[0]]
            elif r < 0.81:
                o = ["self"]
            elif r < 0.87:
                o = ["remove", rng.sample(names, rng.choice([1, 1, min(2, nf)])) if rng.random() < 0.9 else ["zz"]]
            elif r < 0.91:
                o = ["limits", rng.choice(LIMS) if rng.random() < 0.9 else None]
            elif r < 0.95:
                o = ["rebuild"]
            else:
                o = ["set", rng.choice(["", ";", ";;", " ", "; ;"])]
            ops.append(["op", j, o])
    while len(owner) < 2:
        add_newobj()
    order = list(range(len(owner)))
    rng.shuffle(order)
    for j in order:
        ops.append(["op", j, ["check"]])
    return {"session": 1, "fields": fields, "recsets": recsets, "shared": shared, "ops": ops, "flavour": flavour}


def _sess(fields, recsets, shared, ops, flavour="session"):
    return {"session": 1, "fields": fields, "recsets": recsets, "shared": shared, "ops": ops, "flavour": flavour}


def fixed_sessions(ft_min, ft_max):
    d = lambda n: {"n": n, "t": "d", "min": ft_min, "max": ft_max}  # noqa: E731
    f3 = [d("id"), d("name"), d("grp")]
    short = [[1, "Al", 1], [2, "Bo", 1], [3, "Cy", 2]]
    long_ = [[1000 + i, "name " + "x" * (i + 3), 10 * (i // 2)] for i in range(7)]
    P, C = ["print"], ["check"]
    return [
        # one PPTableFormat for the result tables of two queries (the way ak/mcaller_sql.py builds its tables)
        _sess(f3, [short, long_], ["id:2-8,name:1-20,grp!:3;3:2"],
              [["newobj", 0, ["shared", 0], None, None], ["newobj", 1, ["shared", 0], None, None],
               ["op", 0, C], ["op", 1, C], ["op", 0, P], ["op", 1, C], ["op", 1, P], ["op", 0, C], ["op", 1, C],
               ["newobj", 1, ["shared", 0], None, None], ["op", 2, C]]),
        # a table made from the live format object of a printed table over other records
        _sess(f3, [short, long_], [None],
              [["new", 0, "id,name,grp!", None, None], ["op", 0, P], ["newobj", 1, ["table", 0], None, None],
               ["op", 1, C], ["op", 1, P], ["op", 0, C], ["op", 1, ["self"]], ["op", 0, C], ["op", 1, C],
               ["newobj", 0, ["table", 1], [1, 1], ["grp"]], ["op", 2, C], ["op", 1, C], ["op", 2, P], ["op", 1, C],
               ["op", 0, C]]),
        # limits= / skip_columns= / remove_columns / fmt assignment on one of the siblings
        _sess(f3, [long_, short], ["name:1-6,id,grp;1:1", "*"],
              [["newobj", 0, ["shared", 0], None, None], ["newobj", 1, ["shared", 0], [0, 0], ["id"]], ["op", 0, C],
               ["newobj", 0, ["shared", 1], None, ["name"]], ["op", 1, P], ["op", 0, C], ["op", 0, ["remove", ["id"]]],
               ["op", 1, C], ["op", 2, C], ["op", 2, ["set", "grp,name:0-30;2:0"]], ["op", 2, P], ["op", 0, C],
               ["newobj", 1, ["table", 2], None, None], ["op", 3, C], ["op", 1, C], ["op", 2, C]]),
    ]


def fixed_nearnames_sessions(mods, ft_min, ft_max):
    """one deterministic session per cluster: near-miss spellings given to PPTableFormat.make and to the
    PPTable constructor (fmt=; must be refused: nothing is made), tables of the exactly spelled fmt made from
    the string, from the shared object and from a printed sibling's format object, removed / skipped columns"""
    out = []
    for ci, cl in enumerate(NEAR_CLUSTERS):
        names = list(cl[:4])
        fields = [{"n": n, "t": "d", "min": ft_min, "max": ft_max} for n in names]
        short = [["ab"[i] * (j + 1) for j in range(len(names))] for i in range(2)]
        long_ = [["pqr"[i] * (3 * j + 4 + i) for j in range(len(names))] for i in range(3)]
        misses = fixed_misses(names, 3)
        good = ",".join(n + (":1-30", "!", ":2-40", "")[j % 4] for j, n in enumerate(reversed(names)))
        P, C = ["print"], ["check"]
        ops = [["new", 0, misses[0] + "," + names[0], None, None], ["new", 1, good, None, [misses[1]]],
               ["newobj", 0, ["shared", 1], None, [names[-1], misses[2]]], ["newobj", 1, ["shared", 0], None, None],
               ["op", 1, C], ["op", 1, P], ["newobj", 0, ["table", 1], None, None], ["op", 4, C], ["op", 2, C],
               ["new", 0, names[0] + ":1-5," + misses[1] + ":-1", None, None], ["op", 4, ["remove", [misses[0], names[1]]]],
               ["op", 4, P], ["op", 4, C], ["op", 1, ["self"]], ["op", 1, C], ["op", 2, P], ["op", 2, C]]
        out.append(_sess(fields, [short, long_], [names[-1] + "," + misses[2] + ":3", good], ops, "session-near-names"))
    return out


def gen_after_print(rng, ft_min, ft_max):
    """remove_columns / set_limits on an ALREADY RENDERED table whose visible records depend on break-by
    lines and limits (the former finding stale-width-after-remove-columns): the state detected at the
    earlier rendering must not survive"""
    nf = rng.choice([2, 3, 3, 4])
    names = rng.sample(["g", "k", "name", "a b", "x(1)", "né", "lv", "-"], nf)
    fields = [{"n": n, "t": "d", "min": ft_min, "max": ft_max} for n in names]
    nrec = rng.choice([4, 5, 6, 7, 8, 9, 11, 14])
    groups = sorted(rng.choice([1, 1, 2, 2, 3]) for _ in range(nrec))
    recs = []
    for i in range(nrec):
        row = [groups[i]]
        for _ in names[1:]:
            row.append(rng.choice(["x", "yy", "zzzzzzzz", "a longer text", 1, 22, 123456, "", None]))
        recs.append(row)
    cols = []
    for j, n in enumerate(names):
        c = n + ("!" if j == 0 or rng.random() < 0.2 else "")
        r = rng.random()
        if r < 0.5:
            c += ":" + rng.choice(["1-10", "0-4", "2-30", "1-999", "3-5"])
        elif r < 0.65:
            c += ":" + rng.choice(["2", "5", "0"])
        cols.append(c)
    fmt = ",".join(cols) + ";" + rng.choice(["1:1", "2:2", "1:2", "0:2", "2:0", "3:1", "1:0", "*", "30:20"])
    ops = [["print"]]
    for _ in range(rng.choice([1, 2, 2, 3])):
        r = rng.random()
        if r < 0.45:
            ops.append(["remove", [names[0]]])
        elif r < 0.6:
            ops.append(["remove", rng.sample(names, rng.choice([1, min(2, nf)]))])
        else:
            ops.append(["limits", rng.choice(LIMS + [[1, 1], [2, 2], [0, 1]])])
        ops.append(["check"])
        if rng.random() < 0.7:
            ops.append(["print"])
            ops.append(["check"])
        if rng.random() < 0.2:
            ops.append(["self"])
    return {"fields": fields, "recs": recs, "fmt": fmt, "lim": None, "skip": None, "ops": ops, "flavour": "after-print"}


def gen_nearnames(rng, mods, ft_min, ft_max):
    """fields whose names nearly collide (equal up to case / Unicode normalisation / blanks, prefixes of each
    other, number-like, words of the fmt vocabulary and modifier names).  Every field gets values of its own
    typical length so that a column bound to the wrong field shows in the widths, and the fmt strings name
    the fields of the cluster in an order different from the fields list (a last-one-wins or first-one-wins
    lookup then picks another field).  References by a near-miss spelling that is NOT a field must be refused
    (fmt) / ignored (remove_columns, skip_columns)."""
    nf = rng.choice([2, 2, 3, 3, 4, 5])
    names = near_names(rng, nf)
    fields = []
    for n in names:
        t = "e" if (n.lower() in mods and rng.random() < 0.6) or rng.random() < 0.08 else rng.choice(["d", "d", "d", "c"])
        f = {"n": n, "t": t, "min": ft_min, "max": ft_max}
        if t == "c":
            f["min"], f["max"] = rng.choice([(2, 4), (0, 3), (1, 8), (4, 40)])
        fields.append(f)
    nrec = rng.choice([1, 2, 3, 4, 6, 9])
    lens = rng.sample([1, 2, 3, 5, 8, 11, 14, 17], nf)       # typical value length of each field
    recs = []
    for i in range(nrec):
        row = []
        for f, ln in zip(fields, lens):
            if f["t"] == "e":
                row.append(rng.choice(ENUM_VALUES))
            elif rng.random() < 0.5:
                row.append("vwxyz"[i % 5] * max(1, ln - i % 2))
            else:
                row.append(10 ** (ln - 1) + i)
        recs.append(row)

    def a_col(n, p_miss=0.0):
        f = fields[names.index(n)]
        c = _sp(rng, 0.08) + (near_miss(rng, n, names) if rng.random() < p_miss else n)
        if f["t"] == "e" and rng.random() < 0.6:
            m = rng.choice(mods)
            c += "/" + (near_miss(rng, m, mods) if rng.random() < p_miss / 2 else m)
        if rng.random() < 0.2:
            c += "!"
        r = rng.random()
        if r < 0.35:
            c += ":" + rng.choice(["1-10", "0-4", "2-30", "1-999", "3-5", "0-20"])
        elif r < 0.5:
            c += ":" + rng.choice(["2", "5", "12"])
        return c

    def a_fmt(p_miss=0.0):
        k = rng.choice([1, 2, 2, 3, nf, nf + 1])
        cols = [a_col(rng.choice(names), p_miss) for _ in range(k)]
        lim = rng.choice(["", "", "", ";*", ";1:1", ";2:3", ";0:2"])
        return ",".join(cols) + lim

    r = rng.random()
    fmt = None if r < 0.15 else "*" if r < 0.2 else a_fmt()
    skip = None
    if rng.random() < 0.15:
        skip = [rng.choice(names) if rng.random() < 0.5 else near_miss(rng, rng.choice(names), names)]
    ops = []
    for _ in range(rng.choice([3, 4, 5, 6, 7])):
        r = rng.random()
        if r < 0.22:
            ops.append(["print"])
        elif r < 0.40:
            ops.append(["self"])
        elif r < 0.58:
            ops.append(["set", a_fmt(0.0 if rng.random() < 0.6 else 0.5)])
        elif r < 0.68:
            n = rng.choice(names)
            ops.append(["remove", [n if rng.random() < 0.4 else near_miss(rng, n, names)]])
        elif r < 0.74:
            ops.append(["rebuild"])
        elif r < 0.78:
            ops.append(["set", rng.choice(["", "*", ";", "*;*"])])
        else:
            ops.append(["check"])
    ops.append(["check"])
    if rng.random() < 0.5:
        ops += [["self"], ["check"]]
    return {"fields": fields, "recs": recs, "fmt": fmt, "lim": None, "skip": skip, "ops": ops, "flavour": "near-names"}


def fixed_nearnames(mods, ft_min, ft_max):
    """one deterministic program per cluster of NEAR_CLUSTERS (whatever VERIF_SEED is): the fields of the
    cluster with values of a different length each; the fmt string names them in reverse order with ranged
    widths; check fresh / printed / re-formatted / rebuilt; near-miss spellings that are no fields are given
    to the setter (must be refused) and to remove_columns (must be ignored); one field is removed"""
    out = []
    for ci, cl in enumerate(NEAR_CLUSTERS):
        names = list(cl[:5])
        fields = [{"n": n, "t": "e" if (n in mods and ci % 2) else "d", "min": ft_min, "max": ft_max} for n in names]
        recs = []
        for i in range(3):
            recs.append([(10, 300, 20)[i] if f["t"] == "e" else "vwx"[i] * (2 * j + 3 + i) for j, f in enumerate(fields)])
        cols = []
        for j, n in enumerate(reversed(names)):
            f = fields[len(names) - 1 - j]
            c = n + ("/" + mods[j % len(mods)] if f["t"] == "e" else "") + ("!" if j == 1 else "")
            cols.append(c + (":1-30", "", ":2-40", ":0-999")[j % 4])
        misses = fixed_misses(names, 4)
        ops = [["check"], ["print"], ["check"], ["self"], ["check"], ["print"]]
        for v in misses:
            ops.append(["set", v + ":1-9," + names[0]])
        ops += [["remove", misses[:2]], ["check"], ["remove", [names[0]]], ["check"], ["rebuild"], ["print"], ["check"],
                ["set", ",".join(names)], ["print"], ["check"]]
        out.append({"fields": fields, "recs": recs, "fmt": ",".join(cols), "lim": None, "skip": misses[2:3] or None,
                    "ops": ops, "flavour": "near-names"})
    return out


def _c(fields, recs, fmt, ops, lim=None, skip=None, flavour="valid"):
    return {"fields": fields, "recs": recs, "fmt": fmt, "lim": lim, "skip": skip, "ops": ops, "flavour": flavour}


def fixed_cases(ft_min, ft_max):
    d = lambda n: {"n": n, "t": "d", "min": ft_min, "max": ft_max}  # noqa: E731
    e = lambda n: {"n": n, "t": "e", "min": ft_min, "max": ft_max}  # noqa: E731
    f3 = [d("id"), d("level"), d("name")]
    r4 = [[1, 10, "Linus"], [2, 10, "Arnold"], [3, 17, "Jerry"], [4, 7, "Elizer"]]
    r9 = [[i, i // 3, "n" * i] for i in range(9)]
    out = [
        # the witness of DESIGN.md section 7 (repaired by e5d90b4)
        _c(f3, r4, "id:3,name:2-10", [["check"], ["print"], ["check"], ["self"], ["print"], ["check"]]),
        _c(f3, r9, "id:3,name:2-10,level!;2:3", [["check"], ["print"], ["check"], ["self"], ["check"], ["rebuild"], ["check"]]),
        _c(f3, r9, None, [["print"], ["check"], ["set", ";1:1"], ["check"], ["print"], ["check"], ["rebuild"], ["print"], ["check"]]),
        _c(f3, r4, "id:5,id:10,  level:11,name:15, level:20", [["check"], ["set", ";20:20;"], ["check"], ["print"], ["check"]]),
        _c(f3, r9, "id,level,name;1:2", [["print"], ["check"], ["set", "id,level,name;4:4"], ["print"], ["check"]],
           lim=[None, None]),
        _c([d("id"), d("name"), e("status")], [[1, "user 01", 10], [2, "user 02", 999], [3, "u", None]],
           None, [["set", "id, status/name, status/full, status/val, status"], ["check"], ["print"], ["check"], ["self"],
                  ["check"]]),
        _c([d("grade"), d("name")], [[10, "Arnold"], [10, "Arnold"], [20, "Arnold"]], "grade!:0, name",
           [["check"], ["print"], ["check"]]),
        _c(f3, r9, "id:-1,name:1-4,level!:0-2;0:0", [["check"], ["print"], ["check"], ["remove", ["name"]], ["print"]]),
        _c(f3, r9, "*;*", [["check"], ["remove", ["id", "level", "name"]], ["print"], ["set", ""], ["set", "*"], ["check"]]),
        # more records than the documented default limits (30 + 20 + 1)
        _c(f3, [[i, i % 7, "n" * (i % 11)] for i in range(56)], None,
           [["check"], ["print"], ["check"], ["rebuild"], ["print"], ["check"], ["set", "name:1-5,id;30:20"], ["print"],
            ["check"], ["set", ";*"], ["print"], ["check"]]),
        _c(f3, [[i, i // 9, "n" * (i % 5)] for i in range(60)], "id,level!:2,name:0-3", [["print"], ["check"], ["self"], ["check"]],
           lim=[40, None]),
        # the witness of the former finding stale-width-after-remove-columns (repaired by 38581d5): a break-by column
        # removed / the limits changed after a rendering
        _c([d("g"), d("k"), d("name")], [[1, 0, "x"], [2, 1, "yyyyyyyy"]] + [[2, i, "z"] for i in range(2, 7)],
           "g!:2,k:1,name:1-10;2:2", [["print"], ["remove", ["g"]], ["check"], ["print"], ["check"], ["limits", [1, 1]],
                                       ["check"], ["print"], ["check"]]),
        _c([d("g"), d("k"), d("name")], [[1, 0, "x"], [2, 1, "yyyyyyyy"]] + [[2, i, "z"] for i in range(2, 7)],
           "k,name:1-10;1:1", [["print"], ["limits", [3, 3]], ["check"], ["print"], ["limits", [1, 1]], ["check"],
                               ["limits", None], ["check"], ["remove", ["zz"]], ["check"]]),
    ]
    return out


N_SESSIONS_QUICK = 170


def gen_cases(rng, tier):
    mods, ft_min, ft_max = _consts_py()
    big = tier == "thorough"
    cases = fixed_cases(ft_min, ft_max)
    n = 6000 if big else 420
    for i in range(n):
        k = i % 10
        flavour = "valid" if k < 7 else ("malformed" if k < 9 else "badnames")
        cases.append(gen_program(rng, mods, ft_min, ft_max, flavour))
    for i in range(600 if big else 40):
        cases.append(gen_after_print(rng, ft_min, ft_max))
    cases.extend(fixed_nearnames(mods, ft_min, ft_max))
    for i in range(900 if big else 70):
        cases.append(gen_nearnames(rng, mods, ft_min, ft_max))
    cases.extend(fixed_sessions(ft_min, ft_max))
    cases.extend(fixed_nearnames_sessions(mods, ft_min, ft_max))
    for i in range(2400 if big else N_SESSIONS_QUICK):
        cases.append(gen_session(rng, mods, ft_min, ft_max, "session-malformed" if i % 8 == 7 else "session"))
    return cases


def search_cases(rng, tier):
    mods, ft_min, ft_max = _consts_py()
    out = fixed_cases(ft_min, ft_max)
    for _ in range(3000):
        out.append(gen_program(rng, mods, ft_min, ft_max, "valid"))
    for _ in range(500):
        out.append(gen_after_print(rng, ft_min, ft_max))
    out.extend(fixed_nearnames(mods, ft_min, ft_max))
    for _ in range(800):
        out.append(gen_nearnames(rng, mods, ft_min, ft_max))
    out.extend(fixed_sessions(ft_min, ft_max))
    out.extend(fixed_nearnames_sessions(mods, ft_min, ft_max))
    for _ in range(1500):
        out.append(gen_session(rng, mods, ft_min, ft_max, "session"))
    return out


def kind(case):
    return case.get("flavour", "valid")


# ------------------------------------------------------------------ implementation
def _render(t):
    """-> (observation of the view, sha1 of the coloured text)"""
    try:
        plain = str(t.ch_text(no_color=True))
        col = str(t)
    except BaseException as e:  # noqa
        if type(e).__name__ == "Hang":
            raise
        return ["err", SX.exc_name(e)], None
    lines = plain.split("\n")
    idx = [i for i, l in enumerate(lines) if l.startswith("+")]
    if len(idx) != 3 or idx[0] != 0:
        return ["err", "BadLayout"], None
    widths = [len(x) for x in lines[0][1:-1].split("+")]
    nbody = idx[2] - idx[1] - 1
    h = hashlib.sha1((plain + "\x00" + col).encode("utf-8", "surrogatepass")).hexdigest()[:16]
    return ["ok", widths, nbody], h


def _try(fn):
    try:
        return ["ok", fn()]
    except BaseException as e:  # noqa
        if type(e).__name__ == "Hang":
            raise
        return ["err", SX.exc_name(e)]


def _impl_env(case):
    from ak import ppobj
    enum_t = ppobj.PPEnumFieldType(dict(ENUM))
    names = [f["n"] for f in case["fields"]]
    ftypes = {}
    for f in case["fields"]:
        if f["t"] == "e":
            ftypes[f["n"]] = enum_t
        elif f["t"] == "c":
            ftypes[f["n"]] = ppobj.FieldType(min_width=f["min"], max_width=f["max"])
    return ppobj, names, ftypes


def _printed(tab):
    v, h = _render(tab)
    return {"view": v, "fmt": str(tab.fmt), "h": h}


def _then_print(mk):
    r = _try(mk)
    if r[0] == "err":
        return {"err": r[1]}
    tab = r[1]
    d = {"fmt0": str(tab.fmt)}
    d.update(_printed(tab))
    return d


def _table_op(ppobj, t, o, build, recs):
    """one life-cycle operation on table t -> (table afterwards, observation).
    build(fmt) = PPTable(<records of t>, fmt=fmt, <fields of t>)"""
    import copy
    k = o[0]
    if k == "print":
        return t, _printed(t)
    if k == "set" or k == "self":
        s = o[1] if k == "set" else str(t.fmt)

        def do():
            t.fmt = s
            return str(t.fmt)
        return t, _try(do)
    if k == "remove":
        t.remove_columns(list(o[1]))
        return t, str(t.fmt)
    if k == "limits":
        t.fmt.set_limits(None if o[1] is None else tuple(o[1]))
        return t, str(t.fmt)
    if k == "rebuild":
        r = _try(lambda: build(str(t.fmt)))
        if r[0] == "ok":
            return r[1], ["ok", str(r[1].fmt)]
        return t, r
    if k == "check":
        s = str(t.fmt)

        def via_setter(x):
            def mk():
                c = copy.deepcopy(t)
                c.fmt = x
                return c
            return mk
        d = {"s": s,
             "A": _printed(copy.deepcopy(t)),
             "B": _then_print(via_setter(s)),
             "C": _then_print(lambda: build(s)),
             "E": [_then_print(via_setter(x)) for x in ("", ";", ";;")],
             # the reported format OBJECT handed to the constructor (of a copy: 'check' must not touch t)
             "D": _then_print(lambda: ppobj.PPTable(recs, fmt_obj=copy.deepcopy(t).fmt))}
        return t, d
    raise ValueError(k)


def impl_run(case):
    if case.get("session"):
        return impl_run_session(case)
    ppobj, names, ftypes = _impl_env(case)
    recs = [tuple(r) for r in case["recs"]]

    def build(fmt, lim=None, skip=None):
        kw = {}
        if lim is not None:
            kw["limits"] = tuple(lim)
        if skip is not None:
            kw["skip_columns"] = skip
        return ppobj.PPTable(recs, fmt=fmt, fields=list(names), fields_types=dict(ftypes), **kw)

    r = _try(lambda: build(case["fmt"], case["lim"], case["skip"]))
    if r[0] == "err":
        return {"init": r}
    t = r[1]
    out = {"init": ["ok", str(t.fmt)], "steps": []}
    for o in case["ops"]:
        t, ob = _table_op(ppobj, t, o, build, recs)
        out["steps"].append(ob)
    return out


def impl_run_session(case):
    """several tables alive at once; tables made from fmt strings, from shared PPTableFormat objects
    and from other tables' .fmt objects; after every operation str(.fmt) of ALL of them is recorded"""
    ppobj, names, ftypes = _impl_env(case)
    recsets = [[tuple(r) for r in rs] for rs in case["recsets"]]

    def kwargs(lim, skip):
        kw = {}
        if lim is not None:
            kw["limits"] = tuple(lim)
        if skip is not None:
            kw["skip_columns"] = list(skip)
        return kw

    shared, shared_obs = [], []
    for f in case["shared"]:
        r = _try(lambda: ppobj.PPTableFormat.make(f, list(names), dict(ftypes), None))
        shared.append(r[1] if r[0] == "ok" else None)
        shared_obs.append(["ok", str(r[1])] if r[0] == "ok" else r)
    tables = []          # [table or None, index of its record set]
    out = {"shared": shared_obs, "steps": []}
    for m in case["ops"]:
        k = m[0]
        if k == "new":
            _, rk, fmt, lim, skip = m
            r = _try(lambda: ppobj.PPTable(recsets[rk], fmt=fmt, fields=list(names), fields_types=dict(ftypes),
                                           **kwargs(lim, skip)))
            tables.append([r[1] if r[0] == "ok" else None, rk])
            ob = ["ok", str(r[1].fmt)] if r[0] == "ok" else r
        elif k == "newobj":
            _, rk, src, lim, skip = m
            if src[0] == "shared":
                fo = shared[src[1]] if src[1] < len(shared) else None
            else:
                st = tables[src[1]][0] if src[1] < len(tables) else None
                fo = st.fmt if st is not None else None
            if fo is None:
                tables.append([None, rk])
                ob = ["absent"]
            else:
                r = _try(lambda: ppobj.PPTable(recsets[rk], fmt_obj=fo, **kwargs(lim, skip)))
                tables.append([r[1] if r[0] == "ok" else None, rk])
                ob = ["ok", str(r[1].fmt)] if r[0] == "ok" else r
        elif k == "op":
            _, j, o = m
            ent = tables[j] if j < len(tables) else None
            if ent is None or ent[0] is None:
                ob = ["absent"]
            else:
                rk = ent[1]

                def build(fmt, rk=rk):
                    return ppobj.PPTable(recsets[rk], fmt=fmt, fields=list(names), fields_types=dict(ftypes))
                ent[0], ob = _table_op(ppobj, ent[0], o, build, recsets[rk])
        else:
            raise ValueError(k)
        snap = [(None if e[0] is None else str(e[0].fmt)) for e in tables] + \
               [(None if f is None else str(f)) for f in shared]
        out["steps"].append({"ob": ob, "snap": snap})
    return out


# ------------------------------------------------------------------ model side
def _title_w(name):
    return max(len(l.strip()) for l in name.split("\n"))


def _enum_lens(v, mods):
    """[len for None, len for each modifier in mods order] (PPEnumFieldType._make_len_cache_for_val)"""
    max_val_len = max(len(str(x)) for x in ENUM if x is not None)
    if v in ENUM:
        nm = ENUM[v]
        nm = nm[0] if isinstance(nm, (list, tuple)) else nm
        val_len = max_val_len
    elif v is None:
        return [4] * (1 + len(mods))
    else:
        nm = "<???>"
        val_len = max(max_val_len, len(str(v)))
    by = {"val": val_len, "name": len(nm), "full": val_len + 1 + len(nm)}
    return [by["full"]] + [by.get(m, 0) for m in mods]


def _mods_of(case):
    return _consts_py()[0]


def _coq_fields(case):
    fields = []
    for f in case["fields"]:
        m = "enum_mods" if f["t"] == "e" else "[]"
        fields.append(f"mkField {SX.cstr(f['n'])} {m} {SX.cZ(f['min'])} {SX.cZ(f['max'])} {SX.cZ(_title_w(f['n']))}")
    return SX.clist(fields)


def _coq_rows(case, recs, ids, mods):
    rows = []
    for r in recs:
        cells = []
        for j, v in enumerate(r):
            key = (type(v).__name__, v)
            vid = ids[j].setdefault(key, len(ids[j]))
            f = case["fields"][j]
            lens = _enum_lens(v, mods) if f["t"] == "e" else [len(str(v))]
            cells.append(f"mkCell {vid} {SX.cZlist(lens)}")
        rows.append(SX.clist(cells))
    return SX.clist(rows)


def _coq_op(o):
    k = o[0]
    if k == "print":
        return "OPrint"
    if k == "set":
        return f"OSet {SX.cstr(o[1])}"
    if k == "self":
        return "OSelf"
    if k == "remove":
        return f"ORemove {SX.clist(SX.cstr(n) for n in o[1])}"
    if k == "limits":
        return f"OLimits {SX.copt(o[1], _coq_lim)}"
    if k == "rebuild":
        return "ORebuild"
    return "OCheck"


def _coq_lim(l):
    return "(" + SX.copt(l[0], SX.cZ) + ", " + SX.copt(l[1], SX.cZ) + ")"


def _coq_skip(s):
    return SX.clist(SX.cstr(n) for n in s)


def coq_case(case, obs):
    mods = _mods_of(case)
    ids = [dict() for _ in case["fields"]]
    if case.get("session"):
        ops = []
        for m in case["ops"]:
            if m[0] == "new":
                ops.append(f"MNew {m[1]} {SX.copt(m[2], SX.cstr)} {SX.copt(m[3], _coq_lim)} {SX.copt(m[4], _coq_skip)}")
            elif m[0] == "newobj":
                src = f"(SShared {m[2][1]})" if m[2][0] == "shared" else f"(STable {m[2][1]})"
                ops.append(f"MNewObj {m[1]} {src} {SX.copt(m[3], _coq_lim)} {SX.copt(m[4], _coq_skip)}")
            else:
                ops.append(f"MOp {m[1]} ({_coq_op(m[2])})")
        return ("Session " + _coq_fields(case) + " " + SX.clist(_coq_rows(case, rs, ids, mods) for rs in case["recsets"])
                + " " + SX.clist(SX.copt(f, SX.cstr) for f in case["shared"]) + " " + SX.clist(ops))
    return ("Single (mkCase " + _coq_fields(case) + " " + _coq_rows(case, case["recs"], ids, mods) + " "
            + SX.copt(case["fmt"], SX.cstr) + " " + SX.copt(case["lim"], _coq_lim) + " "
            + SX.copt(case["skip"], _coq_skip) + " " + SX.clist(_coq_op(o) for o in case["ops"]) + ")")


def _sx_res_str(r):
    return [0, SX.s(r[1])] if r[0] == "ok" else SX.err(r[1])


def _sx_printed(d):
    v = d["view"]
    vs = [0, [list(v[1]), v[2]]] if v[0] == "ok" else SX.err(v[1])
    return [vs, SX.s(d["fmt"])]


def _sx_then(d):
    if "err" in d:
        return SX.err(d["err"])
    return [0, SX.s(d["fmt0"]), _sx_printed(d)]


HP = 2305843009213693951


def hash_sx(x):
    """the digest of coq/C13/Run.v:hash_sx on the nested-list form of an observation"""
    if isinstance(x, bool):
        x = int(x)
    if isinstance(x, int):
        return (1000003 * x + 12345) & HP
    acc = 98765
    for e in x:
        acc = ((acc * 1000003 + hash_sx(e) + 7)) & HP
    return acc


def _sx_op(o, st):
    """nested-list form of the observation of one table operation (Run.step)"""
    k = o[0]
    if k == "print":
        return _sx_printed(st)
    if k in ("set", "self", "rebuild"):
        return _sx_res_str(st)
    if k in ("remove", "limits"):
        return SX.s(st)
    return [_sx_printed(st["A"]), _sx_then(st["B"]), _sx_then(st["C"])] + [_sx_then(x) for x in st["E"]] + [_sx_then(st["D"])]


ABSENT = [2]


def _sx_opt_str(x):
    return ABSENT if x is None else [0, SX.s(x)]


def expected_full(case, obs):
    """nested-list form of the complete observation (what Run.run_full computes)"""
    if case.get("session"):
        steps = []
        for m, st in zip(case["ops"], obs["steps"]):
            ob = st["ob"]
            if ob == ["absent"]:
                x = ABSENT
            elif m[0] in ("new", "newobj"):
                x = _sx_res_str(ob)
            else:
                x = _sx_op(m[2], ob)
            steps.append([x, [_sx_opt_str(f) for f in st["snap"]]])
        return [0, [_sx_res_str(r) for r in obs["shared"]], steps]
    if obs["init"][0] == "err":
        return SX.err(obs["init"][1])
    steps = [_sx_op(o, st) for o, st in zip(case["ops"], obs["steps"])]
    return [0, SX.s(obs["init"][1]), steps]


def expected_sx(case, obs):
    full = expected_full(case, obs)
    if full[0] == 1:
        return SX.dumps(full)
    return SX.dumps([0, hash_sx(full[1]), [hash_sx(x) for x in full[2]]])


def _all_fmt_texts(case):
    if case.get("session"):
        texts = [f or "" for f in case["shared"]]
        for m in case["ops"]:
            if m[0] == "new":
                texts.append(m[2] or "")
            elif m[0] == "op" and m[2][0] == "set":
                texts.append(m[2][1])
        return texts
    return [case["fmt"] or ""] + [o[1] for o in case["ops"] if o[0] == "set"]


def in_model(case, obs):
    # decimal digits other than 0-9 are accepted by int() but are outside the model
    texts = _all_fmt_texts(case)
    return not any(c.isdigit() and not ("0" <= c <= "9") for t in texts for c in t)


# ------------------------------------------------------------------ oracle (the statement, independently)
class _Judge:
    """the statement, checked on the observations of ONE table along its life"""

    def __init__(self, fmt0, neg, what):
        self.neg = neg
        self.printed = False      # widths negotiated since the last (re)format
        self.stale = None         # a column was removed / the limits were changed after a rendering: the
        #                           failures at such points keep their own signatures (former finding, fixed by 38581d5)
        self.prev_fmt = fmt0
        self.hist = []
        self.what = what
        self.out = []

    def note(self, text):
        self.hist.append(text)

    def feed(self, o, st):
        out = self.out
        k = o[0]
        self.hist.append(k if k not in ("set", "limits", "remove") else f"{k} {o[1]!r}")
        where = f"after [{', '.join(self.hist)}] {self.what() if callable(self.what) else self.what}"
        if k == "print":
            self.printed = True
            self.prev_fmt = st["fmt"]
        elif k == "set":
            if st[0] == "ok":
                self.printed, self.stale = False, None
                self.prev_fmt = st[1]
        elif k in ("self", "rebuild"):
            if st[0] != "ok":
                out.append(("fmt-str-not-accepted",
                            f"str(t.fmt) = {self.prev_fmt!r} rejected by the {'setter' if k == 'self' else 'constructor'} "
                            f"with {st[1]} {where}"))
            else:
                self.printed, self.stale = False, None
                self.prev_fmt = st[1]
        elif k == "remove":
            if self.printed and st != self.prev_fmt:
                self.stale = self.stale or "stale-width-after-remove-columns"
            self.prev_fmt = st
        elif k == "limits":
            if self.printed and o[1] is not None:
                self.stale = self.stale or "stale-state-after-set-limits"
                if any(isinstance(x, int) and x < 0 for x in o[1]):
                    self.neg = True
            self.prev_fmt = st
        elif k == "check":
            s = st["s"]
            a = st["A"]
            has_cols = bool(s.split(";")[0])
            routes = [("setter", st["B"])] + ([("constructor", st["C"])] if has_cols else [])
            for nm, d in routes:
                if "err" in d:
                    out.append(("fmt-str-not-accepted", f"str(t.fmt) = {s!r} rejected by the {nm} with {d['err']} {where}"))
            for x, d in zip(("", ";", ";;"), st["E"]):
                if "err" in d:
                    out.append(("empty-fmt-rejected", f"t.fmt = {x!r} raised {d['err']} {where}"))
            if a["view"][0] != "ok":
                return         # the table cannot be rendered at all (no columns): nothing to compare
            for nm, d in routes:
                if "err" in d:
                    continue
                if nm == "constructor" and self.neg:
                    continue
                sig = self.stale or "rendering-differs"
                if d["h"] != a["h"]:
                    out.append((sig, f"rendering through the {nm} with str(t.fmt) = {s!r} differs from the table's "
                                     f"own rendering: {d['view']} vs {a['view']} {where}"))
                elif d["fmt"] != a["fmt"]:
                    out.append(("fmt-state-differs", f"after rendering, the fmt through the {nm} is {d['fmt']!r}, "
                                                     f"the table's own is {a['fmt']!r} {where}"))
            for x, d in zip(("", ";", ";;"), st["E"]):
                if "err" in d:
                    continue
                if d["h"] != a["h"] or d["fmt"] != a["fmt"]:
                    sig = self.stale or "empty-fmt-changes"
                    out.append((sig, f"t.fmt = {x!r} changed the table: {d['view']} {d['fmt']!r} vs "
                                     f"{a['view']} {a['fmt']!r} {where}"))


def oracle(case, obs):
    if "__hang__" in obs:
        return [("hang", "the life-cycle program did not return")]
    if case.get("flavour", "valid") == "badnames" or not all(name_in_charset(f["n"]) for f in case["fields"]):
        return []      # names outside the stated character set: nothing is demanded
    fields = [f["n"] for f in case["fields"]]
    if case.get("session"):
        return oracle_session(case, obs, fields)
    if obs["init"][0] == "err":
        return []
    neg = bool(case.get("neglim")) or any(isinstance(x, int) and x < 0 for x in (case["lim"] or []))
    j = _Judge(obs["init"][1], neg, f"on fmt={case['fmt']!r} fields={fields}")
    for o, st in zip(case["ops"], obs["steps"]):
        j.feed(o, st)
    return j.out


def _neg_lim(lim):
    return any(isinstance(x, int) and x < 0 for x in (lim or []))


def oracle_session(case, obs, fields):
    """every table of the session is judged on its own operations, whatever happened to the
    other tables and format objects in between (which is where a shared / aliased format shows)"""
    neg = bool(case.get("neglim"))
    judges = []
    trail = []
    for m, st in zip(case["ops"], obs["steps"]):
        ob = st["ob"]
        k = m[0]
        if k in ("new", "newobj"):
            idx = len(judges)
            if k == "new":
                how = f"tables[{idx}] = PPTable(records[{m[1]}], fmt={m[2]!r}, limits={m[3]}, skip_columns={m[4]})"
            else:
                srcs = f"shared[{m[2][1]}]" if m[2][0] == "shared" else f"tables[{m[2][1]}].fmt"
                how = f"tables[{idx}] = PPTable(records[{m[1]}], fmt_obj={srcs}, limits={m[3]}, skip_columns={m[4]})"
            trail.append(how)
            if ob[0] == "ok":
                judges.append(_Judge(ob[1], neg or _neg_lim(m[3]),
                                     lambda idx=idx: f"on tables[{idx}] of the session [{'; '.join(trail)}] "
                                                     f"shared={case['shared']!r} fields={fields}"))
            else:
                judges.append(None)
        else:
            j = judges[m[1]] if m[1] < len(judges) else None
            o = m[2]
            trail.append(f"tables[{m[1]}]: " + (o[0] if o[0] != "set" else f"set {o[1]!r}"))
            if j is None or ob == ["absent"]:
                continue
            j.feed(o, ob)
    out = []
    for j in judges:
        if j is not None:
            out.extend(j.out)
    return out


def _steps_of(case, obs):
    """(table operation, its observation) pairs of a program of either shape"""
    if case.get("session"):
        return [(m[2], st["ob"]) for m, st in zip(case["ops"], obs["steps"])
                if m[0] == "op" and st["ob"] != ["absent"]]
    return list(zip(case["ops"], obs["steps"]))


def nontrivial(case, obs):
    if "__hang__" in obs:
        return False
    if case.get("session"):
        made = [i for i, (m, st) in enumerate(zip(case["ops"], obs["steps"])) if m[0] == "newobj" and st["ob"][0] == "ok"]
        if not made:
            return False
        for m, st in list(zip(case["ops"], obs["steps"]))[made[0]:]:
            if m[0] == "op" and m[2][0] == "check" and st["ob"] != ["absent"] and "-" in st["ob"]["s"].split(";")[0]:
                return True
        return False
    if obs["init"][0] == "err":
        return False
    seen_change = False
    for o, st in zip(case["ops"], obs["steps"]):
        if o[0] in ("print", "set", "self", "rebuild"):
            seen_change = True
        if o[0] == "set" and st[0] == "err":
            return True
        if o[0] == "check" and seen_change and "-" in st["s"].split(";")[0]:
            return True
    return False


def outcome(case, obs):
    if "__hang__" in obs:
        return "hang"
    if not case.get("session") and obs["init"][0] == "err":
        return "ctor:" + obs["init"][1]
    errs = sorted({st[1] for o, st in _steps_of(case, obs)
                   if o[0] in ("set", "self", "rebuild") and st[0] == "err"})
    if case.get("session"):
        errs = sorted(set(errs) | {st["ob"][1] for m, st in zip(case["ops"], obs["steps"])
                                   if m[0] in ("new", "newobj") and st["ob"][0] == "err"})
    return "ok" if not errs else "set:" + "+".join(errs)


def shrink_candidates(case):
    ops = case["ops"]
    if case.get("session"):
        def is_check(m):
            return m[0] == "op" and m[2][0] == "check"
        nchk = sum(1 for m in ops if is_check(m))
        for i in range(len(ops)):
            if ops[i][0] != "op":
                continue            # removing a construction would renumber the tables
            if not is_check(ops[i]) or nchk > 1:
                c = dict(case)
                c["ops"] = ops[:i] + ops[i + 1:]
                yield c
        for k, recs in enumerate(case["recsets"]):
            for i in range(len(recs)):
                c = dict(case)
                c["recsets"] = [r if kk != k else recs[:i] + recs[i + 1:] for kk, r in enumerate(case["recsets"])]
                yield c
        return
    for i in range(len(ops)):
        if ops[i][0] != "check" or sum(1 for o in ops if o[0] == "check") > 1:
            c = dict(case)
            c["ops"] = ops[:i] + ops[i + 1:]
            yield c
    recs = case["recs"]
    for i in range(len(recs)):
        c = dict(case)
        c["recs"] = recs[:i] + recs[i + 1:]
        yield c
    for key in ("lim", "skip"):
        if case.get(key) is not None:
            c = dict(case)
            c[key] = None
            yield c


TECHNIQUE = ("Second tie (serializer of one column only): ReprColumn.to_fmt_str is translated from the current source to Gallina on every run by "
             "the shared fail-closed translator harness/lib/pytranslate.py (coq/gen/C13_Translated.v), proved equal to the hand model's "
             "col_to_str (coq/C13/TransEq.v) and col_roundtrip is restated with it (coq/C13/PropsTranslated.v).  First tie: "
             "Coq proofs (induction over strings / column lists / record lists) on a hand-written Gallina model of the fmt "
             "mini-language and the table's format state (incl. tables made from format objects and sessions of several "
             "tables) + per-run correspondence check on life-cycle programs and multi-table sessions "
             "(vm_compute vs implementation) + literal pieces of serializer and parser regenerated from the source")
LEVEL_TEXT = ("Full at the level of the format state, for the stated domain: col_roundtrip (parse_col (to_str c) = Ok c-without-"
              "negotiated-width for EVERY column whose name has no , : ; ! / and no '<-' and no outer white space, any "
              "modifier without white space and , : ; ! <, any bounds >= 0, any negotiated width), int_roundtrip, "
              "fmt_parse_roundtrip, fmt_setter_roundtrip and fmt_ctor_roundtrip (accepted in every well-formed state - "
              "fresh, printed with any_lines_skipped false or true, re-formatted - giving the same columns, modifiers, "
              "break-by marks, bounds and limits; the constructor drops limits that were not exceeded), empty_fmt_noop "
              "('' ';' ';;' in any state), print_stable, and reachable_wf_coherent + roundtrip_at_any_moment: for ALL "
              "histories of constructor / fmt assignments (any string) / renderings / remove_columns over unbounded "
              "column lists, records and strings, the state is well formed and coherent and the three routes hand the "
              "renderer the SAME VIEW (column widths, visible lines, skipped count): negotiate-idempotence and "
              "limits-irrelevant-when-not-exceeded are proved, the latter for non-negative limits.  'Exactly the same "
              "rendering' is tied to the rendering of cells (C12's subject, not modelled here) only through this format "
              "state / view; equality of the rendered text itself is checked on the implementation by the oracle "
              "(coloured and plain text of the table, of t.fmt = str(t.fmt), of PPTable(records, fmt=str(t.fmt), same "
              "fields) and of '' ';' ';;' on copies of the table at every 'check' step).  Tables made from format OBJECTS: "
              "reachable has the constructor R_obj (PPTable(records, fmt_obj=<any reachable state of a table over ANY "
              "records>, limits=, skip_columns=)), so reachable_wf_coherent / roundtrip_at_any_moment cover such tables; "
              "fmt_obj_state_fresh, fmt_obj_same_view, fmt_obj_own_widths (a table made from another table's format "
              "object shows the widths negotiated from its OWN records), session_tables_reachable + "
              "session_roundtrip_at_any_moment (every table of every session of the kind the correspondence runs - shared "
              "PPTableFormat objects, tables made from strings / shared objects / other tables' .fmt, any interleaving of "
              "operations - satisfies the property after any prefix), session_siblings_untouched (model: an operation "
              "changes only its own table).  That the implementation's mutable ReprColumn / ReprStructure / PPTableFormat "
              "objects behave like this deep-copy model is TESTED by the correspondence on generated sessions (digest of "
              "every step + str(.fmt) of all tables and shared objects after every step) and by the oracle per table.  "
              "remove_columns and PPTableFormat.set_limits are "
              "unrestricted members of the histories (R_remove, R_limits without side conditions): since the repair "
              "38581d5 they forget the negotiated widths and any_lines_skipped (remove_columns_resets, "
              "remove_and_limits_keep_coherent; remove_break_column_repaired is the witness of the former finding "
              "stale-width-after-remove-columns, now with equal views).  Field names are resolved EXACTLY: field_lookup_exact "
              "(a name denotes the field with literally that name, a spelling that is no field name denotes nothing, pairwise "
              "different names - however similar: letter case, Unicode normalisation, blanks, prefixes, numeric value - each "
              "resolve to their own field), columns_named_as_written (setter and constructor), roundtrip_keeps_fields, "
              "witness_near_names; that the implementation resolves names the same way in the setter, the constructor, "
              "PPTableFormat.make, remove_columns and skip_columns is TESTED on field sets with near-colliding names (one "
              "deterministic program and one session per cluster of NEAR_CLUSTERS + random ones).  Outside the claim: value "
              "paths / enhanced fmt (DESIGN section 7), tables without columns, negative limits.  The literal pieces of serializer and parser, the enum "
              "modifiers and FieldType's default bounds are re-read from the source on every run (consts_ok).")
LEVEL_NOTE = ("translated_to_fmt_str_eq / col_roundtrip_translated (coq/C13/PropsTranslated.v, closed): trusted = the translator "
              "harness/lib/pytranslate.py + coq/Common/PyLib.v and the declared attribute types, not the hand model's col_to_str; the "
              "parser half of the round trip is still the hand model's.  Otherwise -- Trusted: Coq kernel + vm_compute; fidelity of the hand model (checked on ~430 / ~6000 life-cycle programs and "
              "~175 / ~2400 multi-table sessions per run by per-step digests of str(t.fmt), errors' classes, widths and body line counts; not proved); the hand "
              "model of int()/str()/strip/split/find (ASCII digits); harness-side cell lengths; the ast extractor. "
              "Print Assumptions: closed under the global context for every theorem.")
DESIGN_REF = "DESIGN.md section 8, C13 (and section 7, both C13 rows)"
