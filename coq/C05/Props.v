From Coq Require Import ZArith List Bool.
From AK Require Import Common.Err LLP.Base gen.C05_Consts C05.Model C05.Lemmas.
Import ListNotations.

Theorem generated_names_fresh : sfx_tail <> [] /\ sfx_kv_pair <> [] /\ sfx_kv_tail <> [] /\ sfx_element <> [].
Proof. exact sfx_nonempty. Qed.
Print Assumptions generated_names_fresh.
