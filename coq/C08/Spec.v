(* C08/Spec.v -- the specification side: a text is a plain list of coloured
   characters, operations are the list/str operations of PyStr.v.
   Definitions only (vocabulary of the theorems in Props.v). *)
From Coq Require Import ZArith List Bool.
From AK Require Import Common.Sx Common.Err C08.PyStr gen.C08_Consts C08.Model.
Import ListNotations.
Open Scope Z_scope.

(* a colour is what a chunk carries besides its text: (c_prefix, c_suffix) *)
Notation colour := (list Z * list Z)%type.
Notation cchar := (Z * (list Z * list Z))%type.

Definition plain_col : colour := ([], []).
Definition colour_of (c : chunk) : colour := (c_prefix c, c_suffix c).

(* abstraction: the visible characters with their colours *)
Definition ccs (c : chunk) : list cchar := map (fun ch => (ch, colour_of c)) (c_text c).
Definition cchars_l (l : list chunk) : list cchar := flat_map ccs l.
Definition cchars (t : chtext) : list cchar := cchars_l (chunks t).
Definition plain_cc (s : list Z) : list cchar := map (fun ch => (ch, plain_col)) s.
Definition visible (l : list cchar) : list Z := map fst l.

(* canonical form: no empty chunk, neighbours differ in colour (= prefix),
   cached length right *)
Fixpoint canon_l (l : list chunk) : Prop :=
  match l with
  | [] => True
  | c :: r => c_text c <> [] /\
              match r with [] => True | d :: _ => c_prefix c <> c_prefix d end /\
              canon_l r
  end.
Definition inv (t : chtext) : Prop := canon_l (chunks t) /\ scrlen t = zlen (cchars t).

(* chunks made the public way: the suffix is a function of the prefix *)
Definition wfc (sfx : list Z -> list Z) (c : chunk) : Prop := c_suffix c = sfx (c_prefix c).
Definition wf_l (sfx : list Z -> list Z) (l : list chunk) : Prop := Forall (wfc sfx) l.
Definition good (sfx : list Z -> list Z) (t : chtext) : Prop := inv t /\ wf_l sfx (chunks t).

(* ------------------------------------------------------------------ *)
(* the same programs on plain lists                                     *)

Record sstate := SState { sheap : list (list cchar); svars : list nat }.

Definition sget (h : list (list cchar)) (id : nat) : list cchar := nth id h [].
Fixpoint sset (h : list (list cchar)) (id : nat) (t : list cchar) : list (list cchar) :=
  match h, id with
  | [], _ => []
  | _ :: r, O => t :: r
  | x :: r, S k => x :: sset r k t
  end.

Fixpoint s_iadd_part (vs : list nat) (h : list (list cchar)) (id : nat) (p : part) : list (list cchar) :=
  match p with
  | PS s => sset h id (sget h id ++ plain_cc s)
  | PC c => sset h id (sget h id ++ ccs c)
  | PV v => sset h id (sget h id ++ sget h (var_id vs v))
  | PNil => h
  | PCons x r => s_iadd_part vs (s_iadd_part vs h id x) id r
  end.

Definition s_new_from (vs : list nat) (h : list (list cchar)) (p : part) : list (list cchar) * nat :=
  (s_iadd_part vs (h ++ [[]]) (length h) p, length h).

Fixpoint s_join_loop (vs : list nat) (h : list (list cchar)) (id : nat) (sep : list cchar)
         (items : list part) (is_first : bool) : list (list cchar) :=
  match items with
  | [] => h
  | x :: r =>
      let h1 := if is_first then h else sset h id (sget h id ++ sep) in
      s_join_loop vs (s_iadd_part vs h1 id x) id sep r false
  end.
Definition s_join_new (vs : list nat) (h : list (list cchar)) (sep : list cchar) (items : list part)
  : list (list cchar) * nat :=
  (s_join_loop vs (h ++ [[]]) (length h) sep items true, length h).

(* fixed length: pad with default-coloured spaces, then cut *)
Definition s_fixed (l : list cchar) (n : Z) : list cchar :=
  py_slice (l ++ rep (ch_space, plain_col) (n - zlen l)) None (Some n).

Definition s_bind (h : list (list cchar)) (vs : list nat) (id : nat) : sstate * sx :=
  let vs' := vs ++ [id] in (SState h vs', SL [SZ 0; SZ (first_index vs' id 0)]).
Definition s_err (h : list (list cchar)) (vs : list nat) (e : err) : sstate * sx :=
  (SState (h ++ [[]]) (vs ++ [length h]), SL [SZ 1; SZ (err_code e)]).
Definition s_finish (st : sstate) (r : res (list (list cchar) * nat)) : sstate * sx :=
  match r with
  | Ok (h', id) => s_bind h' (svars st) id
  | Err e => s_err (sheap st) (svars st) e
  end.
Definition s_alloc (h : list (list cchar)) (t : list cchar) : list (list cchar) * nat := (h ++ [t], length h).

Fixpoint cc_eqb (a b : list cchar) : bool :=
  match a, b with
  | [], [] => true
  | (x, (p, s)) :: a', (y, (q, u)) :: b' => (x =? y) && str_eqb p q && str_eqb s u && cc_eqb a' b'
  | _, _ => false
  end.

Definition sx_cc (c : chunk) : sx := sx_chunk c.

(* a text used as an iterable: like a str, it gives its characters one by one, each a text of one
   character in its own colour *)
Definition cc_chunk (x : cchar) : chunk := Chunk (fst (snd x)) [fst x] (snd (snd x)).
Definition cc_text (x : cchar) : chtext := CHText 1 [cc_chunk x].
Definition s_iter_parts (vs : list nat) (h : list (list cchar)) (it : iterable) : list part :=
  match it with
  | ItText v => map (fun x => PCons (PC (cc_chunk x)) PNil) (sget h (var_id vs v))
  | ItChunk c => map PC (chunk_items c)
  | ItStr s => map (fun ch => PS [ch]) s
  end.

(* what a statement does on plain lists.  Format results are not produced here
   (they are related to the plain str by the format theorems). *)
Definition sexec_stmt (st : sstate) (s : stmt) : sstate * sx :=
  let h := sheap st in
  let vs := svars st in
  let obj a := sget h (var_id vs a) in
  match s with
  | SNew p => s_finish st (Ok (s_new_from vs h p))
  | SMake cs => s_finish st (Ok (s_alloc h (cchars_l cs)))
  | SMakeResize cs n =>
      s_finish st (if n <? 0 then Err AssertErr else Ok (s_alloc h (s_fixed (cchars_l cs) n)))
  | SAdd a p => s_finish st (Ok (s_new_from vs h (PCons (PV a) (PCons p PNil))))
  | SRadd p a => s_finish st (Ok (s_new_from vs h (PCons p (PCons (PV a) PNil))))
  | SJoin a items => s_finish st (Ok (s_join_new vs h (obj a) items))
  | SIndex a i => s_finish st (bind (py_index (obj a) i) (fun x => Ok (s_alloc h [x])))
  | SSlice a lo hi => s_finish st (Ok (s_alloc h (py_slice (obj a) lo hi)))
  | SFixed a n =>
      if (n =? zlen (obj a)) && fixed_len_aliases then s_bind h vs (var_id vs a)
      else s_finish st (Ok (s_alloc h (s_fixed (obj a) n)))
  | SChunkAdd c p => s_finish st (Ok (s_new_from vs h (PCons (PC c) (PCons p PNil))))
  | SChunkRadd p c => s_finish st (Ok (s_new_from vs h (PCons p (PCons (PC c) PNil))))
  | SChunkJoin c items => s_finish st (Ok (s_join_new vs h (ccs c) items))
  | SChunkFixed c n => s_finish st (Ok (s_alloc h (s_fixed (ccs c) n)))
  | SIadd a p => (SState (s_iadd_part vs h (var_id vs a) p) vs, SL [SZ 0; SZ 1])
  | OFormat a spec => (st, SL [])
  | OEq a p =>
      let b := match p with
               | PS s => cc_eqb (obj a) (plain_cc s)
               | PC c => cc_eqb (obj a) (ccs c)
               | PV v => cc_eqb (obj a) (obj v)
               | _ => false
               end in
      (st, sx_eq_obs b)
  | OChunkIndex c i => (st, sx_res sx_chunk (bind (py_index (c_text c) i) (fun ch => Ok (clone c [ch]))))
  | OChunkSlice c lo hi => (st, sx_res sx_chunk (Ok (clone c (py_slice (c_text c) lo hi))))
  | OChunkEq c p => (st, SL [])
  | OChunkFormat c spec => (st, SL [])
  | SJoinIt a it => s_finish st (Ok (s_join_new vs h (obj a) (s_iter_parts vs h it)))
  | SChunkJoinIt c it => s_finish st (Ok (s_join_new vs h (ccs c) (s_iter_parts vs h it)))
  | OIter a => (st, sx_res (sx_list sx_text) (Ok (map cc_text (obj a))))
  | ORevIter a => (st, sx_res (sx_list sx_text) (Ok (map cc_text (rev (obj a)))))
  | OIn a p =>
      let eqp x := match p with
                   | PS s => cc_eqb [x] (plain_cc s)
                   | PC c => cc_eqb [x] (ccs c)
                   | PV v => cc_eqb [x] (obj v)
                   | _ => false
                   end in
      (st, sx_res sx_bool (Ok (existsb eqp (obj a))))
  | OChunkIter c rv => (st, sx_list sx_chunk (if rv then rev (chunk_items c) else chunk_items c))
  end.

Fixpoint sexec (st : sstate) (prog : list stmt) : sstate * list sx :=
  match prog with
  | [] => (st, [])
  | s :: r => let '(st1, o) := sexec_stmt st s in
              let '(st2, os) := sexec st1 r in (st2, o :: os)
  end.

(* observations of the model that the plain-list run reproduces literally *)
Definition erase (s : stmt) (o : sx) : sx :=
  match s with
  | OFormat _ _ | OChunkFormat _ _ | OChunkEq _ _ => SL []
  | _ => o
  end.

(* which programs the theorems speak about: chunk literals made by ColorFmt;
   CHText.make only on non-empty chunks and resize_chunks_list only growing
   (see make_keeps_empty_chunk / resize_leaves_empty_chunk for the rest) *)
Fixpoint part_ok (sfx : list Z -> list Z) (p : part) : Prop :=
  match p with
  | PC c => wfc sfx c
  | PCons x r => part_ok sfx x /\ part_ok sfx r
  | _ => True
  end.
Definition iter_ok (sfx : list Z -> list Z) (it : iterable) : Prop :=
  match it with ItChunk c => wfc sfx c | _ => True end.
Definition nonempty_l (cs : list chunk) : Prop := Forall (fun c => c_text c <> []) cs.
Definition stmt_ok (sfx : list Z -> list Z) (s : stmt) : Prop :=
  match s with
  | SNew p | SAdd _ p | SRadd p _ | SIadd _ p | OEq _ p => part_ok sfx p
  | SMake cs => wf_l sfx cs /\ nonempty_l cs
  | SMakeResize cs n => wf_l sfx cs /\ nonempty_l cs /\ (n < 0 \/ calc_chunks_len cs <= n)
  | SJoin _ items => Forall (part_ok sfx) items
  | SChunkAdd c p | SChunkRadd p c | OChunkEq c p => wfc sfx c /\ part_ok sfx p
  | SChunkJoin c items => wfc sfx c /\ Forall (part_ok sfx) items
  | SChunkFixed c _ | OChunkIndex c _ | OChunkSlice c _ _ | OChunkFormat c _ => wfc sfx c
  | SIndex _ _ | SSlice _ _ _ | SFixed _ _ | OFormat _ _ => True
  | SJoinIt _ it => iter_ok sfx it
  | SChunkJoinIt c it => wfc sfx c /\ iter_ok sfx it
  | OIter _ | ORevIter _ | OChunkIter _ _ => True
  | OIn _ p => part_ok sfx p
  end.
