(* C01/LemmasFact.v -- what the executable validator [fact_ok] guarantees:
   the hypotheses of the parse-loop soundness proof (C01/Lemmas.v). *)
From Coq Require Import ZArith List Bool Lia.
From AK Require Import Common.Err LLP.Base LLP.Factor C01.Basics C01.Spec C01.Lemmas.
Import ListNotations.
Local Open Scope nat_scope.

Lemma list_eqb_eq : forall A (eqb : A -> A -> bool),
  (forall x y, eqb x y = true -> x = y) -> forall a b, list_eqb eqb a b = true -> a = b.
Proof.
  intros A eqb H. induction a as [|x a IH]; destruct b as [|y b]; cbn; intro E; try reflexivity; try discriminate.
  apply andb_true_iff in E as [E1 E2]. f_equal; [now apply H|now apply IH].
Qed.

Lemma list_eqb_refl : forall A (eqb : A -> A -> bool),
  (forall x, eqb x x = true) -> forall a, list_eqb eqb a a = true.
Proof. intros A eqb H. induction a as [|x a IH]; cbn; [reflexivity|]. now rewrite H, IH. Qed.

Lemma prods_eqb_eq : forall a b : list (list sym), list_eqb (list_eqb sym_eqb) a b = true -> a = b.
Proof. apply list_eqb_eq. apply list_eqb_eq. intros x y. apply sym_eqb_eq. Qed.

Lemma concat_opt_in : forall A (l : list (option (list A))) es x e,
  concat_opt l = Some es -> In (Some x) l -> In e x -> In e es.
Proof.
  induction l as [|o l IH]; intros es x e H Hx He; [contradiction|].
  cbn [concat_opt] in H. destruct o as [y|]; [|discriminate].
  destruct (concat_opt l) as [z|] eqn:Ez; [|discriminate]. injection H as <-.
  apply in_or_app. destruct Hx as [Hx|Hx].
  - injection Hx as ->. now left.
  - right. eapply IH; [reflexivity|eassumption|assumption].
Qed.

Lemma concat_opt_some : forall A (l : list (option (list A))) es o,
  concat_opt l = Some es -> In o l -> exists x, o = Some x.
Proof.
  induction l as [|o' l IH]; intros es o H Ho; [contradiction|].
  cbn [concat_opt] in H. destruct o' as [y|]; [|discriminate].
  destruct (concat_opt l) as [z|] eqn:Ez; [|discriminate].
  destruct Ho as [<-|Ho]; [now exists y|]. eapply IH; [reflexivity|assumption].
Qed.

Section Fact.
  Variables (fg : grammar) (sfxs : list sym).

  Lemma expand_rules_in : forall fuel rules es r e,
    expand_rules fg sfxs fuel rules = Some es -> In r rules ->
    (forall x, expand fg sfxs fuel (rprod r) = Some x -> In e x) -> In e es.
  Proof.
    intros fuel rules es r e H Hr Hx. unfold expand_rules in H.
    assert (Hin : In (expand fg sfxs fuel (rprod r)) (map (fun r => expand fg sfxs fuel (rprod r)) rules))
      by (apply in_map_iff; now exists r).
    destruct (concat_opt_some _ _ _ _ H Hin) as [x Ex].
    eapply concat_opt_in; [eassumption| |apply Hx; eassumption]. now rewrite <- Ex.
  Qed.

  (* the function enumerates everything the relation allows *)
  Lemma expand_rel : forall fuel p es e,
    expand fg sfxs fuel p = Some es -> expands fg sfxs p e -> In e es.
  Proof.
    induction fuel as [|f IH]; intros p es e H He; [discriminate|].
    cbn [expand] in H. inversion He as [|p0 Hne Hm|p0 r e0 Hne Hm Hr He0]; subst.
    - injection H as <-. now left.
    - destruct e as [|s0 e0]; [contradiction|]. rewrite Hm in H. injection H as <-. now left.
    - destruct p as [|s0 p0]; [contradiction|]. rewrite Hm in H.
      fold (expand_rules fg sfxs f (grules fg (last (s0 :: p0) []))) in H.
      destruct (expand_rules fg sfxs f (grules fg (last (s0 :: p0) []))) as [es0|] eqn:E0; [|discriminate].
      cbn [option_map] in H. injection H as <-. apply in_map.
      eapply expand_rules_in; [eassumption|eassumption|]. intros x Hx. eapply IH; eassumption.
  Qed.
End Fact.

Section FactOk.
  Variables (ug : ugrammar) (fg : grammar) (sfxs : list sym).
  Hypothesis Hok : fact_ok ug fg sfxs = true.

  Lemma fact_ok_parts :
    (forall kv, In kv fg -> forallb (fun r => only_last_sfx sfxs (rprod r)) (snd kv) = true) /\
    (forall kv, In kv ug -> mem (fst kv) sfxs = false) /\
    nodup_syms (gkeys fg) = true /\
    filter (fun k => negb (mem k sfxs)) (gkeys fg) = map fst ug /\
    (forall kv, In kv fg -> mem (fst kv) sfxs = false ->
        expand_rules fg sfxs (S (length fg)) (snd kv) = Some (uprods ug (fst kv))).
  Proof.
    unfold fact_ok in Hok. repeat rewrite andb_true_iff in Hok.
    destruct Hok as [[[[H1 H2] H3] H4] H5].
    rewrite forallb_forall in H1, H2, H5. repeat split.
    - assumption.
    - intros kv Hkv. apply H2 in Hkv. now apply negb_true_iff in Hkv.
    - assumption.
    - apply list_eqb_eq in H4; [assumption|]. intros x y. apply sym_eqb_eq.
    - intros kv Hkv Hm. apply H5 in Hkv. rewrite Hm in Hkv.
      destruct (expand_rules fg sfxs (S (length fg)) (snd kv)) as [es|]; [|discriminate].
      apply prods_eqb_eq in Hkv. now subst.
  Qed.

  (* productions of a user symbol, suffix symbols expanded, are user productions *)
  Lemma fact_ok_sound : forall X r e, mem X sfxs = false -> In r (grules fg X) ->
    expands fg sfxs (rprod r) e -> In e (uprods ug X).
  Proof.
    intros X r e Hm Hr He. destruct fact_ok_parts as [_ [_ [_ [_ H5]]]].
    apply grules_In in Hr as [v [Hv Hr]].
    specialize (H5 (X, v) Hv Hm). cbn [fst snd] in H5.
    eapply expand_rules_in; [eassumption|eassumption|].
    intros x Hx. eapply expand_rel; eassumption.
  Qed.

  Lemma fact_ok_last : forall X r, In r (grules fg X) -> only_last_sfx sfxs (rprod r) = true.
  Proof.
    intros X r Hr. destruct fact_ok_parts as [H1 _].
    apply grules_In in Hr as [v [Hv Hr]]. specialize (H1 (X, v) Hv). cbn [snd] in H1.
    rewrite forallb_forall in H1. now apply H1.
  Qed.

  Lemma fact_ok_fresh : forall s, In s (map fst ug) -> mem s sfxs = false.
  Proof.
    intros s Hs. destruct fact_ok_parts as [_ [H2 _]].
    apply in_map_iff in Hs as [kv [<- Hkv]]. now apply H2.
  Qed.
End FactOk.
