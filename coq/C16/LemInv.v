(* C16/LemInv.v -- the invariant of the request-id machine, preserved by every
   step of every thread, for every program that passes [well_locked]. *)
From Coq Require Import ZArith List Bool Lia Permutation.
From AK Require Import C16.Instr gen.C16_Consts C16.Model C16.LemList.
Import ListNotations.
Open Scope Z_scope.

Definition supplied (h : headers) : bool := supplied_test h.

(* what the opener must have seen for a request with caller headers h *)
Definition event_ok (cp : str) (h : headers) (e : event) : Prop :=
  if supplied h then e = Sent None (sent_value h None)
  else exists n, e = Sent (Some n) (Some (fmt cp n)).

Definition cur (th : thread) : list headers :=
  match code th with [] => [] | _ => [hdrs th] end.

(* the requests R of a thread: those done (with their events, each satisfying P),
   the current one, those to come *)
Definition histP (P : headers -> event -> Prop) (R : list headers) (th : thread) : Prop :=
  exists D, R = D ++ cur th ++ todo th /\ Forall2 P D (rev (out th)).
Definition hist (cp : str) := histP (event_ok cp).

Lemma histP_start (P : headers -> event -> Prop) prog i c R th h rest :
  prog = i :: c -> code th = [] -> todo th = h :: rest ->
  histP P R th -> histP P R (mkT prog h (regs th) rest (out th)).
Proof.
  intros -> Hc Ht (D & HR & HF). exists D. split; [|exact HF].
  unfold cur in *. rewrite Hc, Ht in HR. cbn [code hdrs todo]. exact HR.
Qed.

Lemma histP_code (P : headers -> event -> Prop) R th c' rg :
  code th <> [] -> c' <> [] ->
  histP P R th -> histP P R (mkT c' (hdrs th) rg (todo th) (out th)).
Proof.
  intros Hc Hc' (D & HR & HF). exists D. split; [|exact HF].
  unfold cur in *. cbn [code hdrs todo].
  destruct (code th); [congruence|]. destruct c'; [congruence|]. exact HR.
Qed.

Lemma histP_finish (P : headers -> event -> Prop) R th e :
  code th <> [] -> P (hdrs th) e ->
  histP P R th -> histP P R (finish th e).
Proof.
  intros Hc He (D & HR & HF). exists (D ++ [hdrs th]). split.
  - unfold cur in *. cbn [finish code todo]. destruct (code th); [congruence|].
    rewrite HR. rewrite <- app_assoc. reflexivity.
  - cbn [finish out rev]. apply Forall2_app; [exact HF|]. constructor; [exact He|constructor].
Qed.

Definition handed (th : thread) : list Z := nums (out th) ++ pending th.

Lemma option_eq_dec_tid (lk : option tid) (t : tid) : {lk = Some t} + {lk <> Some t}.
Proof.
  destruct lk as [t0|]; [|right; discriminate].
  destruct (Nat.eq_dec t0 t) as [->|H]; [left; reflexivity|right; congruence].
Qed.

Section Inv.
Variable cp : str.
Variables (prog cs0 : list instr) (r0 : nat) (ar0 : nat -> option Z).
Hypothesis Hprog : prog = ICheck :: IAcquire :: cs0 ++ [IRelease; IEmit r0].
Hypothesis Hcs : abs_cs cs0 0 (fun _ => None) = Some (1, ar0).
Hypothesis Har : ar0 r0 = Some 0.
Hypothesis Hkeys : hdr_test_key = map lower hdr_set_key.
Hypothesis Hobs : str_eqb (cap hdr_set_key) obs_key = true.
Variable c0 : Z.
Variable Rs : list (list headers).

Definition tail0 : list instr := cs0 ++ [IRelease; IEmit r0].

Inductive outside (th : thread) : Prop :=
| O_idle : code th = [] -> outside th
| O_check : code th = prog -> outside th
| O_pass : code th = [IPass] -> supplied (hdrs th) = true -> outside th
| O_acq : code th = IAcquire :: tail0 -> supplied (hdrs th) = false -> outside th
| O_emit : code th = [IEmit r0] -> supplied (hdrs th) = false -> outside th.

(* in the critical section: the rest of it, run on values relative to [base],
   ends with base in local r0 and base+1 in the counter *)
Definition inside (base cval : Z) (th : thread) : Prop :=
  supplied (hdrs th) = false /\
  exists rest off ar ar',
    code th = rest ++ [IRelease; IEmit r0] /\ cval = base + off /\
    (forall r k, ar r = Some k -> regs th r = base + k) /\
    abs_cs rest off ar = Some (1, ar') /\ ar' r0 = Some 0.

Definition others_outside (l : list thread) (ex : option tid) : Prop :=
  forall t th, ex <> Some t -> nth_error l t = Some th -> outside th.

Definition lock_ok (lk : option tid) (l : list thread) (base cval : Z) : Prop :=
  match lk with
  | None => cval = base
  | Some t0 => exists th0, nth_error l t0 = Some th0 /\ inside base cval th0
  end.

Definition hist_all (l : list thread) : Prop :=
  forall t th R, nth_error l t = Some th -> nth_error Rs t = Some R -> hist cp R th.

Definition Inv (st : state) : Prop :=
  length (threads st) = length Rs /\
  exists (k : nat) (cval : Z),
    ctr st = Some cval /\
    Permutation (concat (map handed (threads st))) (zseq c0 k) /\
    hist_all (threads st) /\
    others_outside (threads st) (lock st) /\
    lock_ok (lock st) (threads st) (c0 + Z.of_nat k) cval.

(* ------------------------------------------------------------ helpers *)
Lemma others_put l ex ex' t th' :
  others_outside l ex ->
  (forall t', t' <> t -> ex' <> Some t' -> ex <> Some t') ->
  (ex' <> Some t -> outside th') ->
  others_outside (set_nth l t th') ex'.
Proof.
  intros H1 H2 H3 t' th'' Hex Hn.
  apply nth_error_set_nth_inv in Hn as [[-> ->]|[Hne Hn]].
  - apply H3. exact Hex.
  - apply (H1 t' th''); [apply H2; assumption|exact Hn].
Qed.

Lemma lock_ok_put lk l base cval t th' :
  lock_ok lk l base cval -> lk <> Some t -> lock_ok lk (set_nth l t th') base cval.
Proof.
  destruct lk as [t0|]; cbn; [|auto].
  intros (th0 & Hn & Hi) Hne. exists th0. split; [|exact Hi].
  rewrite nth_error_set_nth_neq; [exact Hn|congruence].
Qed.

Lemma hist_put l t th th' :
  hist_all l -> nth_error l t = Some th ->
  (forall R, hist cp R th -> hist cp R th') ->
  hist_all (set_nth l t th').
Proof.
  intros H Hth Hh t' th'' R Hn HR.
  apply nth_error_set_nth_inv in Hn as [[-> ->]|[Hne Hn]].
  - apply Hh. exact (H t th R Hth HR).
  - exact (H t' th'' R Hn HR).
Qed.

Lemma prog_cons : exists c, prog = ICheck :: c.
Proof. eexists. exact Hprog. Qed.

Lemma hist_start R th h rest :
  code th = [] -> todo th = h :: rest ->
  hist cp R th -> hist cp R (mkT prog h (regs th) rest (out th)).
Proof. destruct prog_cons as (c & E). exact (histP_start _ prog _ _ R th h rest E). Qed.

Lemma hist_code R th c' rg :
  code th <> [] -> c' <> [] ->
  hist cp R th -> hist cp R (mkT c' (hdrs th) rg (todo th) (out th)).
Proof. apply histP_code. Qed.

Lemma hist_finish R th e :
  code th <> [] -> event_ok cp (hdrs th) e ->
  hist cp R th -> hist cp R (finish th e).
Proof. apply histP_finish. Qed.

(* no spelling of the key in h: in particular not the spelling that is set *)
Lemma supplied_false_key_in h : supplied h = false -> key_in hdr_set_key h = false.
Proof.
  unfold supplied, supplied_test, key_in.
  induction h as [|[k v] r IH]; [reflexivity|]. cbn [existsb fst].
  intros H. apply orb_false_elim in H as [H1 H2]. rewrite (IH H2), orb_false_r.
  destruct (str_eqb k hdr_set_key) eqn:E; [|reflexivity].
  apply str_eqb_eq in E. subst k. rewrite Hkeys, str_eqb_refl in H1. discriminate.
Qed.

Lemma emit_value h n :
  supplied h = false ->
  sent_value (dict_set h hdr_set_key (fmt cp n)) None = Some (fmt cp n).
Proof.
  intros Hs. rewrite dict_set_absent by exact (supplied_false_key_in h Hs). rewrite sent_value_snoc, Hobs. reflexivity.
Qed.

Lemma pending_tail rest th :
  code th = rest ++ [IRelease; IEmit r0] -> pending th = [].
Proof.
  intros H. unfold pending. rewrite H.
  destruct rest as [|i [|j r]]; [reflexivity| |]; destruct i; reflexivity.
Qed.

Lemma abs_cs_head i rest off ar res :
  abs_cs (i :: rest) off ar = Some res ->
  (exists r, i = ILoad r /\ abs_cs rest off (fun x => if Nat.eqb x r then Some off else ar x) = Some res) \/
  (exists r k, i = IStoreSucc r /\ ar r = Some k /\ abs_cs rest (k + 1) ar = Some res).
Proof.
  destruct i; cbn [abs_cs]; try discriminate.
  - intros H. left. eauto.
  - destruct (ar r) as [k|] eqn:E; [|discriminate]. intros H. right. eauto.
Qed.

(* ------------------------------------------------------------ moves that leave lock and counter alone *)
Lemma inv_local st t th th' :
  Inv st -> nth_error (threads st) t = Some th -> lock st <> Some t ->
  outside th' -> Permutation (handed th') (handed th) ->
  (forall R, hist cp R th -> hist cp R th') ->
  Inv (mkS (lock st) (ctr st) (set_nth (threads st) t th')).
Proof.
  intros (Hlen & k & cval & Hctr & Hperm & Hhist & Hout & Hlock) Hth Hl Ho Hp Hh.
  split; [cbn [threads]; rewrite set_nth_length; exact Hlen|].
  exists k, cval. cbn [threads lock ctr]. repeat split.
  - exact Hctr.
  - rewrite (concat_set_nth_same handed _ t th th' Hth Hp). exact Hperm.
  - exact (hist_put _ t th th' Hhist Hth Hh).
  - apply (others_put _ (lock st)); auto.
  - apply lock_ok_put; assumption.
Qed.

Lemma inv_init : (0 <= 0)%nat -> Inv (init (Some c0) Rs).
Proof.
  intros _. split; [cbn; apply map_length|].
  exists 0%nat, c0. cbn [init ctr threads lock]. repeat split.
  - rewrite map_map. cbn. induction Rs; cbn; [constructor|assumption].
  - intros t th R Hn HR. rewrite nth_error_map in Hn. rewrite HR in Hn. cbn in Hn.
    injection Hn as <-. exists []. split; [reflexivity|constructor].
  - intros t th _ Hn. rewrite nth_error_map in Hn.
    destruct (nth_error Rs t); cbn in Hn; [|discriminate]. injection Hn as <-.
    apply O_idle. reflexivity.
  - cbn. lia.
Qed.

(* ------------------------------------------------------------ one step *)
Lemma step_inv st t : Inv st -> Inv (step cp prog st t).
Proof.
  intros HI. unfold step.
  destruct (nth_error (threads st) t) as [th|] eqn:Hth; [|exact HI].
  destruct (code th) as [|i c] eqn:Hcode.
  { (* between requests *)
    destruct (todo th) as [|h rest] eqn:Htodo; [exact HI|].
    pose proof HI as (_ & k & cval & _ & _ & _ & Hout & Hlock).
    assert (lock st <> Some t) as Hl.
    { intros E. rewrite E in Hlock. destruct Hlock as (th0 & Hn & _ & rest' & off & ar & ar' & Hc & _).
      rewrite Hth in Hn. injection Hn as <-. rewrite Hcode in Hc. destruct rest'; discriminate. }
    apply (inv_local st t th); auto.
    - apply O_check. reflexivity.
    - unfold handed, pending. cbn [out code]. rewrite Hcode.
      destruct prog_cons as (c & ->). reflexivity.
    - intros R. apply hist_start; assumption. }
  pose proof HI as (Hlen & k & cval & Hctr & Hperm & Hhist & Hout & Hlock).
  assert (Hne : code th <> []) by (rewrite Hcode; discriminate).
  destruct (option_eq_dec_tid (lock st) t) as [Hl|Hl].
  - (* thread t holds the lock: it is inside the critical section *)
    rewrite Hl in Hlock. destruct Hlock as (th0 & Hn & Hsup & rest & off & ar & ar' & Hc & Hcv & Hregs & Habs & Hr0).
    rewrite Hth in Hn. injection Hn as <-. rewrite Hcode in Hc.
    destruct rest as [|j rest].
    + (* release *)
      cbn [app] in Hc. injection Hc as -> ->. cbn [abs_cs] in Habs. injection Habs as -> <-.
      rewrite Hl.
      split; [cbn [threads]; rewrite set_nth_length; exact Hlen|].
      exists (S k), cval. cbn [threads lock ctr]. repeat split.
      * exact Hctr.
      * rewrite (concat_set_nth_perm handed _ t th _ [c0 + Z.of_nat k] Hth).
        -- rewrite Hperm, zseq_S. apply Permutation_app_comm.
        -- unfold handed, pending. cbn [out code regs]. rewrite Hcode.
           rewrite (Hregs r0 0 Hr0). rewrite Z.add_0_r, app_nil_r.
           apply Permutation_app_comm.
      * apply (hist_put _ t th _ Hhist Hth). intros R. apply hist_code; [exact Hne|discriminate].
      * apply (others_put _ (lock st)); [exact Hout| |].
        -- intros t' Hne' _. rewrite Hl. congruence.
        -- intros _. apply O_emit; [reflexivity|exact Hsup].
      * cbn. lia.
    + (* a load or store inside the critical section *)
      cbn [app] in Hc. injection Hc as -> ->.
      apply abs_cs_head in Habs as [(r & -> & Habs)|(r & k1 & -> & Hk1 & Habs)].
      * rewrite Hctr.
        split; [cbn [threads]; rewrite set_nth_length; exact Hlen|].
        exists k, cval. cbn [threads lock ctr]. repeat split.
        -- rewrite (concat_set_nth_same handed _ t th _ Hth); [exact Hperm|].
           unfold handed. cbn [out].
           rewrite (pending_tail rest) by reflexivity.
           rewrite (pending_tail (ILoad r :: rest) th) by exact Hcode. reflexivity.
        -- apply (hist_put _ t th _ Hhist Hth). intros R. apply hist_code; [exact Hne|].
           destruct rest; discriminate.
        -- apply (others_put _ (lock st)); [exact Hout| |].
           ++ intros t' Hne' H. exact H.
           ++ intros H. congruence.
        -- rewrite Hl. cbn. eexists. split; [apply (nth_error_set_nth_eq _ _ _ _ Hth)|].
           split; [exact Hsup|].
           exists rest, off, (fun x => if Nat.eqb x r then Some off else ar x), ar'.
           cbn [code regs]. repeat split; auto.
           intros r' k'. unfold upd. destruct (Nat.eqb r' r).
           ++ intros E. injection E as <-. exact Hcv.
           ++ apply Hregs.
      * split; [cbn [threads]; rewrite set_nth_length; exact Hlen|].
        exists k, (regs th r + 1). cbn [threads lock ctr]. repeat split.
        -- rewrite (concat_set_nth_same handed _ t th _ Hth); [exact Hperm|].
           unfold handed. cbn [out].
           rewrite (pending_tail rest) by reflexivity.
           rewrite (pending_tail (IStoreSucc r :: rest) th) by exact Hcode. reflexivity.
        -- apply (hist_put _ t th _ Hhist Hth). intros R. apply hist_code; [exact Hne|].
           destruct rest; discriminate.
        -- apply (others_put _ (lock st)); [exact Hout| |].
           ++ intros t' Hne' H. exact H.
           ++ intros H. congruence.
        -- rewrite Hl. cbn. eexists. split; [apply (nth_error_set_nth_eq _ _ _ _ Hth)|].
           split; [exact Hsup|].
           exists rest, (k1 + 1), ar, ar'.
           cbn [code regs]. repeat split; auto.
           rewrite (Hregs r k1 Hk1). lia.
  - (* thread t does not hold the lock: it is outside *)
    assert (Ho : outside th) by (apply (Hout t th); [exact Hl|exact Hth]).
    destruct Ho as [Hc|Hc|Hc Hs|Hc Hs|Hc Hs]; rewrite Hcode in Hc.
    + discriminate.
    + (* the check *)
      rewrite Hprog in Hc. injection Hc as -> ->. rewrite Hctr.
      destruct (supplied_test (hdrs th)) eqn:Hk.
      * rewrite <- Hctr. apply (inv_local st t th); auto.
        -- apply O_pass; [reflexivity|exact Hk].
        -- unfold handed, pending. cbn [out code]. rewrite Hcode. reflexivity.
        -- intros R. apply hist_code; [exact Hne|discriminate].
      * rewrite <- Hctr. apply (inv_local st t th); auto.
        -- apply O_acq; [reflexivity|exact Hk].
        -- unfold handed, pending. cbn [out code]. rewrite Hcode. reflexivity.
        -- intros R. apply hist_code; [exact Hne|discriminate].
    + (* pass the caller's headers on *)
      injection Hc as -> ->.
      apply (inv_local st t th); auto.
      * apply O_idle. reflexivity.
      * unfold handed, pending. cbn [finish out code nums]. rewrite Hcode. reflexivity.
      * intros R. apply hist_finish; [exact Hne|]. unfold event_ok. rewrite Hs. reflexivity.
    + (* acquire *)
      injection Hc as -> ->.
      destruct (lock st) as [t0|] eqn:Hlk; [exact HI|].
      cbn in Hlock. subst cval.
      split; [cbn [threads]; rewrite set_nth_length; exact Hlen|].
      exists k, (c0 + Z.of_nat k). cbn [threads lock ctr]. repeat split.
      * exact Hctr.
      * rewrite (concat_set_nth_same handed _ t th _ Hth); [exact Hperm|].
        unfold handed. cbn [out].
        rewrite (pending_tail cs0) by reflexivity.
        unfold pending. rewrite Hcode. reflexivity.
      * apply (hist_put _ t th _ Hhist Hth). intros R. apply hist_code; [exact Hne|].
        unfold tail0. destruct cs0; discriminate.
      * apply (others_put _ None); [exact Hout| |].
        -- intros t' _ _. discriminate.
        -- intros H. congruence.
      * cbn. eexists. split; [apply (nth_error_set_nth_eq _ _ _ _ Hth)|].
        split; [exact Hs|].
        exists cs0, 0, (fun _ => None), ar0. cbn [code regs]. repeat split; auto.
        -- lia.
        -- intros r k' E. discriminate.
    + (* emit *)
      injection Hc as -> ->.
      apply (inv_local st t th); auto.
      * apply O_idle. reflexivity.
      * unfold handed, pending. cbn [finish out code nums]. rewrite Hcode.
        rewrite app_nil_r. change (regs th r0 :: nums (out th)) with ([regs th r0] ++ nums (out th)).
        apply Permutation_app_comm.
      * intros R. apply hist_finish; [exact Hne|]. unfold event_ok. rewrite Hs.
        exists (regs th r0). rewrite emit_value by exact Hs. reflexivity.
Qed.

Lemma exec_inv sched : forall st, Inv st -> Inv (exec cp prog sched st).
Proof.
  induction sched as [|t r IH]; intros st H; [exact H|].
  cbn [exec]. apply IH. apply step_inv. exact H.
Qed.

End Inv.
