From AK Require Import C01.Lemmas.
