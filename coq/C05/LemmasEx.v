(* C05/LemmasEx.v -- the hypotheses of the theorems are satisfiable: concrete
   option records, environments and denotation derivations for the witness
   trees of C05/Witness.v. *)
From Coq Require Import ZArith List Bool Lia.
From AK Require Import Common.Err LLP.Base gen.C05_Consts C05.Model C05.Lemmas C05.LemmasList C05.LemmasMap
     C05.LemmasSeq C05.LemmasNest C05.Witness.
Import ListNotations.

Definition empty_env : env := mkEnv [] [] [] [] false.

(* the cleanup environment of a grammar (constructor of LLParser) *)
Definition env_of (g : gspec) (keep : list sym) (start : sym) (seqclean : bool) : env :=
  match init_grammar g with
  | Ok gi => grammar_env gi keep start seqclean
  | Err _ => empty_env
  end.

Definition lopts_of (r : res lopts) : lopts :=
  match r with Ok o => o | Err _ => mkL None [] None None false false end.
Definition mopts_of (r : res mopts) : mopts :=
  match r with Ok o => o | Err _ => mkM None [] [] [] [] None false false end.

(* ListProds('[', 'VALUE', ',', ']') and MapProds('{', 'WORD', ':', 'VALUE', ',', '}') *)
Definition o_list : lopts := lopts_of (list_ctor (Some sLB) sVALUE (Some sCOMMA) (Some sRB) None None).
Definition o_map : mopts := mopts_of (map_ctor (Some sLC) sWORD (Some sCOLON) sVALUE (Some sCOMMA) (Some sRC) None None).

Ltac notin :=
  let H := fresh in
  intro H; vm_compute in H;
  repeat (destruct H as [H|H]; [discriminate H|]); exact H.

Lemma o_list_ok : lopts_ok sLIST o_list.
Proof.
  constructor.
  - reflexivity.
  - intros _. split; reflexivity.
  - intros _. reflexivity.
  - notin.
  - discriminate.
  - vm_compute. discriminate.
  - notin.
  - notin.
Qed.

Lemma o_map_ok : mopts_ok sMAP o_map.
Proof.
  constructor.
  - reflexivity.
  - intros _. reflexivity.
  - notin.
  - notin.
  - notin.
  - notin.
  - intros s H. vm_compute in H.
    repeat (destruct H as [<-|H]; [notin|]). contradiction.
Qed.

(* ------------------------------------------------------------------ *)
(* w8: "[a, {k: [b], k: c}]" denotes [a, {k: c}] (k: [b] is overwritten)  *)

Definition E8 : env := env_of w8_g [] sE true.

Definition w8_list : rt := match w8_raw with RNode _ [l] => l | _ => RNull [] end.

Definition d8 : D :=
  DList [DAtom [97]%Z; DMap [([107]%Z, DList [DAtom [98]%Z]); ([107]%Z, DAtom [99]%Z)]].

Lemma choice_value : choice_ok E8 sVALUE.
Proof. repeat split; vm_compute; reflexivity. Qed.

Ltac den_tok_tac := apply den_tok; vm_compute; reflexivity.

Ltac den_list_tac ds :=
  eapply (den_list E8 sLIST o_list _ ds);
  [ vm_compute; reflexivity | exact o_list_ok | reflexivity | vm_compute; reflexivity | reflexivity
  | | right; simpl; discriminate | left; reflexivity ].

Lemma w8_den : den E8 w8_list d8.
Proof.
  unfold d8.
  den_list_tac [DAtom [97]%Z; DMap [([107]%Z, DList [DAtom [98]%Z]); ([107]%Z, DAtom [99]%Z)]].
  match goal with |- dens _ ?l _ => let l' := eval vm_compute in l in change l with l' end.
  constructor.
  { (* VALUE -> WORD a *)
    apply (den_choice E8 sVALUE); [exact choice_value | vm_compute; reflexivity | den_tok_tac]. }
  constructor; [|constructor].
  (* VALUE -> MAP *)
  apply (den_choice E8 sVALUE); [exact choice_value | vm_compute; eexists; reflexivity |].
  eapply (den_map E8 sMAP o_map _
            [(RTok sWORD [107]%Z, _); (RTok sWORD [107]%Z, _)]
            [([107]%Z, DList [DAtom [98]%Z]); ([107]%Z, DAtom [99]%Z)]);
    [ vm_compute; reflexivity | exact o_map_ok | reflexivity | vm_compute; reflexivity | reflexivity
    | vm_compute; reflexivity | ].
  constructor.
  { den_tok_tac. }
  { (* VALUE -> LIST [b] *)
    apply (den_choice E8 sVALUE); [exact choice_value | vm_compute; eexists; reflexivity |].
    den_list_tac [DAtom [98]%Z].
    match goal with |- dens _ ?l _ => let l' := eval vm_compute in l in change l with l' end.
    constructor; [|constructor].
    apply (den_choice E8 sVALUE); [exact choice_value | vm_compute; reflexivity | den_tok_tac]. }
  constructor; [den_tok_tac | | constructor].
  apply (den_choice E8 sVALUE); [exact choice_value | vm_compute; reflexivity | den_tok_tac].
Qed.

(* ------------------------------------------------------------------ *)
(* w1: a list as element of a sequence, "a [b,[c]] f ;"                 *)

Definition o_list1 : lopts := lopts_of (list_ctor (Some sLB) sITEM (Some sCOMMA) (Some sRB) None None).
Definition E1 (seqclean : bool) : env := env_of w1_g [] sE seqclean.
Definition w1_seq : rt := match w1_raw with RNode _ (s :: _) => s | _ => RNull [] end.

Lemma o_list1_ok : lopts_ok sLIST o_list1.
Proof.
  constructor.
  - reflexivity.
  - intros _. split; reflexivity.
  - intros _. reflexivity.
  - notin.
  - discriminate.
  - vm_compute. discriminate.
  - notin.
  - notin.
Qed.

Lemma choice_item1 : choice_ok (E1 true) sITEM.
Proof. repeat split; vm_compute; reflexivity. Qed.

Definition d1 : D :=
  DSeq [(sWORD, DAtom [97]%Z); (sLIST, DList [DAtom [98]%Z; DList [DAtom [99]%Z]]); (sWORD, DAtom [102]%Z)].

Ltac den_list1_tac ds :=
  eapply (den_list (E1 true) sLIST o_list1 _ ds);
  [ vm_compute; reflexivity | exact o_list1_ok | reflexivity | vm_compute; reflexivity | reflexivity
  | | right; simpl; discriminate | left; reflexivity ].

Lemma w1_den : den (E1 true) w1_seq d1.
Proof.
  unfold d1, w1_seq, w1_raw.
  apply den_seq; [vm_compute; reflexivity | left; reflexivity |].
  apply (densb_cons (E1 true) (RTok sWORD [97]%Z)); [vm_compute; reflexivity | apply den_tok; vm_compute; reflexivity |].
  match goal with |- densb _ (?l :: _) _ => apply (densb_cons (E1 true) l) end;
    [vm_compute; eexists; reflexivity | | ].
  - den_list1_tac [DAtom [98]%Z; DList [DAtom [99]%Z]].
    match goal with |- dens _ ?l _ => let l' := eval vm_compute in l in change l with l' end.
    constructor.
    { apply (den_choice (E1 true) sITEM); [exact choice_item1 | vm_compute; reflexivity | apply den_tok; vm_compute; reflexivity]. }
    constructor; [|constructor].
    apply (den_choice (E1 true) sITEM); [exact choice_item1 | vm_compute; eexists; reflexivity |].
    den_list1_tac [DAtom [99]%Z].
    match goal with |- dens _ ?l _ => let l' := eval vm_compute in l in change l with l' end.
    constructor; [|constructor].
    apply (den_choice (E1 true) sITEM); [exact choice_item1 | vm_compute; reflexivity | apply den_tok; vm_compute; reflexivity].
  - apply (densb_cons (E1 true) (RTok sWORD [102]%Z)); [vm_compute; reflexivity | apply den_tok; vm_compute; reflexivity |].
    constructor.
Qed.

(* the witness under a cleanup that does not descend into sequence leaves *)
Definition w1_gi : list (sym * ptempl) := match init_grammar w1_g with Ok gi => gi | Err _ => [] end.
Definition w1_clean_old : te :=
  match cleanup (grammar_env w1_gi [] sE false) w1_raw with Ok x => x | Err _ => mkTe [] true CNone end.

Lemma w1_refutes :
  init_grammar w1_g = Ok w1_gi /\ templates_valid false w1_gi w1_raw = true /\
  cleanup (grammar_env w1_gi [] sE false) w1_raw = Ok w1_clean_old /\
  has_raw (e_tmpl (grammar_env w1_gi [] sE false)) (te_cv w1_clean_old) = true.
Proof. repeat split; vm_compute; reflexivity. Qed.

(* ---- one parser object used for several calls -------------------------- *)

Lemma call_state_constant : forall E r, fst (call_step E r) = E.
Proof. reflexivity. Qed.

Lemma run_calls_map : forall E raws, run_calls E raws = map (cleanup E) raws.
Proof.
  intros E raws. induction raws as [|r rest IH]; [reflexivity|].
  cbn [run_calls call_step fst snd map]. now rewrite IH.
Qed.

Lemma run_calls_nth : forall E pre r post,
  nth_error (run_calls E (pre ++ r :: post)) (length pre) = Some (cleanup E r).
Proof.
  intros E pre r post. rewrite run_calls_map, map_app.
  rewrite nth_error_app2; rewrite map_length; [|apply Nat.le_refl].
  now rewrite Nat.sub_diag.
Qed.

(* "[a, {k: [b, c], k: d}, [], ]" parsed, then "a" parsed from the start symbol
   VALUE (the item symbol of the list and of the map), then the first text again *)
Definition w2_value_raw : rt := RNode sVALUE [RTok sWORD [97]%Z].
Definition w2_clean : te :=
  mkTe sE true (CList [CStr [97]%Z; CDict [(CStr [107]%Z, CStr [100]%Z)]; CList []]).

Lemma w2_history :
  run_calls (env_of w2_g [] sE true) [w2_raw; w2_value_raw; w2_raw] =
  [Ok w2_clean; Ok (mkTe sWORD true (CStr [97]%Z)); Ok w2_clean].
Proof. vm_compute. reflexivity. Qed.

(* ---- read-only entry points between the calls --------------------------- *)

Lemma hop_state_constant : forall E o, fst (hop_step E o) = E.
Proof. intros E [r|k]; reflexivity. Qed.

Lemma run_ops_calls : forall E ops, opt_cat (run_ops E ops) = run_calls E (calls_of ops).
Proof.
  intros E ops. induction ops as [|[r|k] rest IH]; [reflexivity| |].
  - cbn [run_ops hop_step call_step fst snd calls_of run_calls opt_cat]. now rewrite IH.
  - cbn [run_ops hop_step fst snd calls_of opt_cat]. exact IH.
Qed.

Lemma run_ops_nth : forall E ops pre r post,
  calls_of ops = pre ++ r :: post ->
  nth_error (opt_cat (run_ops E ops)) (length pre) = Some (cleanup E r).
Proof. intros E ops pre r post H. rewrite run_ops_calls, H. apply run_calls_nth. Qed.

Lemma w2_history_looks :
  run_ops (env_of w2_g [] sE true) [HLook 0; HCall w2_raw; HLook 3; HCall w2_value_raw; HLook 8; HLook 0; HCall w2_raw] =
  [None; Some (Ok w2_clean); None; Some (Ok (mkTe sWORD true (CStr [97]%Z))); None; None; Some (Ok w2_clean)].
Proof. vm_compute. reflexivity. Qed.

(* ------------------------------------------------------------------ *)
(* items that are DIRECTLY template symbols                             *)

(* w9: "[a, b; ; c]", LIST: ListProds('[','ROW',';',']'), ROW: ListProds(None,'WORD',',',None) *)
Definition o_list9 : lopts := lopts_of (list_ctor (Some sLB) sROW (Some sSEMI) (Some sRB) None None).
Definition o_row9 : lopts := lopts_of (list_ctor None sWORD (Some sCOMMA) None None None).
Definition E9 : env := env_of w9_g [] sE true.
Definition w9_list : rt := match w9_raw with RNode _ [l] => l | _ => RNull [] end.
Definition d9 : D := DList [DList [DAtom [97]%Z; DAtom [98]%Z]; DList []; DList [DAtom [99]%Z]].

Lemma o_list9_ok : lopts_ok sLIST o_list9.
Proof.
  constructor.
  - reflexivity.
  - intros _. split; reflexivity.
  - intros _. reflexivity.
  - notin.
  - discriminate.
  - vm_compute. discriminate.
  - notin.
  - notin.
Qed.

Lemma o_row9_ok : lopts_ok sROW o_row9.
Proof.
  constructor.
  - reflexivity.
  - vm_compute. discriminate.
  - vm_compute. discriminate.
  - notin.
  - discriminate.
  - vm_compute. discriminate.
  - notin.
  - notin.
Qed.

Ltac den_row9_tac ds :=
  eapply (den_list E9 sROW o_row9 _ ds);
  [ vm_compute; reflexivity | exact o_row9_ok | reflexivity | vm_compute; reflexivity | reflexivity
  | | left; reflexivity | right; simpl; discriminate ].

Ltac dens_compute :=
  match goal with |- dens _ ?l _ => let l' := eval vm_compute in l in change l with l' end.

Lemma w9_den : den E9 w9_list d9.
Proof.
  unfold d9.
  eapply (den_list E9 sLIST o_list9 _ [DList [DAtom [97]%Z; DAtom [98]%Z]; DList []; DList [DAtom [99]%Z]]);
    [ vm_compute; reflexivity | exact o_list9_ok | reflexivity | vm_compute; reflexivity | reflexivity
    | | right; simpl; discriminate | left; reflexivity ].
  dens_compute.
  constructor.
  { den_row9_tac [DAtom [97]%Z; DAtom [98]%Z]. dens_compute.
    constructor; [apply den_tok; vm_compute; reflexivity|].
    constructor; [apply den_tok; vm_compute; reflexivity|constructor]. }
  constructor.
  { (* the empty row: a leaf with value None that is not a token *)
    den_row9_tac (@nil D). dens_compute. constructor. }
  constructor; [|constructor].
  den_row9_tac [DAtom [99]%Z]. dens_compute.
  constructor; [apply den_tok; vm_compute; reflexivity|constructor].
Qed.

(* w10: "[s {k: [p]}; ; g]", LIST: ListProds('[','SEQ',';',']'), SEQ: ProdSequence('WORD','MAP'),
   MAP: MapProds('{','WORD',':','VALUE',',','}'), VALUE -> WORD | LIST *)
Definition o_list10 : lopts := lopts_of (list_ctor (Some sLB) sSEQ (Some sSEMI) (Some sRB) None None).
Definition E10 : env := env_of w10_g [] sE true.
Definition w10_list : rt := match w10_raw with RNode _ [l] => l | _ => RNull [] end.
Definition d10 : D :=
  DList [DSeq [(sWORD, DAtom [115]%Z); (sMAP, DMap [([107]%Z, DList [DSeq [(sWORD, DAtom [112]%Z)]])])];
         DSeq [];
         DSeq [(sWORD, DAtom [103]%Z)]].

Lemma o_list10_ok : lopts_ok sLIST o_list10.
Proof.
  constructor.
  - reflexivity.
  - intros _. split; reflexivity.
  - intros _. reflexivity.
  - notin.
  - discriminate.
  - vm_compute. discriminate.
  - notin.
  - notin.
Qed.

Lemma choice_value10 : choice_ok E10 sVALUE.
Proof. repeat split; vm_compute; reflexivity. Qed.

Ltac den_list10_tac ds :=
  eapply (den_list E10 sLIST o_list10 _ ds);
  [ vm_compute; reflexivity | exact o_list10_ok | reflexivity | vm_compute; reflexivity | reflexivity
  | | right; simpl; discriminate | left; reflexivity ].

Ltac den_tok10 := apply den_tok; vm_compute; reflexivity.

Lemma w10_den : den E10 w10_list d10.
Proof.
  unfold d10.
  den_list10_tac [DSeq [(sWORD, DAtom [115]%Z); (sMAP, DMap [([107]%Z, DList [DSeq [(sWORD, DAtom [112]%Z)]])])];
                  DSeq []; DSeq [(sWORD, DAtom [103]%Z)]].
  dens_compute.
  constructor.
  { (* the row "s {k: [p]}": a sequence leaf directly as the item *)
    apply den_seq; [vm_compute; reflexivity | left; reflexivity |].
    apply (densb_cons E10 (RTok sWORD [115]%Z)); [vm_compute; reflexivity | den_tok10 |].
    match goal with |- densb _ (?l :: _) _ => apply (densb_cons E10 l) end;
      [vm_compute; eexists; reflexivity | | constructor].
    eapply (den_map E10 sMAP o_map _ [(RTok sWORD [107]%Z, _)] [([107]%Z, DList [DSeq [(sWORD, DAtom [112]%Z)]])]);
      [ vm_compute; reflexivity | exact o_map_ok | reflexivity | vm_compute; reflexivity | reflexivity
      | vm_compute; reflexivity | ].
    constructor; [den_tok10 | | constructor].
    apply (den_choice E10 sVALUE); [exact choice_value10 | vm_compute; eexists; reflexivity |].
    den_list10_tac [DSeq [(sWORD, DAtom [112]%Z)]]. dens_compute.
    constructor; [|constructor].
    apply den_seq; [vm_compute; reflexivity | left; reflexivity |].
    apply (densb_cons E10 (RTok sWORD [112]%Z)); [vm_compute; reflexivity | den_tok10 | constructor]. }
  constructor.
  { (* the empty row *)
    apply den_seq; [vm_compute; reflexivity | left; reflexivity | constructor]. }
  constructor; [|constructor].
  apply den_seq; [vm_compute; reflexivity | left; reflexivity |].
  apply (densb_cons E10 (RTok sWORD [103]%Z)); [vm_compute; reflexivity | den_tok10 | constructor].
Qed.

Lemma w9_w10_clean :
  cleanup E9 w9_raw = Ok (mkTe sE true (enc d9)) /\ cleanup E10 w10_raw = Ok (mkTe sE true (enc d10)).
Proof. split; vm_compute; reflexivity. Qed.
