(* C16/LemTerm.v -- termination: every step either leaves the state as it is (a thread that is done, an
   Acquire on a held lock) or decreases [steps_left]; hence a schedule all of whose steps are effective
   finishes, and from every state of a step-closed set of states in which some thread can always move
   (LemLive: the reachable states) a finishing continuation exists.  Holds for ANY program. *)
From Coq Require Import ZArith List Bool Lia Arith.
From AK Require Import C16.Instr gen.C16_Consts C16.Model C16.LemList.
Import ListNotations.

Lemma list_sum_cons a l : list_sum (a :: l) = (a + list_sum l)%nat.
Proof. reflexivity. Qed.

Lemma sum_set_nth {A} (f : A -> nat) (l : list A) t x y :
  nth_error l t = Some x ->
  (list_sum (map f (set_nth l t y)) + f x = list_sum (map f l) + f y)%nat.
Proof.
  revert t. induction l as [|a l IH]; intros [|t] H; cbn in H; try discriminate.
  - injection H as ->. cbn [set_nth map]. rewrite !list_sum_cons. lia.
  - cbn [set_nth map]. rewrite !list_sum_cons. specialize (IH t H). lia.
Qed.

Lemma sum_set_nth_lt {A} (f : A -> nat) (l : list A) t x y :
  nth_error l t = Some x -> (f y < f x)%nat ->
  (list_sum (map f (set_nth l t y)) < list_sum (map f l))%nat.
Proof. intros H Hlt. pose proof (sum_set_nth f l t x y H). lia. Qed.

Lemma iw_pos i : (1 <= iw i)%nat.
Proof. destruct i; cbn; lia. Qed.

Lemma cw_cons i c : cw (i :: c) = (iw i + cw c)%nat.
Proof. reflexivity. Qed.

Section Term.
Variables (cp : str) (prog : list instr).

Lemma exec_app a : forall b st, exec cp prog (a ++ b) st = exec cp prog b (exec cp prog a st).
Proof. induction a as [|t r IH]; intros b st; [reflexivity|]. cbn [app exec]. apply IH. Qed.

(* a thread whose code / todo shrink *)
Lemma put_lt st t th th' lk c :
  nth_error (threads st) t = Some th -> (work prog th' < work prog th)%nat ->
  (steps_left prog (mkS lk c (set_nth (threads st) t th')) < steps_left prog st)%nat.
Proof. intros Hn Hlt. unfold steps_left. cbn [threads]. exact (sum_set_nth_lt _ _ t th th' Hn Hlt). Qed.

Lemma die_lt st t th i c :
  nth_error (threads st) t = Some th -> code th = i :: c ->
  (steps_left prog (die st t th) < steps_left prog st)%nat.
Proof.
  intros Hn Hc. unfold die. apply (put_lt st t th); [exact Hn|].
  unfold work. cbn [code todo length]. rewrite Hc, cw_cons, Nat.mul_0_r. change (cw []) with 0%nat. pose proof (iw_pos i). lia.
Qed.

Lemma step_measure st t :
  step cp prog st t = st \/ (steps_left prog (step cp prog st t) < steps_left prog st)%nat.
Proof.
  unfold step. destruct (nth_error (threads st) t) as [th|] eqn:Hn; [|left; reflexivity].
  destruct (code th) as [|i c] eqn:Hc.
  - destruct (todo th) as [|h rest] eqn:Ht; [left; reflexivity|]. right.
    apply (put_lt st t th); [exact Hn|]. unfold work. cbn [code todo].
    rewrite Hc, Ht. cbn [length]. change (cw []) with 0%nat. rewrite Nat.mul_succ_r. lia.
  - assert (Hstep : forall lk cv rg, (steps_left prog (mkS lk cv (set_nth (threads st) t (mkT c (hdrs th) rg (todo th) (out th))))
                                       < steps_left prog st)%nat).
    { intros lk cv rg. apply (put_lt st t th); [exact Hn|]. unfold work. cbn [code todo].
      rewrite Hc, cw_cons. pose proof (iw_pos i). lia. }
    assert (Hfin : forall lk cv e, (steps_left prog (mkS lk cv (set_nth (threads st) t (finish th e))) < steps_left prog st)%nat).
    { intros lk cv e. apply (put_lt st t th); [exact Hn|]. unfold work, finish. cbn [code todo].
      rewrite Hc, cw_cons. change (cw []) with 0%nat. pose proof (iw_pos i). lia. }
    assert (Hdie : (steps_left prog (die st t th) < steps_left prog st)%nat) by exact (die_lt st t th i c Hn Hc).
    destruct i.
    + (* ICheck *)
      assert (Hpass : (steps_left prog (mkS (lock st) (ctr st)
                         (set_nth (threads st) t (mkT [IPass] (hdrs th) (regs th) (todo th) (out th)))) < steps_left prog st)%nat).
      { apply (put_lt st t th); [exact Hn|]. unfold work. cbn [code todo].
        rewrite Hc, !cw_cons. cbn [iw]. change (cw []) with 0%nat. lia. }
      right. destruct (ctr st); [destruct (supplied_test (hdrs th))|]; auto.
    + destruct (lock st); [left; reflexivity|right; apply Hstep].
    + right. destruct (lock st); [apply Hstep|exact Hdie].
    + right. destruct (ctr st); [apply Hstep|exact Hdie].
    + right. apply Hstep.
    + right. apply Hfin.
    + right. apply Hfin.
Qed.

Lemma work_zero th : work prog th = 0%nat -> code th = [] /\ todo th = [].
Proof.
  unfold work. intros H. split.
  - destruct (code th) as [|i c]; [reflexivity|]. rewrite cw_cons in H. pose proof (iw_pos i). lia.
  - destruct (todo th); [reflexivity|]. cbn [length] in H. rewrite Nat.mul_succ_r in H. lia.
Qed.

Lemma steps_left_zero st : steps_left prog st = 0%nat -> finished st.
Proof.
  unfold steps_left, finished. induction (threads st) as [|th l IH]; intros H; [constructor|].
  cbn [map] in H. rewrite list_sum_cons in H. constructor; [apply work_zero; lia|apply IH; lia].
Qed.

Lemma finished_steps_left st : finished st -> steps_left prog st = 0%nat.
Proof.
  unfold steps_left, finished. induction 1 as [|th l [Hc Ht] _ IH]; [reflexivity|].
  cbn [map]. rewrite list_sum_cons, IH. unfold work. rewrite Hc, Ht. cbn [length]. rewrite Nat.mul_0_r. reflexivity.
Qed.

Lemma finished_step st t : finished st -> step cp prog st t = st.
Proof.
  intros Hf. unfold step. destruct (nth_error (threads st) t) as [th|] eqn:Hn; [|reflexivity].
  unfold finished in Hf. rewrite Forall_forall in Hf.
  destruct (Hf th (nth_error_In _ _ Hn)) as [-> ->]. reflexivity.
Qed.

Lemma finished_dec st : {finished st} + {~ finished st}.
Proof.
  unfold finished. apply Forall_dec. intros th.
  destruct (code th); [|right; intros [H _]; discriminate].
  destruct (todo th); [left; auto|right; intros [_ H]; discriminate].
Qed.

(* a schedule whose steps all do something, at least as long as the work that is left, finishes *)
Lemma effective_finishes sched : forall st,
  effective cp prog st sched -> (steps_left prog st <= length sched)%nat -> finished (exec cp prog sched st).
Proof.
  induction sched as [|t r IH]; intros st He Hlen.
  - cbn [length] in Hlen. cbn [exec]. apply steps_left_zero. lia.
  - cbn [effective] in He. destruct He as [Hs He]. cbn [exec]. apply IH; [exact He|].
    cbn [length] in Hlen. destruct Hs as [Hf|Hne].
    + rewrite (finished_step st t Hf). rewrite (finished_steps_left st Hf). lia.
    + destruct (step_measure st t) as [E|Hlt]; [contradiction|lia].
Qed.

(* the number of effective steps is bounded: an effective schedule longer than the work left ends finished
   long before its end -- stated as: after [steps_left] steps of an effective schedule everything is finished *)
Lemma effective_prefix a : forall b st, effective cp prog st (a ++ b) -> effective cp prog st a.
Proof.
  induction a as [|t r IH]; intros b st H; [exact I|].
  cbn [app effective] in *. destruct H as [H1 H2]. split; [exact H1|]. exact (IH b _ H2).
Qed.

(* from every state of a step-closed set in which a non-finished state always has a thread that can move,
   an effective continuation that finishes exists *)
Lemma finish_from (P : state -> Prop) :
  (forall st t, P st -> P (step cp prog st t)) ->
  (forall st, P st -> ~ finished st -> exists t, step cp prog st t <> st) ->
  forall n st, P st -> (steps_left prog st <= n)%nat ->
  exists more, effective cp prog st more /\ finished (exec cp prog more st).
Proof.
  intros Hclosed Hprog. induction n as [|n IH]; intros st HP Hn.
  - exists []. split; [exact I|]. cbn [exec]. apply steps_left_zero. lia.
  - destruct (finished_dec st) as [Hf|Hnf].
    + exists []. split; [exact I|exact Hf].
    + destruct (Hprog st HP Hnf) as (t & Ht).
      destruct (step_measure st t) as [E|Hlt]; [contradiction|].
      assert (Hle : (steps_left prog (step cp prog st t) <= n)%nat) by lia.
      destruct (IH (step cp prog st t) (Hclosed st t HP) Hle) as (more & He & Hf).
      exists (t :: more). cbn [effective exec]. split; [split; [right; exact Ht|exact He]|exact Hf].
Qed.

End Term.
