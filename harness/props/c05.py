"""C05  List, map and sequence templates return exactly the denoted items  (ak/llparser.py)"""
import ast
import contextlib
import io
import logging
import os

from harness.lib import sx as SX

ID = "C05"
COQ_DIR = "C05"
RUN_MOD = "C05.Run"
MODEL_TARGETS = ["C05/Run.vo"]
PROOF_TARGETS = ["C05/Lemmas.vo", "C05/LemmasList.vo", "C05/LemmasMap.vo", "C05/LemmasSeq.vo", "C05/LemmasNest.vo",
                 "C05/Witness.vo", "C05/LemmasEx.vo"]
PROPS = ["C05/Props.v"]
ALLOWED_AXIOMS = []
IMPL_TIMEOUT = 20.0
COQ_SHARD = 40

RULE = ("random data D (Atom | List | Map | Seq | Absent; nesting depth <= 5, container length 0-6, repeated map keys) "
        "generated top-down from a random grammar of the family E -> TOP [';'], TOP = ListProds / MapProds / "
        "ProdSequence / item symbol, with every option combination the constructors accept (brackets or none, "
        "delimiter or none, allow_final_delimiter, optional), item symbols that are a terminal, a choice, a "
        "nullable choice, a single-child chain, a two-level choice or a kept symbol, or (kind 'direct') DIRECTLY a template "
        "symbol ROW = ProdSequence / bracket-less list with or without delimiter / bracket-less map / bracketed (optional) "
        "list or map, used as item of the top list, value of the top map and item / value of the inner LIST / MAP at every "
        "depth, with empty rows at every position; in a share of the grammars the start symbol reaches the top symbol through "
        "one or two single-production symbols (E -> E1 -> E2 -> TOP), a single-production symbol RW -> ROW stands between a "
        "container and its rows, and no ';' follows a bracket-less top container (the end of the text must then be found to "
        "follow the top symbol, its tail symbol and a nullable last item through a chain of FOLLOW dependencies); the "
        "`productions` dict handed to LLParser declares the symbols top-down, bottom-up (start symbol last, a template before "
        "its users), bottom-up rotated, or in a random order (55% of the grammars are not top-down; the denotation and the "
        "model do not depend on the order); D is rendered to text with "
        "random white space, line breaks, // and /* */ comments between the tokens (final delimiters where allowed, "
        "a forbidden final delimiter in the reject stream); the characters at which str.splitlines() breaks a line but which do "
        "not end a line of the tokenizer (FF, VT, FS/GS/RS, NEL, U+2028, U+2029, a lone CR) occur INSIDE the // comments "
        "(followed by text that would be items, delimiters or brackets if the comment ended there), inside /* */ comments, "
        "inside quoted items and keys, and between tokens; bracket-less delimited lists of nullable items whose text is made of "
        "delimiters only (2-5 items, all empty) at top level and as rows of lists / values of maps at every depth (round 5); "
        "every text is parsed with and without the default cleanup; plus "
        "every combination of constructor arguments of the three templates (productions only); plus histories (kind "
        "'hist'): ONE parser object of a random grammar of the family on which 5-12 calls are made one after another - "
        "the main text parsed at the beginning, in the middle and at the end (with parse(), parse(do_cleanup=False) + "
        "cleanup(), parse(do_cleanup=False)), other texts, rejected texts, calls with an explicit start_symbol_name "
        "(item / value / key symbols of the templates, the template symbols, any other non-terminal; with a text derived "
        "from that symbol or with a text the symbol does not derive), in ~30% of the histories a second parser object "
        "constructed in between (given the SAME keep_symbols set object, an equal set, or - expected to be refused - the "
        "same template objects under other symbol names) and used interleaved with the first; calls with debug=True, a "
        "src_name, the text given as a list / generator of lines; between the calls (also before the first one) 'look' steps "
        "= the read-only entry points of the parser object: print_detailed_descr(), ParserSummary.gen_detailed_descr(), "
        "StdCleanuper.gen_detailed_descr(), is_ambiguous(), str()/repr(), str()/gen_productions() of the templates, reading "
        "terminals / prods_map / parse_table / the cleanuper's sets, the printers and finders of the last returned tree, a "
        "text that is not accepted (the raised error and its str()); 12 (quick) / 60 (thorough) 'sweep' histories run every "
        "one of these entry points in turn on a grammar of every item kind with a parse before and after it.  Each call is also made on "
        "a parser object constructed for that call alone (its result must be equal; its raw tree is the model's input).  "
        "Non-trivial = a parsed text whose data contains a container with >= 2 entries or a container nested in a "
        "container; a history: at least two calls with cleanup on one object returned containers.")
TRUSTED_BASE = [
    "python dict(pairs): insertion ordered, a repeated key keeps its first position and takes the last value, list/dict keys raise "
    "TypeError (modelled by py_dict; compared with the implementation on every run)",
    "the tree handed to the cleanup is the one LLParser.parse(text, do_cleanup=False) returns (C01 is about that tree); the model does "
    "not parse: it cleans the implementation's raw tree, and flattens the implementation's tree of the same text under the grammar "
    "whose sequences are written as plain productions",
    "gen/C05_Consts.v: the four name suffixes of the generated symbols and the shape of the is_leaf() branch of StdCleanuper._cleanup "
    "(does it descend into the elements of a sequence) are read from ak/llparser.py by harness/props/c05.py:gen_consts (ast, fail-closed); "
    "likewise keep_copied: StdCleanuper.make initialises the cleanuper's keep_symbols with a copy of the constructor argument and "
    "changes it only by .add(start symbol)",
    "histories: the model has no parser state besides the cleanup environment made from the constructor arguments (call_step returns it "
    "unchanged, hop_step returns it unchanged for every read-only entry point HLook); that the implementation keeps nothing else "
    "between calls and that its reporting entry points (description printers, is_ambiguous, str/repr, table readers, error "
    "construction, tree printers) change nothing is compared on the generated histories only (every call "
    "against the model on the raw tree of a parser object made for that call alone, and against that object's own result), not proved "
    "of the source; which methods are 'read-only entry points' is a hand-made list (LOOKS in harness/props/c05.py)",
]
ASSUMPTIONS = [
    "no symbol has two equal productions (then _make_squash_data on the factorized productions equals the one on the original ones)",
    "ProdSequence items are symbol names (AnyTokenExcept items are expanded by the constructor and not modelled)",
    "template arguments are str / None / bool as documented; python is not run with -O (the constructor checks are assert statements)",
    "the item symbol of a template is not one of the template's own generated symbols and differs from its bracket/delimiter symbols "
    "(hypotheses of the denotation theorems)",
]
MODELLED = ("ak/llparser.py ListProds, MapProds (constructor, complete_init, gen_productions, transform_t_elem and helpers), "
            "ProdSequence.gen_productions, LLParser._process_seq_telement, StdCleanuper._make_squash_data/_cleanup, StdCleanuper.make (private "
            "keep set), a parser object used for a sequence of parse()/cleanup() calls (run_calls) with read-only entry points "
            "in between (run_ops); not modelled: "
            "tokenizer, parse loop (C01-C04), AnyTokenExcept, verify_grammar, source positions of cleaned elements")


class ExtractError(Exception):
    pass


# ------------------------------------------------------------------ constants
_LEAF_PLAIN = """
if t_elem.is_leaf():
    return elem_no_squash
"""
_LEAF_SEQ = """
if t_elem.is_leaf():
    if t_elem.name in self.seq_symbols and isinstance(t_elem.value, list):
        for child_elem in t_elem.value:
            self._cleanup(child_elem)
    return elem_no_squash
"""


_KEEP_COPY = "set() if keep_symbols is None else set(keep_symbols)"
_KEEP_ALIAS = "set() if keep_symbols is None else keep_symbols"


def _dump(stmts):
    return ast.dump(ast.Module(body=list(stmts), type_ignores=[]))


def _find_class(tree, name):
    for n in tree.body:
        if isinstance(n, ast.ClassDef) and n.name == name:
            return n
    raise ExtractError(f"class {name} not found")


def _find_method(cls, name):
    for n in cls.body:
        if isinstance(n, ast.FunctionDef) and n.name == name:
            return n
    raise ExtractError(f"method {cls.name}.{name} not found")


def _suffix_of(method, attr):
    """self.<attr> = f"{self.result_symbol}<suffix>"  -> suffix"""
    found = []
    for n in ast.walk(method):
        if isinstance(n, ast.Assign) and len(n.targets) == 1 and isinstance(n.targets[0], ast.Attribute) \
                and isinstance(n.targets[0].value, ast.Name) and n.targets[0].value.id == "self" and n.targets[0].attr == attr:
            v = n.value
            if isinstance(v, ast.JoinedStr) and len(v.values) == 2 and isinstance(v.values[0], ast.FormattedValue) \
                    and isinstance(v.values[0].value, ast.Attribute) and v.values[0].value.attr == "result_symbol" \
                    and isinstance(v.values[1], ast.Constant) and isinstance(v.values[1].value, str):
                found.append(v.values[1].value)
            elif isinstance(v, ast.Attribute) and v.attr == "result_symbol":
                continue        # list_tail_symbol = self.result_symbol (no brackets, no separator)
            elif isinstance(v, ast.Constant) and v.value is None:
                continue
            else:
                raise ExtractError(f"{attr}: unrecognised right-hand side")
    if len(found) != 1:
        raise ExtractError(f"{attr}: expected exactly one f-string assignment, found {len(found)}")
    if not found[0] or not all(32 < ord(c) < 127 for c in found[0]):
        raise ExtractError(f"{attr}: unreasonable suffix {found[0]!r}")
    return found[0]


def gen_consts(repo):
    src = open(os.path.join(repo, "ak", "llparser.py")).read()
    tree = ast.parse(src)
    sfx_tail = _suffix_of(_find_method(_find_class(tree, "ListProds"), "complete_init"), "list_tail_symbol")
    mp = _find_method(_find_class(tree, "MapProds"), "complete_init")
    sfx_pair = _suffix_of(mp, "kv_pair_symbol")
    sfx_kvtail = _suffix_of(mp, "kv_tail_symbol")
    sfx_elem = _suffix_of(_find_method(_find_class(tree, "ProdSequence"), "complete_init"), "element_symbol_name")
    if len({sfx_tail, sfx_pair, sfx_kvtail, sfx_elem}) != 4:
        raise ExtractError("generated symbol suffixes are not distinct")
    cu = _find_method(_find_class(tree, "StdCleanuper"), "_cleanup")
    leaf_ifs = [n for n in cu.body if isinstance(n, ast.If) and isinstance(n.test, ast.Call)
                and isinstance(n.test.func, ast.Attribute) and n.test.func.attr == "is_leaf"]
    if len(leaf_ifs) != 1:
        raise ExtractError("_cleanup: expected exactly one top-level `if t_elem.is_leaf():`")
    d = _dump([leaf_ifs[0]])
    if d == _dump(ast.parse(_LEAF_PLAIN).body):
        seq_cleaned = False
    elif d == _dump(ast.parse(_LEAF_SEQ).body):
        seq_cleaned = True
    else:
        raise ExtractError("_cleanup: unrecognised body of the is_leaf() branch")
    # the template lookup must come before the is_leaf test (an absent optional template symbol is a leaf)
    idx_leaf = cu.body.index(leaf_ifs[0])
    tm = [i for i, n in enumerate(cu.body) if isinstance(n, ast.If) and isinstance(n.test, ast.Compare)
          and isinstance(n.test.ops[0], ast.In) and isinstance(n.test.comparators[0], ast.Attribute)
          and n.test.comparators[0].attr == "prod_templates"]
    if len(tm) != 1 or tm[0] > idx_leaf:
        raise ExtractError("_cleanup: template dispatch not found before the is_leaf() test")
    # StdCleanuper.make: the keep_symbols set of the cleanuper is a private copy of the caller's set
    mk = _find_method(_find_class(tree, "StdCleanuper"), "make")
    asg = [n for n in mk.body if isinstance(n, ast.Assign) and len(n.targets) == 1 and isinstance(n.targets[0], ast.Name)
           and n.targets[0].id == "keep_symbols"]
    if len(asg) != 1:
        raise ExtractError("StdCleanuper.make: expected exactly one assignment to keep_symbols")
    d = ast.dump(asg[0].value)
    if d == ast.dump(ast.parse(_KEEP_COPY, mode="eval").body):
        keep_copied = True
    elif d == ast.dump(ast.parse(_KEEP_ALIAS, mode="eval").body):
        keep_copied = False
    else:
        raise ExtractError("StdCleanuper.make: unrecognised initialisation of keep_symbols")
    others = [n for n in ast.walk(mk) if isinstance(n, ast.Call) and isinstance(n.func, ast.Attribute)
              and isinstance(n.func.value, ast.Name) and n.func.value.id == "keep_symbols"]
    if [ast.dump(n) for n in others] != [ast.dump(ast.parse("keep_symbols.add(llparser.start_symbol_name)", mode="eval").body)]:
        raise ExtractError("StdCleanuper.make: keep_symbols is changed by something else than .add(llparser.start_symbol_name)")
    text = ("(* generated from ak/llparser.py by harness/props/c05.py -- do not edit *)\n"
            "From Coq Require Import ZArith List.\nImport ListNotations.\n"
            f"Definition sfx_tail : list Z := {SX.cstr(sfx_tail)}.\n"
            f"Definition sfx_kv_pair : list Z := {SX.cstr(sfx_pair)}.\n"
            f"Definition sfx_kv_tail : list Z := {SX.cstr(sfx_kvtail)}.\n"
            f"Definition sfx_element : list Z := {SX.cstr(sfx_elem)}.\n"
            f"Definition seq_cleaned : bool := {SX.cbool(seq_cleaned)}.\n"
            f"Definition keep_copied : bool := {SX.cbool(keep_copied)}.\n")
    return {"C05_Consts": text}


# ------------------------------------------------------------------ lexicon
TOKENIZER = r'''
(?P<SPACE>\s+)
|(?P<COMMENT>//.*)
|(?P<MLC>/\*)
|(?P<WORD>[a-z_][a-z0-9_]*)
|(?P<NUM>[0-9]+)
|"(?P<STR>[^"]*)"
|(?P<LB>\[)|(?P<RB>\])|(?P<LC>\{)|(?P<RC>\})|(?P<LP>\()|(?P<RP>\))|(?P<LA><)|(?P<RA>>)
|(?P<COMMA>,)|(?P<COLON>:)|(?P<SEMI>;)|(?P<EQ>=)|(?P<BAR>\|)
'''
SYNONYMS = {"LB": "[", "RB": "]", "LC": "{", "RC": "}", "LP": "(", "RP": ")", "LA": "<", "RA": ">",
            "COMMA": ",", "COLON": ":", "SEMI": ";", "EQ": "=", "BAR": "|"}
SPAN = {"MLC": r"(?P<END_MLC>(\*[^/]|[^*])*)\*/"}
SKIP = ["SPACE", "COMMENT", "MLC"]
PUNCT = set("[]{}()<>,:;=|")
ATOMS = ("WORD", "NUM", "STR")


def is_terminal(g, s):
    return s not in g["_p"]


def _index(g):
    g["_p"] = {n: sp for n, sp in g["prods"]}
    return g


# ------------------------------------------------------------------ grammar family
LIST_COMBOS = [  # (brackets, delimiter, afd, opt) as constructor arguments (None = omitted)
    (True, True, None, None), (True, True, True, None), (True, True, False, None), (True, True, None, True),
    (True, True, False, True), (True, True, True, False), (True, True, False, False),
    (True, False, None, None), (True, False, False, None), (True, False, None, True), (True, False, None, False),
    (False, True, None, None), (False, True, False, None), (False, False, None, None), (False, False, False, None),
]


def eff_list(spec):
    has_br = spec["open"] is not None
    has_d = spec["delim"] is not None
    afd = spec["afd"] if spec["afd"] is not None else (has_br and has_d)
    return has_br, has_d, bool(afd), bool(spec["opt"])


def gen_grammar(rng, force=None):
    """-> grammar dict; `force` may pin {"top": ..., "kind": ..., "combo": ...}"""
    force = force or {}
    kind = force.get("kind") or rng.choice(["choice", "choice", "nullable", "nullable", "chain", "single", "choice2", "keep", "chainnode",
                                            "direct", "direct"])
    if kind == "direct":
        return gen_grammar_direct(rng, force)
    top = force.get("top") or rng.choice(["list", "list", "list", "map", "seq", "value", "blist", "bmap", "optlist"])
    prods = []
    keep = []
    nullable_item = kind == "nullable"
    # inner containers
    inner_delim = "," if (nullable_item or rng.random() < 0.75) else None
    l_afd = rng.choice([None, True, False]) if inner_delim else rng.choice([None, False])
    l_opt = None
    use_list = rng.random() < 0.9
    use_map = rng.random() < 0.7
    use_seq = rng.random() < 0.6
    if kind == "single":
        use_list = use_map = use_seq = False
    if kind == "chainnode":
        use_seq = True
    atoms = rng.sample(ATOMS, rng.randint(1, 3))
    if "WORD" not in atoms and rng.random() < 0.7:
        atoms[0] = "WORD"
    conts = (["LIST"] if use_list else []) + (["MAP"] if use_map else []) + (["SEQB"] if use_seq else [])
    alts = [[a] for a in atoms] + [[c] for c in conts]
    rng.shuffle(alts)
    if kind in ("choice", "keep"):
        if len(alts) < 2:
            alts.append(["NUM"] if ["NUM"] not in alts else ["STR"])
        prods.append(["VALUE", {"t": "plain", "alts": alts}])
        if kind == "keep":
            keep = ["VALUE"] + (["LIST"] if rng.random() < 0.3 else [])
    elif kind == "nullable":
        alts2 = list(alts)
        alts2.insert(rng.randint(0, len(alts2)), [])
        prods.append(["VALUE", {"t": "plain", "alts": alts2}])
    elif kind == "chain":
        if len(alts) < 2 and rng.random() < 0.5:
            alts.append(["NUM"] if ["NUM"] not in alts else ["STR"])
        prods.append(["VALUE", {"t": "plain", "alts": [["V1"]]}])
        prods.append(["V1", {"t": "plain", "alts": [["V2"]]}])
        prods.append(["V2", {"t": "plain", "alts": alts}])
    elif kind == "chainnode":
        # a single-production chain that ends in an inner element with several children
        prods.append(["VALUE", {"t": "plain", "alts": [["V1"]]}])
        prods.append(["V1", {"t": "plain", "alts": [["SEQB"]]}])
    elif kind == "single":
        prods.append(["VALUE", {"t": "plain", "alts": [[atoms[0]]]}])
    elif kind == "choice2":
        c_alts = [[c] for c in conts]
        if c_alts:
            a_alts = [[a] for a in atoms]
            if len(a_alts) < 2 and rng.random() < 0.7:
                a_alts.append(["NUM"] if ["NUM"] not in a_alts else ["STR"])
            prods.append(["VALUE", {"t": "plain", "alts": [["ATOM"], ["CONT"]]}])
            prods.append(["ATOM", {"t": "plain", "alts": a_alts}])
            prods.append(["CONT", {"t": "plain", "alts": c_alts}])
        else:
            prods.append(["VALUE", {"t": "plain", "alts": [["ATOM"], ["ATOM2"]]}])
            prods.append(["ATOM", {"t": "plain", "alts": [["WORD"], ["NUM"]]}])
            prods.append(["ATOM2", {"t": "plain", "alts": [["STR"]]}])
    item_for_list = "VALUE" if (kind != "single" or rng.random() < 0.5) else atoms[0]
    if use_list:
        prods.append(["LIST", {"t": "list", "open": "[", "item": item_for_list, "delim": inner_delim, "close": "]",
                               "afd": l_afd, "opt": l_opt}])
    if use_map:
        keysym = rng.choice(["WORD", "STR", "KEY"])
        prods.append(["MAP", {"t": "map", "open": "{", "key": keysym, "assign": rng.choice([":", "="]), "val": "VALUE",
                              "delim": ",", "close": "}", "opt": None, "afd": rng.choice([None, None, True, False])}])
        if keysym == "KEY":
            prods.append(["KEY", {"t": "plain", "alts": [["WORD"], ["STR"]]}])
    if use_seq:
        el = [s for s in ("WORD", "NUM", "STR") if rng.random() < 0.6] or ["WORD"]
        if "NUM" in el and "STR" in el and rng.random() < 0.5:
            el = [s for s in el if s not in ("NUM", "STR")] + ["SATOM"]
        el += [c for c in conts if rng.random() < 0.7]
        rng.shuffle(el)
        prods.append(["SEQB", {"t": "plain", "alts": [["(", "SEQ", ")"]]}])
        prods.append(["SEQ", {"t": "seq", "syms": el}])
        if "SATOM" in el:
            prods.append(["SATOM", {"t": "plain", "alts": [["NUM"], ["STR"]]}])
    # the top symbol
    semi = rng.random() < 0.6
    head = []
    if top == "value":
        prods.append(["TOP", {"t": "plain", "alts": [["VALUE"]]}]) if rng.random() < 0.5 else None
        topsym = "TOP" if prods[-1][0] == "TOP" else "VALUE"
    elif top in ("list", "blist", "optlist"):
        combos = LIST_COMBOS
        if top == "blist":
            combos = [c for c in LIST_COMBOS if not c[0]]
        elif top == "optlist":
            combos = [c for c in LIST_COMBOS if c[3]]
        elif top == "list":
            combos = [c for c in LIST_COMBOS if c[0]]
        if nullable_item:
            combos = [c for c in combos if c[1]]
        br, dl, afd, opt = force.get("combo") or rng.choice(combos)
        item = "VALUE"
        if kind == "single" and rng.random() < 0.5:
            item = atoms[0]
        prods.append(["TOP", {"t": "list", "open": "<" if br else None, "item": item, "delim": "|" if dl else None,
                              "close": ">" if br else None, "afd": afd, "opt": opt}])
        topsym = "TOP"
        if not br:
            semi = (rng.random() < NOSEMI_X) if not dl else semi
        if opt:
            head = ["="] if rng.random() < 0.5 else []     # a keyword in front, so that an absent list is followed by something
    elif top in ("map", "bmap"):
        br = top == "map"
        keysym = rng.choice(["WORD", "STR", "NUM"])
        opt = rng.choice([None, None, True, False]) if br else None
        prods.append(["TOP", {"t": "map", "open": "<" if br else None, "key": keysym, "assign": rng.choice([":", "="]),
                              "val": "VALUE", "delim": "|", "close": ">" if br else None, "opt": opt,
                              "afd": rng.choice([None, True, False])}])
        topsym = "TOP"
        if opt:
            head = ["|"] if rng.random() < 0.5 else []
    else:
        el = [s for s in ("WORD", "NUM", "STR") if rng.random() < 0.6] or ["NUM"]
        el += [c for c in conts if rng.random() < 0.8]
        rng.shuffle(el)
        prods.append(["TOP", {"t": "seq", "syms": el}])
        topsym = "TOP"
        semi = True if rng.random() < 0.8 else semi
    start_chain(rng, prods, head + [topsym] + ([";"] if semi else []))
    g = {"start": "E", "keep": keep, "smart": rng.random() < 0.8, "prods": prods, "kind": kind, "top": top}
    return prune(g)


NOSEMI_X = 0.5


def start_chain(rng, prods, e_alt):
    """E -> e_alt, in a share of the grammars through one or two single-production symbols E -> E1 -> E2 -> e_alt: what may
    follow the top symbol (the end of the text when no ';' is demanded) then reaches the top symbol, its tail symbol and a
    nullable item symbol only through a chain of FOLLOW dependencies, and that E derives the empty text only through a chain
    of nullable symbols"""
    r = rng.random()
    chain = ["E"] + ([] if r < 0.6 else ["E1"] if r < 0.85 else ["E1", "E2"])
    for i, n in enumerate(chain):
        prods.insert(i, [n, {"t": "plain", "alts": [[chain[i + 1]] if i + 1 < len(chain) else e_alt]}])
ROW_KINDS = ["seq", "blist", "blist0", "bmap", "list", "optlist", "map", "optmap"]
ROW_NULLABLE = {"seq", "blist", "blist0", "bmap", "optlist", "optmap"}
DIRECT_TOPS = ["list", "blist", "optlist", "map", "bmap", "value"]


def gen_grammar_direct(rng, force):
    """grammars in which the ITEM symbol of a list / the VALUE symbol of a map is DIRECTLY a template symbol ROW (no choice
    or chain symbol in between): ROW = a ProdSequence, a bracket-less list (with or without delimiter), a bracket-less
    map, a bracketed (optional) list or map.  A raw ROW element is a leaf in several of these cases (a flattened sequence,
    an empty bracket-less container, an absent optional container) although it is not a token.  Rows are items of the
    top list / values of the top map and, through LIST / MAP (reached from the rows through VALUE or as sequence
    elements), of containers at every depth."""
    row = force.get("row") or rng.choice(ROW_KINDS)
    top = force.get("top") or rng.choice(DIRECT_TOPS)
    atoms = rng.sample(ATOMS, rng.randint(1, 3))
    if "WORD" not in atoms and rng.random() < 0.7:
        atoms[0] = "WORD"
    use_map = rng.random() < 0.7
    inner_row = rng.random() < 0.6          # the item symbol of LIST is ROW
    map_row = use_map and rng.random() < 0.5     # the value symbol of MAP is ROW
    if top == "value" and not map_row:
        inner_row = True
    row_nullable = row in ROW_NULLABLE
    # in a share of the grammars a single-production symbol RW -> ROW stands between a container and its rows (the cleanup
    # squashes it): what may follow a row then reaches ROW / ROW__TAIL only through a chain of FOLLOW dependencies
    rw = "RW" if rng.random() < 0.3 else "ROW"

    def rowsym():
        return rw if rng.random() < 0.8 else "ROW"
    prods = []
    alts = [[a] for a in atoms] + [["LIST"]] + ([["MAP"]] if use_map else [])
    rng.shuffle(alts)
    prods.append(["VALUE", {"t": "plain", "alts": alts}])
    if inner_row:
        prods.append(["LIST", {"t": "list", "open": "[", "item": rowsym(), "delim": ";", "close": "]",
                               "afd": rng.choice([None, True, False]), "opt": None}])
    else:
        prods.append(["LIST", {"t": "list", "open": "[", "item": "VALUE", "delim": ",", "close": "]",
                               "afd": rng.choice([None, True, False]), "opt": None}])
    keysym = rng.choice(["WORD", "STR", "KEY"])
    if use_map:
        prods.append(["MAP", {"t": "map", "open": "{", "key": keysym, "assign": rng.choice([":", "="]),
                              "val": rowsym() if map_row else "VALUE", "delim": ";" if map_row else ",", "close": "}",
                              "opt": None, "afd": rng.choice([None, None, True, False])}])
    r_item = "VALUE" if rng.random() < 0.7 else atoms[0]
    if row == "seq":
        el = [s for s in ATOMS if rng.random() < 0.5] or ["WORD"]
        el += ["LIST"] if rng.random() < 0.85 else []
        el += ["MAP"] if use_map and rng.random() < 0.6 else []
        rng.shuffle(el)
        prods.append(["ROW", {"t": "seq", "syms": el}])
    elif row in ("blist", "blist0"):
        prods.append(["ROW", {"t": "list", "open": None, "item": r_item, "delim": "," if row == "blist" else None, "close": None,
                              "afd": rng.choice([None, False]), "opt": None}])
    elif row in ("list", "optlist"):
        dl = "," if rng.random() < 0.8 else None
        prods.append(["ROW", {"t": "list", "open": "(", "item": r_item, "delim": dl, "close": ")",
                              "afd": rng.choice([None, True, False]) if dl else rng.choice([None, False]),
                              "opt": True if row == "optlist" else rng.choice([None, False])}])
    else:
        br = row != "bmap"
        # the value symbol is sometimes the key symbol itself (positions in the pair are then not found by name)
        prods.append(["ROW", {"t": "map", "open": "(" if br else None, "key": keysym, "assign": rng.choice([":", "="]),
                              "val": rng.choice(["VALUE", "VALUE", "VALUE", keysym]),
                              "delim": ",", "close": ")" if br else None,
                              "opt": True if row == "optmap" else (rng.choice([None, False]) if br else None),
                              "afd": rng.choice([None, True, False])}])
    if rw == "RW":
        prods.insert(rng.randint(0, len(prods)), ["RW", {"t": "plain", "alts": [["ROW"]]}])
    if keysym == "KEY":
        prods.append(["KEY", {"t": "plain", "alts": [["WORD"], ["STR"]]}])
    semi = rng.random() < 0.7
    head = []
    if top == "value":
        topsym = "VALUE"
    elif top in ("list", "blist", "optlist"):
        combos = [c for c in LIST_COMBOS if (c[0] if top == "list" else not c[0] if top == "blist" else c[3])]
        if row_nullable:
            combos = [c for c in combos if c[1]]
        br, dl, afd, opt = force.get("combo") or rng.choice(combos)
        prods.append(["TOP", {"t": "list", "open": "<" if br else None, "item": rw, "delim": "|" if dl else None,
                              "close": ">" if br else None, "afd": afd, "opt": opt}])
        topsym = "TOP"
        if not br:
            semi = rng.random() < NOSEMI_X
        if opt:
            head = ["="] if rng.random() < 0.5 else []
    else:
        br = top == "map"
        opt = rng.choice([None, None, True, False]) if br else None
        prods.append(["TOP", {"t": "map", "open": "<" if br else None, "key": rng.choice(["WORD", "STR", "NUM"]),
                              "assign": rng.choice([":", "="]), "val": rw, "delim": "|", "close": ">" if br else None,
                              "opt": opt, "afd": rng.choice([None, True, False])}])
        topsym = "TOP"
        if not br:
            semi = rng.random() < NOSEMI_X
        if opt:
            head = ["|"] if rng.random() < 0.5 else []
    start_chain(rng, prods, head + [topsym] + ([";"] if semi else []))
    g = {"start": "E", "keep": [], "smart": rng.random() < 0.8, "prods": prods, "kind": "direct", "top": top, "row": row}
    return prune(g)


def cont_nullable(g, s):
    """s is DIRECTLY a template symbol that derives the empty token string as an EMPTY CONTAINER (a bracket-less list or
    map, a sequence) - unlike a nullable choice symbol or an absent optional container, which give None"""
    sp = g["_p"].get(resolve(g, s))
    return bool(sp) and (sp["t"] == "seq" or (sp["t"] in ("list", "map") and sp["open"] is None))


def resolve(g, s):
    """the symbol a chain of single-production, single-symbol plain symbols (RW -> ROW) leads to"""
    for _ in range(8):
        sp = g["_p"].get(s)
        if not (sp and sp["t"] == "plain" and len(sp["alts"]) == 1 and len(sp["alts"][0]) == 1):
            break
        s = sp["alts"][0][0]
    return s


def prune(g):
    """drop unreachable symbols (the constructor rejects nothing for them, but they are noise)"""
    _index(g)
    seen, todo = set(), [g["start"]]
    while todo:
        s = todo.pop()
        if s in seen or s not in g["_p"]:
            continue
        seen.add(s)
        sp = g["_p"][s]
        if sp["t"] == "plain":
            for a in sp["alts"]:
                todo.extend(a)
        elif sp["t"] == "list":
            todo.append(sp["item"])
        elif sp["t"] == "map":
            todo += [sp["key"], sp["val"]]
        else:
            todo += sp["syms"]
    g["prods"] = [[n, sp] for n, sp in g["prods"] if n in seen]
    g["keep"] = [k for k in g["keep"] if k in seen]
    del g["_p"]
    return g


def nullables(g):
    _index(g)
    nul = set()
    changed = True
    while changed:
        changed = False
        for n, sp in g["prods"]:
            if n in nul:
                continue
            t = sp["t"]
            if t == "plain":
                ok = any(all(s in nul for s in a) for a in sp["alts"])
            elif t == "list":
                ok = bool(sp["opt"]) or sp["open"] is None
            elif t == "map":
                ok = bool(sp["opt"]) or sp["open"] is None
            else:
                ok = True
            if ok:
                nul.add(n)
                changed = True
    return nul


def need_depth(g):
    """minimal number of container levels a derivation of each symbol needs"""
    _index(g)
    INF = 99
    need = {n: INF for n, _ in g["prods"]}

    def nd(s):
        return need.get(s, 0)
    changed = True
    while changed:
        changed = False
        for n, sp in g["prods"]:
            if sp["t"] == "plain":
                v = min((max([nd(s) for s in a] + [0]) for a in sp["alts"]), default=INF)
            else:
                v = 1
            if v < need[n]:
                need[n] = v
                changed = True
    return need


# ------------------------------------------------------------------ data + rendering
WORDS = ["a", "b", "c", "k", "x", "y", "ab", "key", "val", "foo", "bar_1", "_z", "n0", "w"]
STRS = ["", "a", "x y", "k", "[1,2]", "a,b", "//no", "key", "z:z", "{",
        # quoted items that contain a character at which str.splitlines() would break the line (see LINE_BREAKISH)
        "p\x0cq", "l\u2028s", "f\x1cs", "n\x85", "\x0b", "c\rr, x", "u\u2029", "\x1d \x1e", "\x0c"]
ABSENT = None


class Deriver:
    def __init__(self, rng, g, max_depth, max_len, reject=False):
        self.rng, self.g = rng, g
        _index(g)
        self.nul = nullables(g)
        self.need = need_depth(g)
        self.max_len = max_len
        self.max_depth = max_depth
        self.reject = reject          # plant one forbidden final delimiter
        self.planted = False
        self.budget = 160             # tokens
        self.only_delims = 0.0        # round 5: share of the bracket-less delimited lists of nullable items made of 2+ EMPTY items

    def nd(self, s):
        return self.need.get(s, 0)

    def term(self, s):
        rng = self.rng
        if s == "WORD":
            w = rng.choice(WORDS)
            return {"a": w}, [["WORD", w]]
        if s == "NUM":
            w = str(rng.choice([0, 1, 7, 42, 100, 2024]))
            return {"a": w}, [["NUM", w]]
        if s == "STR":
            w = rng.choice(STRS)
            return {"a": w}, [["STR", w]]
        return "punct", [[s, s]]

    def derive(self, s, depth, no_absent=False):
        """-> (D, tokens); depth = container levels still allowed"""
        g, rng = self.g, self.rng
        if s not in g["_p"]:
            return self.term(s)
        sp = g["_p"][s]
        t = sp["t"]
        if t == "plain":
            alts = [a for a in sp["alts"] if max([self.nd(x) for x in a] + [0]) <= depth]
            if no_absent:
                alts2 = [a for a in alts if a and not all(x in self.nul for x in a)]
                alts = alts2 or alts
            if self.budget < 20:
                alts = sorted(alts, key=lambda a: max([self.nd(x) for x in a] + [0]))[:max(1, len(alts) // 2)]
            a = rng.choice(alts)
            if not a:
                return ABSENT, []
            toks, content = [], []
            for x in a:
                d, tk = self.derive(x, depth, no_absent=no_absent and len(a) == 1)
                toks += tk
                if d != "punct":
                    content.append(d)
            if len(content) != 1:
                raise ValueError(f"production {s} -> {a} has {len(content)} content symbols")
            return content[0], toks
        if t == "list":
            return self.d_list(sp, depth, no_absent)
        if t == "map":
            return self.d_map(sp, depth, no_absent)
        return self.d_seq(sp, depth)

    def length(self, depth, item_need):
        if depth - 1 < item_need or self.budget < 8 or self.max_len == 0:
            return 0
        r = self.rng.random()
        if r < 0.12:
            return 0
        if r < 0.3:
            return 1
        return self.rng.randint(2, self.max_len)

    def d_list(self, sp, depth, no_absent):
        rng = self.rng
        has_br, has_d, afd, opt = eff_list(sp)
        if opt and not no_absent and rng.random() < 0.25:
            return ABSENT, []
        if not has_br and no_absent:
            pass
        n = self.length(depth, self.nd(sp["item"]))
        item_nullable = sp["item"] in self.nul
        item_cont = cont_nullable(self.g, sp["item"])
        items, toks_items = [], []
        for i in range(n):
            d, tk = self.derive(sp["item"], depth - 1)
            items.append(d)
            toks_items.append(tk)
        if item_cont:
            # the item symbol is DIRECTLY a container that may be empty (no tokens).  What the texts denote, as the
            # implementation reads them (see the notes, "readings of empty rows"): "[ ]" is the empty list, never a list
            # of one empty row; a delimiter in front of the closing bracket is followed by an empty last row (so no final
            # delimiter is rendered or planted, whatever allow_final_delimiter says); the empty text of a bracket-less
            # list is one empty row
            if has_br and n == 1 and not toks_items[0]:
                r = self.derive_nonempty(sp["item"], depth - 1)
                if r:
                    items[0], toks_items[0] = r
                else:
                    n, items, toks_items = 0, [], []
            if not has_br and n == 0:
                n, items, toks_items = 1, [self.empty_of(sp["item"])], [[]]
            item_nullable = False
        if self.only_delims and not has_br and has_d and item_nullable and rng.random() < self.only_delims:
            # the text of the list is made of delimiters only: every delimiter separates two (empty) items
            n = rng.choice([2, 2, 3, 3, 4, 5])
            items, toks_items = [ABSENT] * n, [[] for _ in range(n)]
        final = False
        if n >= 1 and has_br and has_d and not item_cont:
            if afd:
                final = rng.random() < 0.4
            elif self.reject and not self.planted and not item_nullable and rng.random() < 0.6:
                final = True
                self.planted = True
        if item_nullable and n >= 1:
            if afd and items[-1] is ABSENT:
                final = True
            if n == 1 and items[0] is ABSENT and not (final and afd):
                d, tk = self.derive(sp["item"], depth - 1, no_absent=True)
                items[0], toks_items[0] = d, tk
            if not has_br and no_absent and all(x is ABSENT for x in items) and not has_d:
                pass
        toks = []
        if has_br:
            toks.append([sp["open"], sp["open"]])
        for i, tk in enumerate(toks_items):
            if i and has_d:
                toks.append([sp["delim"], sp["delim"]])
            toks += tk
        if final:
            toks.append([sp["delim"], sp["delim"]])
        if has_br:
            toks.append([sp["close"], sp["close"]])
        self.budget -= len(toks)
        return {"l": items}, toks

    def derive_nonempty(self, s, depth):
        for _ in range(6):
            d, tk = self.derive(s, depth, no_absent=True)
            if tk:
                return d, tk
        return None

    def empty_of(self, s):
        t = self.g["_p"][resolve(self.g, s)]["t"]
        return {"s": []} if t == "seq" else {"l": []} if t == "list" else {"m": []}

    def d_map(self, sp, depth, no_absent):
        rng = self.rng
        has_br = sp["open"] is not None
        afd = True if sp["afd"] is None else bool(sp["afd"])
        if sp["opt"] and not no_absent and rng.random() < 0.25:
            return ABSENT, []
        n = self.length(depth, self.nd(sp["val"]))
        pairs, toks = [], []
        if has_br:
            toks.append([sp["open"], sp["open"]])
        pool = None
        for i in range(n):
            if i:
                toks.append([sp["delim"], sp["delim"]])
            kd, ktk = self.derive(sp["key"], depth - 1, no_absent=True)
            if pool is None:
                pool = []
            if pool and rng.random() < 0.3:          # repeat an earlier key
                kd, ktk = rng.choice(pool)
            pool.append((kd, ktk))
            vd, vtk = self.derive(sp["val"], depth - 1)
            toks += ktk + [[sp["assign"], sp["assign"]]] + vtk
            pairs.append([kd["a"], vd])
        if n >= 1:
            if afd and rng.random() < 0.4:
                toks.append([sp["delim"], sp["delim"]])
            elif not afd and self.reject and not self.planted and rng.random() < 0.6 and sp["val"] not in self.nul:
                toks.append([sp["delim"], sp["delim"]])
                self.planted = True
        if has_br:
            toks.append([sp["close"], sp["close"]])
        self.budget -= len(toks)
        return {"m": pairs}, toks

    def d_seq(self, sp, depth):
        rng = self.rng
        syms = [s for s in sp["syms"] if self.nd(s) <= depth - 1]
        n = self.length(depth, 0) if syms else 0
        elems, toks = [], []
        for i in range(n):
            s = rng.choice(syms)
            d, tk = self.derive(s, depth - 1, no_absent=True)
            elems.append([s, d])
            toks += tk
        self.budget -= len(toks)
        return {"s": elems}, toks


COMMENTS = ["// c", "// [a, b] ;", "//", "// \"q\" {k: v}", "//x,"]
MLCS = ["/* c */", "/**/", "/* [ , ] ; */", "/* a\n b */", "/* {\n\n } */"]
# characters at which str.splitlines() breaks a line but text.split("\n") does not (the pool of harness/props/c01.py): the
# tokenizer reads a text line by line, a line ends at "\n" only, so these characters are ordinary characters of a to-end-of-line
# comment, of a /* */ comment and of a quoted item; between tokens they are white space
LINE_BREAKISH = ["\x0b", "\x0c", "\x1c", "\x1d", "\x1e", "\x85", "\u2028", "\u2029", "\r"]
TOKENISH = [" a, [b] ;", " k: v |", ",", " x", " \"q\"", " ] > )", "", " | a | b", "; ; {", " = 7"]


def comment(rng):
    """a to-end-of-line comment; in a share of the cases one of the LINE_BREAKISH characters occurs INSIDE it, followed by
    text that would be tokens (items, delimiters, brackets) if the comment ended there"""
    c = rng.choice(COMMENTS)
    if rng.random() < 0.45:
        k = rng.randint(2, len(c))
        c = c[:k] + rng.choice(["", " "]) + rng.choice(LINE_BREAKISH) + rng.choice(TOKENISH) + c[k:]
    return c


def ml_comment(rng):
    c = rng.choice(MLCS)
    if rng.random() < 0.3:
        k = rng.randint(2, len(c) - 2)
        c = c[:k] + rng.choice(LINE_BREAKISH) + rng.choice(TOKENISH + ["\n"]) + c[k:]
    return c


def render(rng, toks, messy):
    """tokens -> text with random skipped material between them"""
    out = []
    prev = None
    for name, val in toks:
        lex = '"' + val + '"' if name == "STR" else val
        sep = ""
        need = prev is not None and prev in ("WORD", "NUM") and name in ("WORD", "NUM")
        r = rng.random()
        if not messy:
            sep = " " if (need or r < 0.7) else ""
        else:
            if r < 0.25:
                sep = " "
            elif r < 0.35:
                sep = "\n"
            elif r < 0.45:
                sep = "  \t "
            elif r < 0.55:
                sep = " " + comment(rng) + "\n" + rng.choice(["", "  ", "\n"])
            elif r < 0.65:
                sep = rng.choice(["", " "]) + ml_comment(rng) + rng.choice(["", " ", "\n"])
            elif r < 0.7:
                sep = "\n\n   "
            elif r < 0.74:
                sep = rng.choice([" ", "", "\n"]) + rng.choice(LINE_BREAKISH) + rng.choice(["", " ", "\n"])
            else:
                sep = ""
            if need and sep == "":
                sep = " "
        if prev is None and not messy:
            sep = ""
        # '/' never starts a token of the lexicon, so a separator cannot glue to one; a STR value may contain anything but '"'
        out.append(sep + lex)
        prev = name
    tail = rng.choice(["", " ", "\n", " // end", "\n/* end */\n", " " + comment(rng), "\n" + ml_comment(rng)]) if messy else ""
    return "".join(out) + tail


def make_case(rng, g, reject=False, max_depth=None, max_len=6, toks_out=None, only_delims=0.0):
    """toks_out: a list that receives the tokens of the text (for texts cut at a token boundary)"""
    max_depth = max_depth or rng.choice([1, 2, 2, 3, 3, 4, 5])
    for _ in range(30):
        dv = Deriver(rng, g, max_depth, max_len, reject=reject)
        dv.only_delims = only_delims
        try:
            d, toks = dv.derive(g["start"], max_depth)
        except (ValueError, IndexError):
            continue
        if reject and not dv.planted:
            continue
        text = render(rng, toks, messy=rng.random() < 0.7)
        if toks_out is not None:
            toks_out[:] = toks
        gg = {k: v for k, v in g.items() if not k.startswith("_")}
        return {"k": "parse", "g": gg, "d": d, "text": text, "expect": "reject" if reject else "ok"}
    return None


# ------------------------------------------------------------------ cases
def ctor_cases():
    """every combination of constructor arguments (productions only)"""
    out = []
    for op in (None, "["):
        for cl in (None, "]"):
            for dl in (None, ","):
                for afd in (None, True, False):
                    for opt in (None, True, False):
                        out.append({"k": "prods", "n": "LST", "spec": {"t": "list", "open": op, "item": "IT", "delim": dl,
                                                                      "close": cl, "afd": afd, "opt": opt}})
    for op in (None, "{"):
        for cl in (None, "}"):
            for asg in (None, ":"):
                for dl in (None, ","):
                    for afd in (None, True, False):
                        for opt in (None, True, False):
                            if (asg is None or dl is None) and (afd is not None or opt is True):
                                continue
                            out.append({"k": "prods", "n": "MP", "spec": {"t": "map", "open": op, "key": "K", "assign": asg,
                                                                         "val": "V", "delim": dl, "close": cl, "opt": opt, "afd": afd}})
    for syms in ([], ["A"], ["A", "B", "C"], ["A", "A"]):
        out.append({"k": "prods", "n": "SQ", "spec": {"t": "seq", "syms": syms}})
    # degenerate symbol coincidences (the positions are found by name)
    out.append({"k": "prods", "n": "L", "spec": {"t": "list", "open": "[", "item": "L", "delim": ",", "close": "]", "afd": None, "opt": None}})
    out.append({"k": "prods", "n": "L", "spec": {"t": "list", "open": "X", "item": "X", "delim": "X", "close": "X", "afd": None, "opt": True}})
    out.append({"k": "prods", "n": "M", "spec": {"t": "map", "open": "{", "key": "K", "assign": ":", "val": "K", "delim": ",", "close": "}", "opt": None, "afd": None}})
    return out


def gen_cases(rng, tier):
    big = tier == "thorough"
    cases = list(ctor_cases())
    n_gram = 2400 if big else 170
    per = 4 if big else 3
    # every list option combination as the top symbol, with every item kind
    forced = []
    for combo in LIST_COMBOS:
        for kind in ("choice", "nullable", "chain", "single", "choice2", "keep", "chainnode"):
            if kind == "nullable" and not combo[1]:
                continue
            forced.append({"top": "optlist" if combo[3] else ("list" if combo[0] else "blist"), "kind": kind, "combo": combo})
    # item / value symbols that are DIRECTLY a template symbol: every row kind below every kind of top container
    for row in ROW_KINDS:
        for top in DIRECT_TOPS:
            for _ in range(2 if big else 1):
                forced.append({"kind": "direct", "row": row, "top": top})
    todo = forced + [None] * n_gram
    for f in todo:
        g = declare_order(rng, gen_grammar(rng, f))
        for i in range(per):
            c = make_case(rng, g, reject=False)
            if c:
                cases.append(c)
        if rng.random() < 0.6:
            c = make_case(rng, g, reject=True)
            if c:
                cases.append(c)
    for c in cases:
        if "g" in c:
            c["g"].pop("_p", None)
    return cases + hist_cases(rng, tier) + delims_only_cases(rng, tier)


# ---- round 5: bracket-less delimited lists of nullable items whose text is made of delimiters only ----------------
def delims_only_cases(rng, tier):
    """drawn after all older cases (their random stream stays what it was).  `| |` denotes three empty items, the empty
    text no item: at top level (the forced `blist` grammars with a nullable item symbol) and nested (rows `a, , b` /
    `, ,` of a bracketed list, of a map, of a bracket-less top list; the rows reach containers at every depth)"""
    out = []
    n = 60 if tier == "thorough" else 10
    for i in range(n):
        for combo in ((False, True, None, None), (False, True, False, None)):
            g = declare_order(rng, gen_grammar(rng, {"top": "blist", "kind": "nullable", "combo": combo}))
            for p in (1.0, 0.6):
                c = make_case(rng, g, only_delims=p)
                if c:
                    out.append(c)
    for i in range(n):
        for top in ("list", "map", "blist", "value"):
            g = gen_grammar_direct(rng, {"row": "blist", "top": top})
            _index(g)
            row, val = g["_p"].get("ROW"), g["_p"].get("VALUE")
            if not row or not val or row["item"] != "VALUE" or [] in val["alts"]:
                continue
            val["alts"].insert(rng.randint(0, len(val["alts"])), [])
            lst = g["_p"].get("LIST")
            if lst and lst["item"] == "VALUE" and lst["delim"] is None:
                continue
            g = declare_order(rng, prune(g))
            for p in (1.0, 0.5):
                c = make_case(rng, g, only_delims=p)
                if c:
                    out.append(c)
    for c in out:
        c["g"].pop("_p", None)
    return out


# ---- histories: one parser object, several calls ---------------------------------------------------------------
# the read-only entry points of a parser object / of a returned tree (the model's HLook steps); the position in this
# list is the label the model is given
LOOKS = ["descr",       # LLParser.print_detailed_descr() (stdout captured)
         "summary",     # the line generator behind it and behind the message of a GrammarError: ParserSummary.gen_detailed_descr()
         "cleanuper",   # StdCleanuper.gen_detailed_descr()
         "ambiguous",   # LLParser.is_ambiguous()
         "str",         # str() / repr() of the parser object
         "templates",   # str() and gen_productions() of every template object of the grammar
         "tables",      # reading the public tables: terminals, prods_map, parse_table (str() of every rule), skip_tokens ...
         "result",      # printers / finders of the last tree the parser returned: str, repr, gen_descr, printme, signature, clone, find_all ...
         "error"]       # a text that is not accepted: the raised error, its str() and src_pos
def nonterminals(g):
    return [n for n, _ in g["prods"]]


def sub_text(rng, g, sym, max_depth=3, max_len=4):
    """a text derived from the symbol `sym` of the grammar -> (d, text) or None"""
    for _ in range(10):
        dv = Deriver(rng, g, max_depth, max_len)
        try:
            d, toks = dv.derive(sym, max_depth, no_absent=True)
        except (ValueError, IndexError):
            continue
        finally:
            g.pop("_p", None)
        return d, render(rng, toks, messy=rng.random() < 0.5)
    return None


def make_history(rng, g, second=None, sweep=False):
    """one parser object of grammar g; the main text is parsed at the beginning, in the middle and at the end, with calls
    that give per-call arguments (start_symbol_name, do_cleanup) or fail in between.  second = None | "keep" (a second
    parser object with the same keep_symbols set object) | "copy" (equal but separate set) | "tmpl" (a second parser
    is constructed from the SAME template objects)"""
    main_toks = []
    for _ in range(8 if sweep else 1):
        main = make_case(rng, g, max_depth=rng.choice([2, 3, 3, 4]), max_len=4, toks_out=main_toks)
        if not main:
            return None
        if not sweep or sum(1 for tk in main_toks if tk[1] in (",", "|", ";")) >= 3:
            break           # a sweep wants a main text with some delimiters in it
    g.pop("_p", None)
    gg = main["g"]

    def opts(c):
        """per-call arguments that must not matter: debug=True (prints and logs the parse steps), a src_name, the text given
        as a list / a generator of lines instead of one string"""
        r = rng.random()
        if r < 0.12:
            c["debug"] = True
        elif r < 0.2:
            c["src"] = rng.choice(["f.txt", "", "input text", "<stdin>"])
        elif r < 0.3:
            c["as"] = rng.choice(["lines", "gen"])
        return c

    def default_call(c, clean=True, p=0):
        return opts({"op": "parse", "p": p, "text": c["text"], "start": None, "clean": clean, "d": c["d"], "expect": c["expect"]})

    def sym_call(sym, p=0, clean=True):
        r = sub_text(rng, g, sym)
        if r is None:
            return None
        return opts({"op": "parse", "p": p, "text": r[1], "start": sym, "clean": clean, "d": r[0], "expect": "any"})

    def look(p=0, what=None):
        """a read-only entry point of the parser object (or of the last result it returned)"""
        what = what or rng.choice(LOOKS + ["descr", "error"])
        st = {"op": "look", "p": p, "what": what}
        if what == "error":
            # a text that is not accepted.  Mostly the main text cut at a token boundary, so that the parser fails INSIDE a
            # container (the ParsingError is built from the table cell of the symbol that failed: a tail symbol when the
            # text ends right after a delimiter), sometimes with a stray token appended; garbage; a lexical error
            t = main["text"]
            n = len(main_toks)
            dl = [i + 1 for i, tk in enumerate(main_toks[:-1]) if tk[1] in (",", "|", ";")]
            k = rng.choice(dl) if (dl and rng.random() < 0.6) else rng.randint(0, max(0, n - 1))
            cut = render(rng, main_toks[:k], messy=False)
            st["text"] = rng.choice([cut, cut, cut, cut, cut, cut + rng.choice([" ,", " |", " ;", " ]", " :"]),
                                     t + rng.choice([" ]", " >", " ) ;", " , ,", " [ {"]), "@", rng.choice(["]", ";;", "[ , ,", "{ : }"])])
        return st

    nts = nonterminals(g)
    # the symbols a leak hurts most come first: item / value symbols of the templates, then the containers
    items = []
    for n, sp in g["prods"]:
        if sp["t"] == "list":
            items.append(sp["item"])
        elif sp["t"] == "map":
            items += [sp["val"], sp["key"]]
        elif sp["t"] == "seq":
            items += sp["syms"]
    items = [x for x in dict.fromkeys(items) if x in nts]
    conts = [n for n, sp in g["prods"] if sp["t"] != "plain"]

    def pick_sym():
        r = rng.random()
        pool = items if (r < 0.5 and items) else conts if (r < 0.75 and conts) else nts
        return rng.choice(pool)

    if sweep:
        # every read-only entry point in turn, the main text (or a second one) parsed before and after each
        other = make_case(rng, g, max_depth=3, max_len=4) or main
        empty = make_case(rng, g, max_depth=2, max_len=0) or other      # every container empty: "< >", "[ ]" ...
        g.pop("_p", None)
        steps = [default_call(main)]
        whats = LOOKS + ["error", "error"]
        rng.shuffle(whats)
        for i, what in enumerate(whats):
            steps.append(look(what=what))
            steps.append(default_call([main, empty, other][i % 3], clean=rng.choice([True, True, "two"])))
        # a call with debug=True (prints and logs every step of the parse), then the other texts once more
        dbg = default_call(main)
        dbg["debug"] = True
        steps += [dbg, default_call(empty), default_call(other)]
        rej = make_case(rng, g, reject=True, max_depth=2, max_len=3)
        g.pop("_p", None)
        if rej:
            # a call that raises (forbidden final delimiter), then the main text once more
            steps.append(default_call(rej, clean=rng.choice([True, "two", False])))
            steps.append(default_call(main))
        return {"k": "hist", "g": gg, "steps": steps, "second": "", "start2": None, "sweep": 1}
    steps = []
    p_look = rng.choice([0.0, 0.25, 0.25, 0.5])
    if rng.random() < 2 * p_look:
        steps.append(look())          # before the first text is parsed
    first = rng.random()
    if first < 0.55:
        steps.append(default_call(main))
        if rng.random() < p_look:
            steps.append(look())
    n_mid = rng.randint(2, 4)
    start2 = None
    for i in range(n_mid):
        r = rng.random()
        if r < 0.5:
            c = sym_call(pick_sym(), clean=rng.choice([True, True, True, "two", False]))
        elif r < 0.65:
            o = make_case(rng, g, max_depth=2, max_len=3)
            c = default_call(o, clean=rng.choice([True, "two", False])) if o else None
        elif r < 0.72:
            o = make_case(rng, g, reject=True, max_depth=2, max_len=3)
            c = default_call(o, clean=rng.choice([True, True, "two", False])) if o else None
        elif r < 0.78:
            # a text of the whole grammar handed to some other start symbol: usually a call that raises
            c = {"op": "parse", "p": 0, "text": main["text"], "start": pick_sym(), "clean": rng.choice([True, True, "two"]),
                 "d": None, "expect": "any"}
        elif r < 0.85:
            c = default_call(main, clean=False)
        else:
            c = {"op": "parse", "p": 0, "text": main["text"], "start": g["start"], "clean": True, "d": main["d"], "expect": "ok"}
        g.pop("_p", None)
        if c:
            steps.append(c)
        if second and start2 is None and (i == 0 or rng.random() < 0.5):
            if second == "tmpl":
                steps.append({"op": "ctor2", "how": "tmpl", "start": g["start"]})
                start2 = g["start"]
            else:
                start2 = pick_sym() if rng.random() < 0.8 else g["start"]
                steps.append({"op": "ctor2", "how": second, "start": start2})
                for _ in range(rng.randint(1, 2)):
                    c2 = sym_call(start2, p=1)
                    if c2:
                        c2["start"] = None if rng.random() < 0.7 else start2
                        steps.append(c2)
        if rng.random() < p_look:
            steps.append(look(p=1 if (start2 is not None and second != "tmpl" and rng.random() < 0.3) else 0))
        if rng.random() < 0.35:
            steps.append(default_call(main, clean=rng.choice([True, True, "two"])))
    if p_look and not any(st["op"] == "look" for st in steps):
        steps.append(look())
    steps.append(default_call(main))
    if second in ("keep", "copy") and start2 is not None:
        c2 = sym_call(start2, p=1)
        if c2:
            c2["start"] = None
            steps.append(c2)
    other = make_case(rng, g, max_depth=3, max_len=4)
    g.pop("_p", None)
    if other:
        steps.append(default_call(other))
    return {"k": "hist", "g": gg, "steps": steps, "second": second or "", "start2": start2}


def hist_cases(rng, tier):
    big = tier == "thorough"
    out = []
    kinds = ["choice", "choice", "nullable", "chain", "choice2", "keep", "chainnode", "single", "direct", "direct"]
    n = 700 if big else 120
    for i in range(n):
        g = declare_order(rng, gen_grammar(rng, {"kind": kinds[i % len(kinds)]}))
        r = rng.random()
        second = None
        if r < 0.12:
            second = "copy"
        elif r < 0.2:
            second = "tmpl"
        elif r < 0.32:
            second = "keep"
        h = make_history(rng, g, second)
        if h:
            out.append(h)
    # sweeps: on a grammar of every item kind, every read-only entry point with a parse before and after it
    for i in range(60 if big else 12):
        kd = (kinds + ["nullable", "direct"])[i % (len(kinds) + 2)]
        force = {"kind": kd}
        if kd == "nullable":
            # the order of the alternatives of a list with a nullable item matters most when no final delimiter is allowed
            force.update({"top": "list", "combo": (True, True, False, None)})
        h = make_history(rng, declare_order(rng, gen_grammar(rng, force)), sweep=True)
        if h:
            out.append(h)
    return out


def kind(case):
    if case["k"] == "prods":
        return "prods:" + case["spec"]["t"]
    if case["k"] == "hist":
        return f"hist:{'sweep' if case.get('sweep') else case.get('second') or 'one'}:{case['g'].get('kind')}"
    g = case["g"]
    return f"{case['expect']}:{g.get('top')}:{g.get('kind')}" + (f":{g['row']}" if g.get("row") else "")


# ------------------------------------------------------------------ implementation
def declared(g):
    """the productions of g in the order in which they are DECLARED in the `productions` dict handed to LLParser:
    g["order"] (a permutation of the symbol names) when present, else the top-down order of g["prods"].  What the
    grammar denotes (and the model's result) does not depend on it"""
    order = g.get("order")
    if not order:
        return list(g["prods"])
    by = {n: sp for n, sp in g["prods"]}
    names = [n for n in order if n in by] + [n for n, _ in g["prods"] if n not in order]
    return [[n, by[n]] for n in names]


def declare_order(rng, g, p=0.55):
    """in a share of the grammars the symbols are declared bottom-up (start symbol last, a template before its users)
    or in a random order"""
    names = [n for n, _ in g["prods"]]
    if len(names) < 2 or rng.random() >= p:
        return g
    r = rng.random()
    if r < 0.6:
        names.reverse()
    elif r < 0.75:
        # bottom-up, but the start symbol second to last / rotated: the last declared symbol is not the start symbol
        names.reverse()
        k = rng.randint(1, len(names) - 1)
        names = names[k:] + names[:k]
    else:
        rng.shuffle(names)
    g["order"] = names
    return g


def build_productions(g, llparser, deseq):
    prods = {}
    tmpl = {}
    for name, sp in declared(g):
        t = sp["t"]
        if t == "plain":
            prods[name] = [tuple(a) if a else None for a in sp["alts"]]
        elif t == "list":
            kw = {}
            if sp["afd"] is not None:
                kw["allow_final_delimiter"] = sp["afd"]
            if sp["opt"] is not None:
                kw["optional"] = sp["opt"]
            prods[name] = tmpl[name] = llparser.ListProds(sp["open"], sp["item"], sp["delim"], sp["close"], **kw)
        elif t == "map":
            kw = {}
            if sp["afd"] is not None:
                kw["allow_final_delimiter"] = sp["afd"]
            if sp["opt"] is not None:
                kw["optional"] = sp["opt"]
            prods[name] = tmpl[name] = llparser.MapProds(sp["open"], sp["key"], sp["assign"], sp["val"], sp["delim"], sp["close"], **kw)
        elif deseq:
            prods[name] = [(name + "xELEMENT", name), None]
            prods[name + "xELEMENT"] = [(s,) for s in sp["syms"]]
        else:
            prods[name] = tmpl[name] = llparser.ProdSequence(*sp["syms"])
    return prods, tmpl


def raw_obs(t):
    v = t.value
    if v is None:
        return [1, t.name]
    if isinstance(v, str):
        return [0, t.name, v]
    if isinstance(v, list):
        return [3 if t.is_leaf() else 2, t.name, [raw_obs(c) for c in v]]
    raise TypeError(f"unexpected raw value {type(v)}")


def clean_obs(x, TElement):
    if x is None:
        return ["n"]
    if isinstance(x, str):
        return ["s", x]
    if isinstance(x, list):
        return ["l", [clean_obs(e, TElement) for e in x]]
    if isinstance(x, dict):
        return ["d", [[clean_obs(k, TElement), clean_obs(v, TElement)] for k, v in x.items()]]
    if isinstance(x, TElement):
        return ["e", x.name, bool(x.is_leaf()), clean_obs(x.value, TElement)]
    return ["?", type(x).__name__]


def _guard(f):
    try:
        return ["ok", f()]
    except BaseException as e:  # noqa
        if type(e).__name__ == "Hang":
            raise
        return ["err", SX.exc_name(e)]


def _gen_prods(t):
    return [[s, [list(p) for p in pp]] for s, pp in t.gen_productions()]


def impl_run(case):
    from ak import llparser
    if case["k"] == "prods":
        sp = case["spec"]

        def mk():
            g = {"prods": [[case["n"], sp]]}
            _, tm = build_productions(g, llparser, False)
            t = tm[case["n"]]
            t.complete_init(case["n"], {"A", "B", "C", "[", "]", ",", "{", "}", ":"}, None)
            return _gen_prods(t)
        return {"r": _guard(mk)}
    if case["k"] == "hist":
        return impl_hist(case, llparser)
    g = case["g"]
    out = {}

    def ctor(deseq):
        prods, tm = build_productions(g, llparser, deseq)
        p = llparser.LLParser(TOKENIZER, synonyms=SYNONYMS, span_matchers=SPAN, skip_tokens=set(SKIP), productions=prods,
                              start_symbol_name=g["start"], keep_symbols=set(g["keep"]) if g["keep"] else None,
                              smart_factorization=g["smart"])
        return p, tm
    r = _guard(lambda: ctor(False))
    if r[0] == "err":
        return {"ctor": r}
    p, tm = r[1]
    out["ctor"] = ["ok"]
    out["prods"] = [pr for name, sp in g["prods"] if name in tm for pr in _gen_prods(tm[name])]
    for name, sp in g["prods"]:
        if sp["t"] == "seq" and tm[name].element_symbol_name.startswith(name):
            out["sfx_element"] = tm[name].element_symbol_name[len(name):]
    text = case["text"]
    out["raw"] = _guard(lambda: raw_obs(p.parse(text, do_cleanup=False)))
    out["clean"] = _guard(lambda: clean_obs(p.parse(text), llparser.TElement))
    # cleanup as a separate step gives the same tree
    def two_step():
        x = p.parse(text, do_cleanup=False)
        p.cleanup(x)
        return clean_obs(x, llparser.TElement)
    out["clean2"] = _guard(two_step)
    if any(sp["t"] == "seq" for _, sp in g["prods"]) and out["raw"][0] == "ok":
        r2 = _guard(lambda: ctor(True))
        if r2[0] == "ok":
            out["raw2"] = _guard(lambda: raw_obs(r2[1][0].parse(text, do_cleanup=False)))
        else:
            out["raw2"] = r2
    return out


def _mutable_ids(x, TElement, acc, twice=None):
    """ids of the mutable objects (tree elements, lists, dicts) a result consists of; twice: those met more than once"""
    if isinstance(x, (TElement, list, dict)):
        if id(x) in acc:
            if twice is not None:
                twice.append(type(x).__name__)
            return acc
        acc.add(id(x))
        if isinstance(x, TElement):
            _mutable_ids(x.value, TElement, acc, twice)
        elif isinstance(x, list):
            for e in x:
                _mutable_ids(e, TElement, acc, twice)
        else:
            for k, v in x.items():
                _mutable_ids(k, TElement, acc, twice)
                _mutable_ids(v, TElement, acc, twice)
    return acc


class _LogSink(logging.Handler):
    """formats every record (so that the arguments of the log calls are rendered) and drops it"""
    def emit(self, record):
        self.format(record)


def impl_hist(case, llparser):
    lg = logging.getLogger(llparser.__name__)
    sink = _LogSink()
    prop = lg.propagate
    lg.addHandler(sink)
    lg.propagate = False
    try:
        return _impl_hist(case, llparser)
    finally:
        lg.removeHandler(sink)
        lg.propagate = prop


def _impl_hist(case, llparser):
    """one parser object (two after a ctor2 step), the calls of case["steps"] one after another.  Per call:
    r = what the call gave on the used parser object, f = what the same call gives on a parser object made for it alone,
    raw = parse(text, do_cleanup=False, start_symbol_name=..) of yet another new parser object (the model's input)"""
    g = case["g"]
    TE = llparser.TElement

    def ctor(start, keep=None, prods=None):
        if prods is None:
            prods, _ = build_productions(g, llparser, False)
        if keep is None:
            keep = set(g["keep"]) if g["keep"] else None
        return llparser.LLParser(TOKENIZER, synonyms=SYNONYMS, span_matchers=SPAN, skip_tokens=set(SKIP), productions=prods,
                                 start_symbol_name=start, keep_symbols=keep, smart_factorization=g["smart"])

    def call(p, st):
        kw = {}
        if st["start"] is not None:
            kw["start_symbol_name"] = st["start"]
        if st.get("debug"):
            kw["debug"] = True
        if "src" in st:
            kw["src_name"] = st["src"]
        text = st["text"]
        if st.get("as") == "lines":
            text = text.split("\n")
        elif st.get("as") == "gen":
            text = (ln for ln in st["text"].split("\n"))
        with contextlib.redirect_stdout(io.StringIO()):
            if st["clean"] is True:
                x = p.parse(text, **kw)
            else:
                x = p.parse(text, do_cleanup=False, **kw)
                if st["clean"] == "two":
                    p.cleanup(x)
        return x

    def do_look(p, st, last):
        """-> text of what the entry point reported (compared with what a parser object made for this step alone reports)"""
        what = st["what"]
        buf = io.StringIO()
        with contextlib.redirect_stdout(buf):
            if what == "descr":
                p.print_detailed_descr()
            elif what == "summary":
                print("\n".join(p._summary.gen_detailed_descr()))
            elif what == "cleanuper":
                print("\n".join(p.cleanuper.gen_detailed_descr()))
            elif what == "ambiguous":
                print(p.is_ambiguous())
            elif what == "str":
                print(len(str(p)) > 0, len(repr(p)) > 0)
            elif what == "templates":
                for n, t in sorted(p.prod_templates.items()):
                    print(n, str(t), [[sy, [tuple(a) for a in pp]] for sy, pp in t.gen_productions()])
            elif what == "tables":
                print(sorted(p.terminals), sorted(p.skip_tokens), p.start_symbol_name)
                for sy, rules in p.prods_map.items():
                    print(sy, [str(r) for r in rules], [(r.symbol, r.production) for r in rules])
                for key, rules in p.parse_table.items():
                    print(key, len(rules), [str(r) for r in rules])
                cu = p.cleanuper
                print(sorted(cu.keep_symbols), sorted(cu.choice_symbols), sorted(cu.squash_symbols), sorted(cu.seq_symbols),
                      sorted(cu.prod_templates))
            elif what == "result":
                if last is None:
                    print("no result yet")
                else:
                    x, text = last
                    for f in (lambda: str(x), lambda: repr(x), lambda: "\n".join(x.gen_descr()), lambda: x.printme(),
                              lambda: str(x.signature()), lambda: repr(x.clone()), lambda: x.span,
                              lambda: [e.name for e in x.find_all()], lambda: [e.name for e in x.find_all(bottom_first=True)],
                              lambda: x.find_first(), lambda: [e.name for e in x.iter_all(exclude_root=False)],
                              lambda: x.get_orig_text(text), lambda: x.get("WORD"), lambda: x.get_path_val("TOP"),
                              lambda: x.is_leaf()):
                        try:
                            print(f())
                        except Exception as e:  # noqa  (some finders do not accept every cleaned tree: only reported)
                            print("raises", SX.exc_name(e))
            elif what == "error":
                try:
                    x = p.parse(st["text"])
                    print("accepted")
                except llparser.Error as e:
                    print(SX.exc_name(e), str(e), repr(e), getattr(e, "src_pos", None))
        return buf.getvalue()

    def show(st, x):
        return raw_obs(x) if st["clean"] is False else clean_obs(x, TE)

    shared_keep = set(g["keep"])          # the caller's set object (given to both parsers when how == "keep")
    keep_before = sorted(shared_keep)
    prods0, tm0 = build_productions(g, llparser, False)
    r = _guard(lambda: ctor(g["start"], keep=shared_keep if case.get("second") == "keep" else None, prods=prods0))
    if r[0] == "err":
        return {"ctor": r}
    parsers = {0: r[1]}
    starts = {0: g["start"]}
    out = {"ctor": ["ok"], "steps": []}
    out["prods"] = [pr for name, sp in g["prods"] if name in tm0 for pr in _gen_prods(tm0[name])]
    held = []          # (step index, result object, its picture right after the call)
    last = {}          # parser -> (its latest result, the text)
    for i, st in enumerate(case["steps"]):
        if st["op"] == "look":
            p = parsers.get(st["p"])
            if p is None:
                out["steps"].append({"skip": 1})
                continue
            # what the entry point reports is not an observable of this property (only what the calls after it return is);
            # kept: did it raise, and for a text that is not accepted the class of the error on this parser object and
            # on one made for this step alone
            o = {}
            lk = _guard(lambda: do_look(p, st, last.get(st["p"])))
            o["look"] = [lk[0], lk[1].split(" ", 1)[0].strip() if (lk[0] == "ok" and st["what"] == "error") else "" if lk[0] == "ok" else lk[1]]
            if st["what"] == "error":
                lf = _guard(lambda: do_look(ctor(starts[st["p"]]), st, None))
                o["lf"] = [lf[0], lf[1].split(" ", 1)[0].strip() if lf[0] == "ok" else lf[1]]
            out["steps"].append(o)
            continue
        if st["op"] == "ctor2":
            if st["how"] == "tmpl":
                # the same template objects under other symbol names in a second grammar
                ren = {n: n + "B" for n in tm0}
                prods2 = {ren.get(n, n): (v if n in tm0 else [tuple(ren.get(x, x) for x in a) if a else None for a in v])
                          for n, v in prods0.items()}
                r2 = _guard(lambda: ctor(st["start"], prods=prods2))
            else:
                r2 = _guard(lambda: ctor(st["start"], keep=shared_keep if st["how"] == "keep" else None))
            if r2[0] == "ok":
                parsers[1] = r2[1]
                starts[1] = st["start"]
            out["steps"].append({"ctor2": [r2[0]] if r2[0] == "ok" else r2})
            continue
        p = parsers.get(st["p"])
        if p is None:
            out["steps"].append({"skip": 1})
            continue
        o = {}
        try:
            x = call(p, st)
            o["r"] = ["ok", show(st, x)]
            held.append((i, x, o["r"][1]))
            last[st["p"]] = (x, st["text"])
        except BaseException as e:  # noqa
            if type(e).__name__ == "Hang":
                raise
            o["r"] = ["err", SX.exc_name(e)]
        s0 = starts[st["p"]]
        o["f"] = _guard(lambda: show(st, call(ctor(s0), st)))
        if st["clean"] is not False:
            kw = {"start_symbol_name": st["start"]} if st["start"] is not None else {}
            o["raw"] = _guard(lambda: raw_obs(ctor(s0).parse(st["text"], do_cleanup=False, **kw)))
        out["steps"].append(o)
    # results are separate objects and stay what they were
    ids, within = [], []
    for i, x, _ in held:
        tw = []
        ids.append((i, _mutable_ids(x, TE, set(), tw)))
        if tw:
            within.append([i, i])
    out["alias"] = (within + [[i, j] for a, (i, si) in enumerate(ids) for (j, sj) in ids[a + 1:] if si & sj])[:5]
    out["mut"] = [i for i, x, pic in held
                  if (raw_obs(x) if case["steps"][i]["clean"] is False else clean_obs(x, TE)) != pic][:5]
    out["keepset"] = [keep_before, sorted(shared_keep)]
    return out


# ------------------------------------------------------------------ model side
VOCAB = (["E", "E1", "E2", "TOP", "VALUE", "V1", "V2", "ATOM", "ATOM2", "CONT", "LIST", "MAP", "SEQ", "SEQB", "KEY", "SATOM", "WORD", "NUM", "STR", "ROW", "RW"]
         + sorted(PUNCT))
_GEN = []
for _n in ("TOP", "LIST", "MAP", "SEQ", "ROW"):
    _GEN += [_n + "__TAIL", _n + "__KV_PAIR", _n + "__ELEMENTS", _n + "__ELEMENT", _n + "xELEMENT"]
VOCAB_ID = {s: f"yy{i}" for i, s in enumerate(VOCAB + _GEN)}
COQ_PRELUDE = "\n".join(f"Definition {i} : list Z := {SX.cstr(s)}." for s, i in VOCAB_ID.items())


def csym(s):
    return VOCAB_ID.get(s) or SX.cstr(s)


def copt_sym(s):
    return "None" if s is None else f"(Some {csym(s)})"


def copt_bool(b):
    return "None" if b is None else f"(Some {SX.cbool(b)})"


def csyms(l):
    return SX.clist(csym(s) for s in l) if l else "(@nil (list Z))"


def cspec(sp):
    t = sp["t"]
    if t == "plain":
        return "(PPlain " + (SX.clist(csyms(a) for a in sp["alts"]) if sp["alts"] else "(@nil (list (list Z)))") + ")"
    if t == "list":
        return (f"(PList {copt_sym(sp['open'])} {csym(sp['item'])} {copt_sym(sp['delim'])} {copt_sym(sp['close'])} "
                f"{copt_bool(sp['afd'])} {copt_bool(sp['opt'])})")
    if t == "map":
        return (f"(PMap {copt_sym(sp['open'])} {csym(sp['key'])} {copt_sym(sp['assign'])} {csym(sp['val'])} "
                f"{copt_sym(sp['delim'])} {copt_sym(sp['close'])} {copt_bool(sp['opt'])} {copt_bool(sp['afd'])})")
    return f"(PSeq {csyms(sp['syms'])})"


def crt(t, ren=None):
    """ren: renaming of the element helper symbols of the de-templated grammar (SEQxELEMENT -> SEQ__ELEMENT)"""
    k = t[0]
    name = ren.get(t[1], t[1]) if ren else t[1]
    if k == 0:
        return f"(RTok {csym(name)} {SX.cstr(t[2])})"
    if k == 1:
        return f"(RNull {csym(name)})"
    ch = SX.clist(crt(c, ren) for c in t[2]) if t[2] else "(@nil rt)"
    return f"({'RNode' if k == 2 else 'RSeq'} {csym(name)} {ch})"


def coq_case(case, obs):
    if case["k"] == "prods":
        return f"CProds {csym(case['n'])} {cspec(case['spec'])}"
    g = case["g"]
    gs = SX.clist(f"({csym(n)}, {cspec(sp)})" for n, sp in g["prods"])
    if case["k"] == "hist":
        ops = {0: [], 1: []}
        for st, o in model_steps(case, obs):
            ops[st["p"]].append(f"(HLook {LOOKS.index(st['what'])})" if st["op"] == "look" else f"(HCall {crt(o['raw'][1])})")
        rl = {k: (SX.clist(v) if v else "(@nil hop)") for k, v in ops.items()}
        return f"CHist {gs} {csyms(g['keep'])} {csym(g['start'])} {rl[0]} {csym(case.get('start2') or g['start'])} {rl[1]}"
    raw = obs.get("raw", ["err"])
    raw2 = obs.get("raw2")
    craw = f"(Some {crt(raw[1])})" if raw[0] == "ok" else "None"
    ren = {n + "xELEMENT": n + obs.get("sfx_element", "__ELEMENT") for n, sp in g["prods"] if sp["t"] == "seq"}
    craw2 = f"(Some {crt(raw2[1], ren)})" if raw2 and raw2[0] == "ok" else "None"
    return f"CParse {gs} {csyms(g['keep'])} {csym(g['start'])} {craw} {craw2}"


def model_steps(case, obs):
    """the steps of a history the model is given: the calls with cleanup whose raw tree (of a parser object made for that
    call alone) exists, and the uses of read-only entry points between them"""
    if obs.get("ctor", ["err"])[0] != "ok":
        return []
    return [(st, o) for st, o in zip(case["steps"], obs["steps"])
            if (st["op"] == "parse" and "raw" in o and o["raw"][0] == "ok") or (st["op"] == "look" and "look" in o)]


def model_calls(case, obs):
    return [(st, o) for st, o in model_steps(case, obs) if st["op"] == "parse"]


def in_model(case, obs):
    return "__hang__" not in obs


def sx_raw(t):
    k = t[0]
    if k == 0:
        return [0, SX.s(t[1]), SX.s(t[2])]
    if k == 1:
        return [1, SX.s(t[1])]
    return [k, SX.s(t[1]), [sx_raw(c) for c in t[2]]]


def sx_clean(x):
    k = x[0]
    if k == "n":
        return [0]
    if k == "s":
        return [1, SX.s(x[1])]
    if k == "l":
        return [2, [sx_clean(e) for e in x[1]]]
    if k == "d":
        return [3, [[sx_clean(a), sx_clean(b)] for a, b in x[1]]]
    if k == "e":
        return [4, SX.s(x[1]), 1 if x[2] else 0, sx_clean(x[3])]
    return [99, SX.s(x[1])]


def sx_prods(pp):
    return [[SX.s(s), [[SX.s(x) for x in p] for p in alts]] for s, alts in pp]


HM = (1 << 61) - 1


def sx_hash(x):
    """mirror of C05/Run.v sx_hash"""
    if isinstance(x, bool):
        x = int(x)
    if isinstance(x, int):
        return (x * 2654435761 + 97) % HM
    if isinstance(x, str):
        x = [ord(c) for c in x]
    acc = 1469598103
    for e in x:
        acc = (acc * 1000003 + sx_hash(e)) % HM
    return (acc * 31 + len(x)) % HM


def expected_sx(case, obs):
    full = expected_full(case, obs)
    if full[0] == 0:
        full = [0] + [sx_hash(p) for p in full[1:]]
    return SX.dumps(full)


def expected_full(case, obs):
    if case["k"] == "prods":
        r = obs["r"]
        return SX.err(r[1]) if r[0] == "err" else [0, sx_prods(r[1])]
    if obs["ctor"][0] == "err":
        return SX.err(obs["ctor"][1])
    if case["k"] == "hist":
        calls = {0: [], 1: []}
        for st, o in model_calls(case, obs):
            r = o["r"]
            calls[st["p"]].append([SX.ok(sx_clean(r[1])) if r[0] == "ok" else SX.err(r[1]), 1])
        return [0, sx_prods(obs["prods"])] + calls[0] + calls[1]
    raw, clean, raw2 = obs["raw"], obs["clean"], obs.get("raw2")
    if raw[0] != "ok":
        cl, fl = [], []
    else:
        cl = [SX.ok(sx_clean(clean[1])) if clean[0] == "ok" else SX.err(clean[1])]
        fl = []
        if raw2 and raw2[0] == "ok":
            fl = [SX.ok(sx_raw(raw[1]))]
    return [0, sx_prods(obs["prods"]), cl, fl, 1]


# ------------------------------------------------------------------ oracle (the statement, independently of the model)
def _dict_of(pairs):
    """what the property demands of a map: one entry per key in source order, a repeated key keeps the last value"""
    out = []
    for k, v in pairs:
        for e in out:
            if e[0] == k:
                e[1] = v
                break
        else:
            out.append([k, v])
    return out


class _Oracle:
    def __init__(self, g):
        self.g = _index(dict(g))
        self.fails = []
        self.templates = {n for n, sp in g["prods"] if sp["t"] in ("list", "map")}
        self.wrap_ok = g.get("kind") in ("choice2", "keep") or bool(g.get("keep"))
        # names an element of a sequence may carry: the symbol or what a single-symbol chain below it leads to
        self.reach = {}

    def fail(self, sig, msg):
        self.fails.append((sig, msg))

    def chain_names(self, s):
        if s in self.reach:
            return self.reach[s]
        names, todo = set(), [s]
        while todo:
            x = todo.pop()
            if x in names:
                continue
            names.add(x)
            sp = self.g["_p"].get(x)
            if sp and sp["t"] == "plain":
                for a in sp["alts"]:
                    if len(a) == 1:
                        todo.append(a[0])
        self.reach[s] = names
        return names

    def te(self, e, d, path, in_seq):
        """e = ['e', name, leaf, value] is a TElement that stands for the data d"""
        if e[0] != "e":
            return self.fail("value-mismatch", f"{path}: expected a tree element, found {e[0]}")
        name, leaf, val = e[1], e[2], e[3]
        if leaf:
            return self.val(val, d, path + "/" + name, in_seq)
        if val[0] != "l":
            return self.fail("value-mismatch", f"{path}/{name}: inner element without children")
        if name in self.templates:
            sig = "nested-in-sequence-raw" if in_seq else "template-not-converted"
            return self.fail(sig, f"{path}/{name}: the subtree of template symbol {name} was not converted"
                             + (" (it is an element of a sequence)" if in_seq else ""))
        kids = val[1]
        if any(k[0] != "e" for k in kids):
            return self.fail("value-mismatch", f"{path}/{name}: a child of an inner element is not a tree element")
        content = [k for k in kids if k[1] not in PUNCT]
        if len(content) != 1:
            return self.fail("value-mismatch", f"{path}/{name}: {len(content)} content children where one value is denoted")
        return self.te(content[0], d, path + "/" + name, in_seq)

    def item(self, x, d, path, in_seq):
        """x is an entry of a converted list / a value of a converted map"""
        if x[0] == "e":
            if x[2]:
                return self.fail("item-not-bare", f"{path}: a leaf tree element instead of its value")
            is_seq = isinstance(d, dict) and "s" in d
            if not (is_seq or self.wrap_ok):
                return self.fail("item-not-bare", f"{path}: tree element {x[1]} where the bare value is denoted")
            return self.te(x, d, path, in_seq)
        return self.val(x, d, path, in_seq)

    def val(self, v, d, path, in_seq):
        if d is None:
            if v[0] != "n":
                self.fail("absent-not-none", f"{path}: absent item/container gives {v[0]}, not None")
            return
        if "a" in d:
            if v != ["s", d["a"]]:
                self.fail("value-mismatch", f"{path}: atom {d['a']!r} came back as {str(v)[:80]}")
            return
        if "l" in d:
            if v[0] != "l":
                return self.fail("empty-not-list" if not d["l"] else "value-mismatch",
                                 f"{path}: list of {len(d['l'])} items came back as {str(v)[:80]}")
            if len(v[1]) != len(d["l"]):
                return self.fail("list-length", f"{path}: list of {len(d['l'])} items came back with {len(v[1])} entries")
            for i, (x, di) in enumerate(zip(v[1], d["l"])):
                self.item(x, di, f"{path}[{i}]", in_seq)
            return
        if "m" in d:
            if v[0] != "d":
                return self.fail("empty-not-dict" if not d["m"] else "value-mismatch",
                                 f"{path}: map of {len(d['m'])} pairs came back as {str(v)[:80]}")
            want = _dict_of(d["m"])
            got_keys = [k for k, _ in v[1]]
            if got_keys != [["s", k] for k, _ in want]:
                return self.fail("map-keys", f"{path}: keys {[k for k, _ in want]} came back as {str(got_keys)[:120]}")
            repeated = {k for k, _ in d["m"] if sum(1 for k2, _ in d["m"] if k2 == k) > 1}
            for (k, x), (_, di) in zip(v[1], want):
                before = len(self.fails)
                self.item(x, di, f"{path}{{{k[1]}}}", in_seq)
                if k[1] in repeated and len(self.fails) > before:
                    # does the entry carry an EARLIER value of the repeated key?
                    earlier = [dv for kk, dv in d["m"] if kk == k[1]][:-1]
                    for dv in earlier:
                        sub = _Oracle(self.g)
                        sub.item(x, dv, "", in_seq)
                        if not sub.fails:
                            del self.fails[before:]
                            self.fail("map-repeated-key", f"{path}{{{k[1]}}}: the repeated key carries an earlier value, not its last one")
                            break
            return
        if "s" in d:
            if v[0] != "l":
                return self.fail("value-mismatch", f"{path}: sequence came back as {str(v)[:80]}")
            if len(v[1]) != len(d["s"]):
                return self.fail("seq-length", f"{path}: sequence of {len(d['s'])} elements came back with {len(v[1])}")
            for i, (x, (sym, di)) in enumerate(zip(v[1], d["s"])):
                if x[0] != "e":
                    self.fail("seq-element-not-telement", f"{path}({i}): element is not a tree element")
                    continue
                if x[1] not in self.chain_names(sym):
                    self.fail("seq-element-name", f"{path}({i}): element matched as {sym} is named {x[1]}")
                    continue
                self.te(x, di, f"{path}({i})", True)
            return
        self.fail("value-mismatch", f"{path}: unknown data {d}")


def oracle(case, obs):
    if "__hang__" in obs:
        return [("hang", "call did not return")]
    if case["k"] == "prods":
        return []
    if obs["ctor"][0] == "err":
        return [("ctor-error", f"the LLParser constructor raised {obs['ctor'][1]} for a grammar of the family")]
    if case["k"] == "hist":
        return oracle_hist(case, obs)
    clean, raw = obs["clean"], obs["raw"]
    if case["expect"] == "reject":
        if clean[0] == "ok" or raw[0] == "ok":
            return [("final-delim-accepted", f"text with a final delimiter that is not allowed was accepted: {case['text']!r}")]
        if clean[1] != "ParsingError":
            return [("reject-wrong-error", f"forbidden final delimiter raised {clean[1]}, not ParsingError")]
        return []
    if raw[0] == "err":
        return [("parse-error", f"valid text rejected with {raw[1]}: {case['text']!r}")]
    if clean[0] == "err":
        return [("cleanup-raises", f"default cleanup raised {clean[1]} on {case['text']!r}")]
    o = _Oracle(case["g"])
    o.te(clean[1], case["d"], "", False)
    if obs.get("clean2") != clean and not o.fails:
        o.fail("cleanup-two-step-differs", "parse(do_cleanup=False) + cleanup() differs from parse()")
    # the first difference (in source order) is the report: later ones are usually its consequences
    return o.fails[:1]


def _describe(st):
    if st["op"] == "ctor2":
        return {"keep": "LLParser(.., keep_symbols=<the same set object>", "copy": "LLParser(.., keep_symbols=<an equal set>",
                "tmpl": "LLParser(productions=<the same template objects>"}[st["how"]] + f", start_symbol_name={st['start']!r})"
    if st["op"] == "look":
        return f"p{st['p']}:<{st['what']}>" + (f"({st['text'][:30]!r})" if "text" in st else "")
    a = [repr(st["text"][:40])]
    for k, v in (("debug", "debug=True"), ("src", "src_name=.."), ("as", "text as " + str(st.get("as")))):
        if k in st:
            a.append(v)
    if st["start"] is not None:
        a.append(f"start_symbol_name={st['start']!r}")
    if st["clean"] is not True:
        a.append("do_cleanup=False")
    return f"p{st['p']}.parse({', '.join(a)})" + ("+cleanup()" if st["clean"] == "two" else "")


def oracle_hist(case, obs):
    """every call of a history gives what the property says of that call alone"""
    g = case["g"]
    steps = case["steps"]
    fails = []
    shared = False          # a second parser object was given the same keep_symbols set object
    for i, (st, o) in enumerate(zip(steps, obs["steps"])):
        if st["op"] == "ctor2":
            r2 = o["ctor2"]
            if st["how"] == "keep" and r2[0] == "ok":
                shared = True
            if st["how"] != "tmpl" and r2[0] != "ok" and r2[1] not in ("GrammarError",):
                fails.append(("ctor-error", f"step {i}: a second parser of the same grammar with start symbol {st['start']} raised {r2[1]}"))
            continue
        if "skip" in o:
            continue
        before = "; ".join(_describe(x) for x in steps[:i])
        if st["op"] == "look":
            # what a read-only entry point reports is not this property's business; what parse() does with a text is
            if st["what"] == "error" and o["look"] != o["lf"]:
                fails.append(("history-dependent",
                              f"step {i} {_describe(st)}: parse() of this text gives {o['look']} but on a parser object made for this step "
                              f"alone {o['lf']}; steps before: {before}"))
            continue
        r, f = o["r"], o["f"]
        here = f"step {i} {_describe(st)}"
        if st["expect"] == "reject":
            if r[0] == "ok":
                fails.append(("final-delim-accepted", f"{here}: text with a final delimiter that is not allowed was accepted"))
            elif r[1] != "ParsingError":
                fails.append(("reject-wrong-error", f"{here}: forbidden final delimiter raised {r[1]}, not ParsingError"))
            continue
        if r != f:
            looked = any(x["op"] == "look" for x in steps[:i])
            sig = "keep-set-aliased" if (shared and not looked) else "history-dependent"
            fails.append((sig, f"{here} gives {str(r)[:160]} but a parser object made for this call alone gives {str(f)[:160]}; "
                               f"calls before: {before}"))
        if st["expect"] == "ok" and r[0] == "err":
            fails.append(("parse-error" if st["clean"] is False else "cleanup-raises" if o.get("raw", ["err"])[0] == "ok" else "parse-error",
                          f"{here}: valid text raised {r[1]}; calls before: {before}"))
            continue
        if r[0] == "ok" and st["clean"] is not False and st["d"] is not None:
            # explicit start symbols are a debugging aid: whether the text is accepted from that symbol is not the
            # property's business (the FOLLOW sets are those of the constructor's start symbol), what an accepted call
            # returns is
            oc = _Oracle(g)
            if st["p"] == 1:
                oc.wrap_ok = True       # the start symbol of the second parser is a kept symbol there
            oc.te(r[1], st["d"], "", False)
            if oc.fails:
                sig, msg = oc.fails[0]
                fails.append((sig, f"{here}: {msg}; calls before: {before}"))
    for i, j in obs.get("alias", []):
        if i == j:
            fails.append(("results-aliased", f"the result of step {i} {_describe(steps[i])} holds the same mutable object at two places"))
            continue
        fails.append(("results-aliased", f"the results of step {i} {_describe(steps[i])} and step {j} {_describe(steps[j])} share a mutable object"))
    for i in obs.get("mut", []):
        fails.append(("earlier-result-mutated", f"the result of step {i} {_describe(steps[i])} was changed by a later call"))
    ks = obs.get("keepset")
    if ks and ks[0] != ks[1]:
        fails.append(("keep-set-aliased", f"the keep_symbols set given to the constructor was changed from {ks[0]} to {ks[1]}"))
    return fails[:1]


def _size(d):
    if not isinstance(d, dict):
        return 0, 0
    kids = d.get("l") or [v for _, v in d.get("m", [])] or [v for _, v in d.get("s", [])] if ("l" in d or "m" in d or "s" in d) else None
    if kids is None:
        return 0, 0
    sub = [_size(k) for k in kids]
    depth = 1 + max([s[0] for s in sub] + [0])
    width = max([len(kids)] + [s[1] for s in sub])
    return depth, width


def nontrivial(case, obs):
    if case["k"] == "hist":
        # a history says something when at least two calls with cleanup returned containers on the same object
        n = sum(1 for st, o in zip(case["steps"], obs.get("steps", []))
                if st["op"] == "parse" and st["clean"] is not False and o.get("r", ["err"])[0] == "ok" and max(_size(st["d"])) >= 1)
        return n >= 2
    if case["k"] != "parse" or case["expect"] != "ok":
        return False
    depth, width = _size(case["d"])
    return depth >= 2 or width >= 2


def outcome(case, obs):
    if "__hang__" in obs:
        return "hang"
    if case["k"] == "prods":
        return "prods:" + (obs["r"][0] if obs["r"][0] == "ok" else obs["r"][1])
    if obs["ctor"][0] == "err":
        return "ctor:" + obs["ctor"][1]
    if case["k"] == "hist":
        n_ok = sum(1 for o in obs["steps"] if o.get("r", ["err"])[0] == "ok")
        n_err = sum(1 for o in obs["steps"] if o.get("r", ["ok"])[0] == "err")
        return f"hist:{'all-ok' if not n_err else 'some-calls-raise'}"
    c = obs["clean"]
    return case["expect"] + ":" + (c[0] if c[0] == "ok" else c[1])


def shrink_candidates(case):
    """smaller data for the same grammar is not derivable without the generator: only the layout is simplified"""
    if case["k"] == "hist":
        # drop one call at a time (never the last one)
        for i in range(len(case["steps"]) - 1):
            c = dict(case)
            c["steps"] = case["steps"][:i] + case["steps"][i + 1:]
            if not any(st["op"] == "ctor2" for st in c["steps"]):
                c["steps"] = [st for st in c["steps"] if st.get("p", 0) == 0]
            yield c
        return
    if case["k"] != "parse":
        return
    t = case["text"]
    import re as _re
    t2 = _re.sub(r"/\*.*?\*/", " ", t, flags=_re.S)
    t2 = _re.sub(r"//[^\n]*", " ", t2)
    t2 = " ".join(t2.split())
    if t2 != t and '"' not in t:
        c = dict(case)
        c["text"] = t2
        yield c


TECHNIQUE = ("Coq proof (structural induction over derivation trees of the generated template productions and over the "
             "denotation relation) on a hand-written Gallina model of the template classes, the in-parse sequence flattening and "
             "the default cleanup + per-run correspondence check (the model cleans / flattens the implementation's own raw trees "
             "with vm_compute; generated productions compared for every constructor-argument combination) + constants "
             "regenerated from the source + independent oracle (equality with the generating data)")
LEVEL_TEXT = ("Partial. Proved in Coq for ALL derivation trees (any length, any nesting depth) of the productions generated for "
              "every option combination the constructors accept, about the model: list_denote (items of the template frontier in "
              "source order; list_post = the trailing/single None special cases, list_post_plain, final_delimiter_through_empty_item, "
              "final_delimiter_adds_nothing, list_empty_brackets, list_absent_optional, list_bracketless_empty, "
              "list_option_combinations), final_delim_rejected, map_denote + map_dict_semantics (first position, last value), "
              "map_empty_brackets, map_absent_optional, seq_denote (in-parse flattening), squash_item_partial, nested (containers in "
              "containers through one-level choice items, to any depth, incl. containers as sequence elements for the repaired "
              "cleanup: nested_in_sequence; items that are DIRECTLY a template symbol, i.e. raw leaves that are not tokens: "
              "item_directly_sequence, item_directly_empty_bracketless, Example den_direct_items_satisfiable), source_shape (the current source does descend into sequences and copies the keep_symbols "
              "argument), history_independent (in the model a call returns the parser state unchanged and the k-th result of any "
              "sequence of calls on one parser object is the cleanup of the k-th raw tree, so the denotation theorems hold for every "
              "call of a history; introspection_transparent: read-only entry points between the calls change neither the state nor "
              "any result of the model; that the implementation has no memory between calls - keep_symbols, squash data, the templates' "
              "signature tables, the default start symbol, cached or shared result objects, parse-table cells sorted / extended / "
              "created by a description printer, by is_ambiguous(), by the construction of a ParsingError or by debug=True - is NOT "
              "proved of the source, it is "
              "tested by the history cases: correspondence per call, equality with a parser object made for the call alone, no "
              "mutable object shared between two results, earlier results unchanged). Refuted and kept "
              "visible: squash_item_refuted (a choice symbol below a choice symbol stays a tree element: by design of the "
              "cleanup, the oracle accepts such wrappers), nested_in_sequence_refuted + sequence_elements_untouched_without_descent "
              "(the cleanup before commit c9bcabb). NOT proved, only tested by correspondence/oracle: template_unambiguous_statement "
              "(that the parse of rendered data is THE derivation denoting it), item symbols that are chains deeper than one level, "
              "two-level choices or kept symbols, ordinary multi-child elements between containers (e.g. '(' SEQ ')'), keep_symbols, "
              "AnyTokenExcept items, and everything before the raw tree (tokenizer, skipped text, grammar analysis = nullable / FIRST / FOLLOW "
              "sets and the parse table, parse loop: C01-C04): the model starts from the implementation's raw tree, so that a text rendered "
              "from data is accepted whatever the declaration order of the productions dict, and that comments / quoted items "
              "containing form feeds, U+2028 ... are one token, is tested by the oracle only (`parse-error`, `list-length`, "
              "`value-mismatch` against the generating data).")
LEVEL_NOTE = ("Trusted: Coq kernel + vm_compute; fidelity of the hand model (checked on ~1000 (quick) / ~11000 (thorough) generated "
              "texts per run plus 139 constructor-argument combinations plus ~130 (quick) / ~760 (thorough) call histories of 5-25 steps, "
              "not proved); python dict(); that the tree given to the cleanup "
              "is the one parse(do_cleanup=False) returns; the ast extractor and the harness. The hypothesis `valid` of the theorems is "
              "checked on every implementation tree of the run (VALID part of the observation). Print Assumptions: closed under the "
              "global context for every theorem.")
DESIGN_REF = "DESIGN.md section 8, C05"
