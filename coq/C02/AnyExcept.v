(* C02/AnyExcept.v -- the pseudo-production AnyTokenExcept(t1, .., tn) in a productions list
   (ak/llparser.py class AnyTokenExcept 1347-1370, LLParser._make_prod_rules_list 2389-2422):

     'ITEM': [('x', 'Y'), AnyTokenExcept('(', ')'), None]

   stands, IN THE PARSER THAT IS BEING CONSTRUCTED, for the one-token productions (t,) of every
   terminal t of THAT parser's tokenizer (get_all_token_names(): $END$ is not yet among them,
   skipped tokens are) that is not excluded; they take the item's place in the list.
   GrammarError when a symbol's list has two such items or an excluded name is no terminal.
   The item object itself carries only the excluded names: used in the productions of a second
   parser (with another tokenizer) it expands to the terminals of the second parser.

   The ORDER of the one-token productions is the iteration order of the Python set `terminals`;
   the model takes the order of [cfg_terminals].  The order is unobservable (and the generated
   cases keep to that) when no other production of the symbol starts with one of the produced
   terminals: the produced rules then have pairwise different first symbols, no factorization
   group contains one of them, and each of them is alone in the cell of its terminal among the
   produced ones.

   No proofs about the parser in this file; two small lemmas on the expansion. *)
From Coq Require Import ZArith List Bool.
From AK Require Export LLP.Build C02.Model C02.Session C02.SessionTok.
From AK Require gen.C04_Consts C04.Model C01.RunTok.
From AK Require Import C02.LemBase.
Import ListNotations.

Inductive ualt :=
| UAlt (a : list sym)            (* a tuple / None *)
| UAny (excl : list sym).        (* AnyTokenExcept( *excl ) *)

Definition ugany := list (sym * list ualt).

Definition is_any (a : ualt) : bool := match a with UAny _ => true | UAlt _ => false end.

(* AnyTokenExcept.get_tokens: [t for t in terminals if t not in tokens_to_exclude] *)
Definition any_tokens (terminals excl : list sym) : list sym :=
  filter (fun t => negb (mem t excl)) terminals.

Definition expand_alt (terminals : list sym) (a : ualt) : list (list sym) :=
  match a with
  | UAlt x => [x]
  | UAny excl => map (fun t => [t]) (any_tokens terminals excl)
  end.

(* the two GrammarErrors *)
Definition any_ok (terminals : list sym) (alts : list ualt) : bool :=
  (length (filter is_any alts) <=? 1)%nat &&
  forallb (fun a => match a with UAny excl => subset excl terminals | UAlt _ => true end) alts.

Definition expand_ug (terminals : list sym) (ug : ugany) : res (list (sym * list (list sym))) :=
  if forallb (fun e => any_ok terminals (snd e)) ug
  then Ok (map (fun e => (fst e, flat_map (expand_alt terminals) (snd e))) ug)
  else Err OtherErr.

(* productions without such an item *)
Definition plain_ug (ug : list (sym * list (list sym))) : ugany :=
  map (fun e => (fst e, map UAlt (snd e))) ug.

(* LLParser(tokenizer, productions=ug, skip_tokens=skip, start_symbol_name=start, smart_factorization=w):
   the checks of C01.RunTok.build_cfg / LLP.Build.build in the order of the code, the items expanded
   with the terminals of THIS configuration (in _create_productions), then the pipeline *)
Definition t_build_any (cfg : lexcfg) (skip : option (list sym)) (ug : ugany) (start : sym) (w : bool)
  : res parser :=
  let terminals := C04.Model.cfg_terminals cfg in
  if existsb has_dunder terminals then Err AssertErr else
  if negb (subset (C01.RunTok.skip_set terminals skip) terminals) then Err OtherErr else
  if has_dunder start then Err AssertErr else
  bind (expand_ug terminals ug) (fun ug' => build ug' terminals w start).

(* programs on such parsers: when the items can be expanded, the programs of SessionTok.v on the
   expansion (t_build_any_expand below: every constructor call IS the call on the expansion);
   otherwise every constructor call fails and no object ever exists *)
Definition fail_op (e : err) (o : op) : obs :=
  match o with OBuild _ => BBuilt (Some e) | _ => BNone end.

Definition session_any_w (cfg : lexcfg) (skip : option (list sym)) (ug : ugany) (start : sym) (fuel : nat)
    (texts : list (list Z)) (W : world) (ops : list op) : list obs * world :=
  match expand_ug (C04.Model.cfg_terminals cfg) ug with
  | Ok ug' => session_t_w cfg skip ug' start fuel texts W ops
  | Err _ =>
      match t_build_any cfg skip ug start false with
      | Err e => (map (fail_op e) ops, W)
      | Ok _ => ([], W)      (* impossible: t_build_any_fails *)
      end
  end.

(* ------------------------------------------------------------------ lemmas *)
Lemma t_build_any_expand : forall cfg skip ug ug' start w,
  expand_ug (C04.Model.cfg_terminals cfg) ug = Ok ug' ->
  t_build_any cfg skip ug start w = t_build cfg skip ug' start w.
Proof.
  intros cfg skip ug ug' start w H.
  unfold t_build_any, t_build, C01.RunTok.build_cfg, build. rewrite H.
  destruct (existsb has_dunder (C04.Model.cfg_terminals cfg)) eqn:E1; [reflexivity|].
  destruct (negb (subset _ _)); [reflexivity|].
  destruct (has_dunder start); cbn [orb bind]; reflexivity.
Qed.

Lemma t_build_any_fails : forall cfg skip ug start w e,
  expand_ug (C04.Model.cfg_terminals cfg) ug = Err e ->
  exists e', t_build_any cfg skip ug start w = Err e'.
Proof.
  intros cfg skip ug start w e H. unfold t_build_any. rewrite H.
  destruct (existsb _ _); [eexists; reflexivity|].
  destruct (negb _); [eexists; reflexivity|].
  destruct (has_dunder start); eexists; reflexivity.
Qed.

Lemma any_tokens_spec : forall terminals excl t,
  In t (any_tokens terminals excl) <-> In t terminals /\ ~ In t excl.
Proof.
  intros. unfold any_tokens. rewrite filter_In, negb_true_iff, mem_false. tauto.
Qed.

Lemma expand_alt_spec : forall terminals a x,
  In x (expand_alt terminals a) <->
  (a = UAlt x \/ exists excl t, a = UAny excl /\ x = [t] /\ In t terminals /\ ~ In t excl).
Proof.
  intros terminals a x. destruct a as [y|excl]; cbn [expand_alt].
  - split.
    + intros [->|[]]. left; reflexivity.
    + intros [H|(excl & t & H & _)]; [injection H as ->; left; reflexivity | discriminate].
  - rewrite in_map_iff. split.
    + intros (t & <- & Ht). apply any_tokens_spec in Ht. right. exists excl, t. tauto.
    + intros [H|(excl' & t & H & -> & Ht)]; [discriminate|]. injection H as <-.
      exists t. split; [reflexivity|]. apply any_tokens_spec. exact Ht.
Qed.

Lemma expand_plain : forall terminals ug, expand_ug terminals (plain_ug ug) = Ok ug.
Proof.
  intros terminals ug. unfold expand_ug, plain_ug.
  assert (Hok : forall alts : list (list sym), any_ok terminals (map UAlt alts) = true).
  { intros alts. unfold any_ok. apply andb_true_iff. split.
    - replace (filter is_any (map UAlt alts)) with (@nil ualt); [reflexivity|].
      induction alts; cbn; auto.
    - apply forallb_forall. intros a Ha. apply in_map_iff in Ha. destruct Ha as (y & <- & _). reflexivity. }
  replace (forallb _ _) with true.
  2:{ symmetry. apply forallb_forall. intros e He. apply in_map_iff in He. destruct He as (e0 & <- & _). apply Hok. }
  f_equal. rewrite map_map. rewrite <- (map_id ug) at 2. apply map_ext. intros [nt alts]. cbn [fst snd]. f_equal.
  induction alts as [|a r IH]; cbn; [reflexivity|]. f_equal. exact IH.
Qed.
