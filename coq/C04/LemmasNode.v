(* C04/LemmasNode.v -- tokenizer and parse loop together: get_orig_text of every
   node of a parse tree is defined and is the region of the text delimited by the
   node's span (first token start .. last token end). *)
From Coq Require Import ZArith List Bool Lia Sorted.
From AK Require Import Common.Err LLP.Base LLP.Parse gen.C04_Consts C04.Model C04.LemmasText C04.LemmasLex C04.LemmasTree.
Import ListNotations.
Open Scope Z_scope.

Definition tok_before (t u : token) : Prop := pos_le (tend t) (tstart u).

Lemma pairs_sorted : forall l,
  (forall i j t u, (i < j)%nat -> nth_error l i = Some t -> nth_error l j = Some u -> tok_before t u) ->
  StronglySorted tok_before l.
Proof.
  induction l as [|a l IH]; intros H; constructor.
  - apply IH. intros i j t u L A B. apply (H (S i) (S j) t u); auto. lia.
  - apply Forall_forall. intros x I. apply In_nth_error in I. destruct I as [n N].
    apply (H 0%nat (S n) a x); auto. lia.
Qed.

Lemma sorted_filter : forall f l, StronglySorted tok_before l -> StronglySorted tok_before (filter f l).
Proof.
  intros f. induction l as [|a l IH]; intros S; cbn [filter]; [constructor|].
  inversion S; subst. destruct (f a); auto. constructor; auto.
  apply Forall_forall. intros x I. apply filter_In in I. destruct I as [I _].
  rewrite Forall_forall in H2. auto.
Qed.

Lemma sorted_pairs : forall l, StronglySorted tok_before l ->
  forall i j t u, (i < j)%nat -> nth_error l i = Some t -> nth_error l j = Some u -> tok_before t u.
Proof.
  induction 1; intros i j t u L A B. { destruct i; discriminate. }
  destruct j; [lia|]. cbn [nth_error] in B. destruct i; cbn [nth_error] in A.
  - inversion A; subst. rewrite Forall_forall in H0. apply H0. eapply nth_error_In; eauto.
  - apply (IHStronglySorted i j t u); auto. lia.
Qed.

Section Node.
  Variable matcher : line -> nat -> option (sym * nat * list Z).
  Variable span_of : sym -> option bmatcher.
  Variable syn : sym -> sym.
  Variable kw : sym -> list Z -> option sym.
  Hypothesis Hm : matcher_ok matcher.
  Hypothesis Hs : spans_ok span_of.

  Notation valid_pos := (valid_pos).

  Theorem node_text_l : forall ls ols all skip t i j,
    ls <> [] -> Forall2 prefix_of ls ols ->
    tokenize matcher span_of syn kw ls = LOk all ->
    covers (drop_skipped skip all) t i j ->
    exists l0 c0 l1 c1, tree_span t = (P l0 c0, P l1 c1) /\
      get_orig_text ols (tree_span t) = Ok (region ols l0 c0 l1 c1).
  Proof.
    intros ls ols all skip t i j NE F H C.
    set (toks := drop_skipped skip all) in *.
    pose proof (positions_valid_l _ _ _ _ Hm Hs _ _ NE H) as V.
    destruct (monotone_l _ _ _ _ Hm Hs _ _ H) as [Each Pairs].
    assert (Vt : forall k a, nth_error toks k = Some a ->
               valid_pos ols (tstart a) /\ valid_pos ols (tend a) /\ pos_le (tstart a) (tend a)).
    { intros k a N. apply nth_error_In in N. unfold toks, drop_skipped in N. apply filter_In in N. destruct N as [N _].
      rewrite Forall_forall in V, Each. destruct (V _ N) as [V1 V2].
      repeat split; eauto using valid_pos_prefix. }
    assert (St : forall a b x y, (a < b)%nat -> nth_error toks a = Some x -> nth_error toks b = Some y ->
                 pos_le (tend x) (tstart y)).
    { apply sorted_pairs. unfold toks, drop_skipped. apply sorted_filter. apply pairs_sorted. exact Pairs. }
    assert (G : forall p q, valid_pos ols p -> valid_pos ols q -> pos_le p q ->
              exists l0 c0 l1 c1, (p, q) = (P l0 c0, P l1 c1) /\ get_orig_text ols (p, q) = Ok (region ols l0 c0 l1 c1)).
    { intros p q Vp Vq L. destruct (got_valid_pos ols p q Vp Vq L) as [l0 [c0 [l1 [c1 [-> [-> G]]]]]]. eauto 8. }
    destruct t as [n v sp|n ch sp]; cbn [tree_span].
    - apply leaf_span_l in C. destruct C as [tk [N [_ [_ [-> _]]]]].
      destruct (Vt _ _ N) as [V1 [V2 L]]. apply G; auto.
    - destruct (Nat.lt_ge_cases i j) as [L|L].
      + destruct (node_span_l _ _ _ _ _ _ C L) as [a [b [Na [Nb ->]]]].
        destruct (Vt _ _ Na) as [Va1 [Va2 La]]. destruct (Vt _ _ Nb) as [Vb1 [Vb2 Lb]].
        apply G; auto.
        destruct (Nat.eq_dec i (j - 1)) as [E|E].
        * rewrite <- E in Nb. rewrite Na in Nb. inversion Nb; subst. exact La.
        * eapply pos_le_trans; [exact La|]. eapply pos_le_trans; [|exact Lb].
          apply (St i (j - 1)%nat); auto. lia.
      + destruct (covers_bounds (drop_skipped skip all)) as [B1 _]. pose proof (B1 _ _ _ C) as [B _].
        assert (j = i) by lia. subst j.
        destruct (empty_node_span_l _ _ _ _ _ C) as [a [Na ->]].
        destruct (Vt _ _ Na) as [Va1 _]. apply G; auto. apply pos_le_refl.
  Qed.
End Node.
