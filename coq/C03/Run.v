(* C03/Run.v -- correspondence entry points of C03.
   [Grammar]: the constructor (factorization, tables, left-recursion check) and
   the raw parse of each token list, exactly as C01.Run does (same argument
   order, so harness/props/llp_common.py:coq_case serves both).
   [Ctors]: constructor outcome only, for a batch of grammars over a common
   terminal set (used by the exhaustive small-grammar sweep).
   Both also evaluate the hypotheses of the C03 theorems ([part1_okb]) on the
   factorized grammar; the harness expects them to hold on every case.
   No proofs in this file. *)
From Coq Require Import ZArith List Bool.
From AK Require Export LLP.Build C03.Spec.
Import ListNotations.

(* outcome of LLParser.__init__ as far as C03 is concerned *)
Definition ctor_outcome (ug : list (sym * list (list sym))) (terminals : list sym) (smart : bool) (start : sym)
  : res unit :=
  match build ug terminals smart start with
  | Ok _ => Ok tt
  | Err e => Err e
  end.

(* the hypotheses [part1_ok] of the C03 theorems, evaluated on the factorized
   grammar of the case at hand (true when the factorization itself failed:
   then no theorem is applied) *)
Definition hyps_ok (ug : list (sym * list (list sym))) (terminals : list sym) (smart : bool) (start : sym) : bool :=
  match factorize ug terminals smart with
  | Ok (g, _) => part1_okb g (terminals ++ [END_TOKEN]) start
  | Err _ => true
  end.

Inductive case :=
| Grammar (ug : list (sym * list (list sym))) (terminals : list sym) (smart : bool) (start : sym)
          (fuel : nat) (inputs : list (list (sym * list Z)))
| Ctors (terminals : list sym) (gs : list (list (sym * list (list sym)) * bool * sym)).

Definition run (c : case) : sx :=
  match c with
  | Grammar ug terminals smart start fuel inputs =>
      match build ug terminals smart start with
      | Err e => SL [SZ 1; SZ (err_code e); sx_bool (hyps_ok ug terminals smart start)]
      | Ok p =>
          SL [SZ 0; sx_bool (is_ambiguous (p_tables p)); sx_bool (hyps_ok ug terminals smart start);
              SL (map (fun inp => sx_res sx_tree (p_parse p fuel (mk_toks inp))) inputs)]
      end
  | Ctors terminals gs =>
      SL (map (fun '(ug, smart, start) =>
                 if hyps_ok ug terminals smart start then
                   match ctor_outcome ug terminals smart start with
                   | Ok _ => SZ 0
                   | Err e => SZ (err_code e)
                   end
                 else SZ 99) gs)
  end.
