"""C08  Colored text behaves exactly like the underlying string  (ak/color.py: _CHTextChunk, CHText)

A case is a small straight-line program over CHText objects:
  {"tag": ..., "prog": [stmt, ...]}
Every statement of the first group binds the NEXT variable (v0, v1, ...; single assignment), `iadd`
mutates the object a variable refers to, the last group only observes.

  ["new", [part...]]            CHText(*parts)
  ["make", [[col, text]...]]    CHText.make([chunks])
  ["mkresize", [[col,text]...], n]   CHText.make(CHText.resize_chunks_list([chunks], n))
  ["add", a, part]              v_a + part
  ["radd", part, a]             part + v_a          (part: str / chunk / list / tuple)
  ["join", a, [part...], kind]  v_a.join(X): X = the items as a list (kind absent / "list"), "tuple", "gen" (generator),
                                "iter" (iter(list)), "map", "dkeys" (keys of a dict), "rev" (reversed(list)) -- one model statement
  ["joinit", a, it]             v_a.join(X), X ITSELF a text / chunk / str:  it = ["v", k] | ["c", col, text] | ["s", text]
  ["cjoinit", [col,text], it]   the same with a bare chunk as separator
  ["index", a, i]  ["slice", a, lo, hi]  ["fixed", a, n]
  ["cadd", [col,text], part]  ["cradd", part, [col,text]]  ["cjoin", [col,text], [part...]]  ["cfixed", [col,text], n]
  ["iadd", a, part]             v_a += part
  ["fmt", a, spec]  ["eq", a, part]  ["cindex", ch, i]  ["cslice", ch, lo, hi]  ["ceq", ch, part]  ["cfmt", ch, spec]
  ["iter", a, how]              the items of iterating v_a; how = list | tuple | for | comp | unpack | next | enum | star | sorted-free
                                spellings of the same walk (one model statement OIter); also records bool(v_a)
  ["riter", a]                  list(reversed(v_a))
  ["in", a, part]               part in v_a
  ["citer", [col,text], rev]    list(chunk) / list(reversed(chunk))
                                (eq / ceq observe  x == p, p == x, x != p, p != x;  ceq: p a str or a chunk)
part:  ["s", text] | ["c", col, text] | ["v", k] | ["l", [part...]] | ["t", [part...]]   (list / tuple)
col :  a key of COLORS (chunks are made by ColorFmt(...)(text), the public way)
"""
import ast
import json
import os
import re

from harness.lib import sx as SX

ID = "C08"
COQ_DIR = "C08"
RUN_MOD = "C08.Run"
MODEL_TARGETS = ["C08/Run.vo"]
PROOF_TARGETS = ["C08/Lemmas.vo", "C08/LemmasFmt.vo", "C08/LemmasProg.vo"]
PROPS = ["C08/Props.v"]
ALLOWED_AXIOMS = []
IMPL_TIMEOUT = 2.0
# the `t += t` defect grows memory while it hangs: keep the workers small so that neighbours are not starved
os.environ.setdefault("VERIF_IMPL_MEM_GB", "1")
COQ_SHARD = 30

STRICT_MAKE = os.environ.get("C08_STRICT_MAKE", "") == "1"

COLORS = {
    "plain": ((None,), {}),
    "red": (("RED",), {}),
    "green": (("GREEN",), {}),
    "bb": (("BLUE",), {"bold": True}),
    "nc": (("RED",), {"no_color": True}),
}
COLOR_NAMES = list(COLORS)
# what ColorFmt is expected to produce (only used by the generator and when the implementation hangs)
DEFAULT_PAL = {"plain": ["", ""], "red": ["\x1b[31m", "\x1b[0m"], "green": ["\x1b[32m", "\x1b[0m"],
               "bb": ["\x1b[34;1m", "\x1b[0m"], "nc": ["", ""]}
PLAIN = ("", "")

CREATING = {"new", "make", "mkresize", "add", "radd", "join", "index", "slice", "fixed",
            "cadd", "cradd", "cjoin", "cfixed", "joinit", "cjoinit"}
JOIN_KINDS = ["list", "tuple", "gen", "iter", "map", "dkeys", "rev"]
ITER_HOWS = ["list", "tuple", "for", "comp", "unpack", "next", "enum", "star"]

RULE = ("random straight-line programs of 3-25 statements over CHText objects (single-assignment variables, "
        "`+=` in place, aliasing through fixed_len and self operands): constructor from nested lists/tuples of "
        "str/chunk/CHText, CHText.make (+resize_chunks_list), +, reflected +, +=, join, [i], [a:b], fixed_len, "
        "format, ==, and the same on bare chunks; texts over {a,b,space,e-acute,CJK} of length 0-4 in 5 colours "
        "(2 of them colourless); indices/bounds in [-len-2, len+2] + None biased to chunk boundaries; widths "
        "around len; format specs from [[fill]align][width][s] plus a malformed stream; targeted families: "
        "t += t / t += [t, x, t], split-and-reassemble followed by ==, one-character-at-a-time rebuilds, "
        "near-miss comparisons (family 'eqnear' and every random ==): a text of 1-4 runs, often starting/ending with "
        "default-coloured characters or cut out of a longer text, against str / chunk / CHText operands that are the "
        "same or nearly the same -- each run alone, prefixes/suffixes at run boundaries and elsewhere, one character "
        "more/less/changed, white-space and case variants, the empty string, same text in other colours, the runs "
        "split/recoloured/reordered/with one dropped, an extra (empty) chunk at either end, lists/tuples; "
        "== and != are both observed in both operand orders; "
        "a text / chunk / str used AS AN ITERABLE (family 'iter' and random statements): sep.join(X) with X a text "
        "(also the separator itself), a bare chunk or a str, separators empty / plain / coloured / of several runs / a "
        "bare chunk, against the join over the single characters; the items of a join handed over as tuple, generator, "
        "iterator, map, dict keys, reversed(); walking a text (list, tuple, for, comprehension, star-unpacking, next(), "
        "enumerate, *args), reversed(), `x in text` for one character in one colour, bool(); walking chunks; the walks "
        "repeated after += changed the text; texts there have a colour run of >= 2 characters; "
        "family 'long' (6 per quick run): texts of 257-300 alternating colour runs, each built in three ways out of doubled "
        "pieces (constructor / += / join / slice of a longer text / copy + list) and compared ==, != in both orders, with a "
        "copy, with their two halves glued together and with near misses; about 30 % of the programs that contain no operation "
        "of a bare chunk returning a text run with a trivial user subclass `class T(CHText): pass` as the text class (results "
        "must be T objects). "
        "Non-trivial = distinct program in which some object has >= 2 chunks or an exception/alias occurred.")
TRUSTED_BASE = [
    "gen/C08_Consts.v: four facts read from ak/color.py by harness/props/c08.py:gen_consts (ast, fail closed): "
    "__iadd__ iterates over a copy of other.chunks, _append_chunk skips empty chunks first, CHText.fixed_len "
    "returns self when no resize is needed, the align characters of __format__",
    "Python semantics restated in coq/C08/PyStr.v: sequence indexing/slicing (None, negative, out of range), "
    "int(str) for ASCII digits/sign/underscore/white space, str.isdigit for ASCII; the meaning of a format spec "
    "[[fill]align][width][s] for str (pad to width on the visible length) is the definition pad_spec in Lemmas; "
    "x != y answered as the negation of __eq__ (Python's default __ne__, neither class defines its own) is "
    "Model.sx_eq_obs, compared with the implementation's != on every generated comparison",
    "chunks are created through ColorFmt (suffix determined by prefix); the prefix/suffix strings are read from "
    "the implementation per run and passed to the model as literals",
    "Python's iteration protocol for classes without __iter__ / __reversed__ / __contains__ (t[0], t[1], ... until "
    "IndexError; reversed = len then t[n-1..0]; `in` = any(item == x)) is restated in Model.iter_loop / rev_loop / "
    "item_eq; list / tuple / for / comprehension / unpacking / next / enumerate / *args are taken to be the same walk "
    "(one model statement OIter, the implementation is run in the spelling the case names); generator / iterator / "
    "map / dict-keys / reversed arguments of join are taken to deliver the listed items in order (model statement SJoin)",
]
ASSUMPTIONS = [
    "operands are str, chunks made by ColorFmt, CHText objects and lists/tuples of those; indices and bounds are "
    "ints or None; format widths are below the memory limit",
    "every chunk's suffix is a function of its prefix (true for ColorFmt; hypothesis wf of the theorems)",
    "format: the theorem format_visible covers specs [[fill]align][width]['s'] whose width has no leading 0; "
    "other specs are only compared model-vs-implementation",
    "slices with a step on CHText raise ValueError (checked by correspondence family 'step'), chunk[::k] is not modelled",
]
MODELLED = ("ak/color.py:171-617: every method of _CHTextChunk and CHText except strip_colors (C09) "
            "and slice steps on bare chunks; objects other than str/chunk/CHText/list/tuple as operands are not modelled; "
            "iteration of texts and chunks (no __iter__/__reversed__/__contains__ in the source: sequence protocol) and "
            "join over a text / chunk / str are modelled")


class ExtractError(Exception):
    pass


# ------------------------------------------------------------------ constants from the source
def _find_class(tree, name):
    for n in tree.body:
        if isinstance(n, ast.ClassDef) and n.name == name:
            return n
    raise ExtractError(f"class {name} not found")


def _find_method(cls, name):
    for n in cls.body:
        if isinstance(n, ast.FunctionDef) and n.name == name:
            return n
    raise ExtractError(f"method {cls.name}.{name} not found")


def _strip_doc(body):
    if body and isinstance(body[0], ast.Expr) and isinstance(body[0].value, ast.Constant) and isinstance(body[0].value.value, str):
        return body[1:]
    return body


def _is_attr(node, obj, attr):
    return isinstance(node, ast.Attribute) and node.attr == attr and isinstance(node.value, ast.Name) and node.value.id == obj


def gen_consts(repo):
    src = open(os.path.join(repo, "ak", "color.py")).read()
    tree = ast.parse(src)
    cht = _find_class(tree, "CHText")
    # --- __iadd__: the branch iterating over other.chunks
    iadd = _find_method(cht, "__iadd__")
    loops = []
    for node in ast.walk(iadd):
        if isinstance(node, ast.For):
            it = node.iter
            live = _is_attr(it, "other", "chunks")
            copied = (
                (isinstance(it, ast.Subscript) and _is_attr(it.value, "other", "chunks") and isinstance(it.slice, ast.Slice)
                 and it.slice.lower is None and it.slice.upper is None and it.slice.step is None)
                or (isinstance(it, ast.Call) and isinstance(it.func, ast.Name) and it.func.id in ("list", "tuple")
                    and len(it.args) == 1 and _is_attr(it.args[0], "other", "chunks"))
                or (isinstance(it, ast.Call) and isinstance(it.func, ast.Attribute) and it.func.attr == "copy"
                    and _is_attr(it.func.value, "other", "chunks") and not it.args))
            if live or copied:
                body_ok = (len(node.body) == 1 and isinstance(node.body[0], ast.Expr) and isinstance(node.body[0].value, ast.Call)
                           and _is_attr(node.body[0].value.func, "self", "_append_chunk"))
                if not body_ok:
                    raise ExtractError("__iadd__: loop over other.chunks does not call self._append_chunk")
                loops.append(copied)
    if len(loops) != 1:
        raise ExtractError(f"__iadd__: expected exactly one loop over other.chunks, found {len(loops)}")
    iadd_copies = loops[0]
    # --- _append_chunk: first statement `if not chunk.text: return`
    app = _find_method(cht, "_append_chunk")
    body = _strip_doc(app.body)
    first = body[0] if body else None
    skips = (isinstance(first, ast.If) and isinstance(first.test, ast.UnaryOp) and isinstance(first.test.op, ast.Not)
             and _is_attr(first.test.operand, "chunk", "text") and not first.orelse
             and any(isinstance(s, ast.Return) and s.value is None for s in first.body))
    if not skips:
        # accept `if chunk.text == "": return` / len(...) == 0 forms? no: fail closed unless clearly absent
        has_text_test = any(isinstance(n, ast.If) and "text" in ast.dump(n.test) and
                            any(isinstance(s, ast.Return) for s in n.body) for n in ast.walk(app))
        if has_text_test:
            raise ExtractError("_append_chunk: unrecognised empty-text guard")
    # --- fixed_len: `return self` as the last statement
    fl = _find_method(cht, "fixed_len")
    body = _strip_doc(fl.body)
    last = body[-1] if body else None
    if not isinstance(last, ast.Return):
        raise ExtractError("CHText.fixed_len: last statement is not a return")
    if isinstance(last.value, ast.Name) and last.value.id == "self":
        aliases = True
    elif isinstance(last.value, ast.Call) and len(last.value.args) == 1 and isinstance(last.value.args[0], ast.Name) \
            and last.value.args[0].id == "self" and not last.value.keywords:
        aliases = False      # type(self)(self) / CHText(self) / cls(self): a copy
    else:
        raise ExtractError("CHText.fixed_len: unrecognised final return")
    # the two earlier returns must be the slice and the padded sum
    if len(body) != 4 or not isinstance(body[0], ast.Assign) or not all(isinstance(b, ast.If) for b in body[1:3]):
        raise ExtractError("CHText.fixed_len: unexpected shape")
    # --- __format__: tuples of align characters
    fm = _find_method(cht, "__format__")
    tuples = []
    for node in ast.walk(fm):
        if isinstance(node, ast.Compare) and len(node.ops) == 1 and isinstance(node.ops[0], (ast.In, ast.NotIn)):
            c = node.comparators[0]
            if isinstance(c, (ast.Tuple, ast.List, ast.Set)):
                if not all(isinstance(e, ast.Constant) and isinstance(e.value, str) and len(e.value) == 1 for e in c.elts):
                    raise ExtractError("__format__: align tuple is not made of 1-character literals")
                tuples.append([e.value for e in c.elts])
            elif isinstance(c, ast.Constant) and isinstance(c.value, str):
                tuples.append(list(c.value))
            else:
                raise ExtractError("__format__: unrecognised membership test")
    if len(tuples) != 2 or sorted(tuples[0]) != sorted(tuples[1]):
        raise ExtractError(f"__format__: expected two identical align-character tests, found {tuples}")
    # the align chain must compare with '<' then '>' (else: centre) and the type with 's'
    consts = [n.value for n in ast.walk(fm) if isinstance(n, ast.Constant) and isinstance(n.value, str) and len(n.value) == 1]
    for ch in "<>s ":
        if ch not in consts:
            raise ExtractError(f"__format__: literal {ch!r} not found")
    text = ("(* generated from ak/color.py by harness/props/c08.py -- do not edit *)\n"
            "From Coq Require Import ZArith List Bool.\nImport ListNotations.\n"
            f"Definition iadd_copies : bool := {SX.cbool(iadd_copies)}.\n"
            f"Definition append_skips_empty : bool := {SX.cbool(skips)}.\n"
            f"Definition fixed_len_aliases : bool := {SX.cbool(aliases)}.\n"
            f"Definition align_chars : list Z := {SX.cZlist(ord(c) for c in tuples[0])}.\n")
    return {"C08_Consts": text}


# ------------------------------------------------------------------ reference semantics (plain lists)
# An object is a python list of (char, colour-pair); this is "the same operation on a plain str with a
# parallel per-character colour list".  Used by the oracle (with the observed aliasing) and by the generator
# (to aim indices at boundaries).
class RefErr(Exception):
    def __init__(self, name):
        self.name = name


GRAMMAR = re.compile(r"^(?:(.)?([<>^]))?([1-9][0-9]*)?(s)?$", re.S)


def in_grammar(spec):
    return GRAMMAR.match(spec) is not None


class Ref:
    def __init__(self, pal):
        self.pal = {k: tuple(v) for k, v in pal.items()}
        self.vars = []          # list of python lists (identity = object identity)
        self.taint = []         # ids (python id of list) made non-canonical by make() with empty chunks

    def chunk(self, ch):
        col, text = ch
        return [(c, self.pal[col]) for c in text]

    def leaves(self, part):
        """yield the leaves of an operand in order (lists/tuples are processed element by element)"""
        if part[0] in ("l", "t"):
            for p in part[1]:
                yield from self.leaves(p)
        else:
            yield part

    def leaf_value(self, leaf):
        if leaf[0] == "s":
            return [(c, PLAIN) for c in leaf[1]]
        if leaf[0] == "c":
            return self.chunk(leaf[1:])
        return list(self.vars[leaf[1]])

    def extend(self, obj, part):
        for leaf in self.leaves(part):
            obj.extend(self.leaf_value(leaf))      # a snapshot of the operand as it is now

    def build(self, parts):
        obj = []
        for p in parts:
            self.extend(obj, p)
        return obj

    def join(self, sep, items):
        obj = []
        for k, it in enumerate(items):
            if k:
                obj.extend(sep)
            self.extend(obj, it)
        return obj

    @staticmethod
    def fixed(val, n):
        return (val + [(" ", PLAIN)] * (n - len(val)))[:n]

    def create(self, st):
        """value of a creating statement, or raise RefErr; None = no demand (outside the statement)"""
        k = st[0]
        if k == "new":
            return self.build(st[1])
        if k == "make":
            return [x for ch in st[1] for x in self.chunk(ch)]
        if k == "mkresize":
            if st[2] < 0:
                return None
            return self.fixed([x for ch in st[1] for x in self.chunk(ch)], st[2])
        if k == "add":
            return self.build([["v", st[1]], st[2]])
        if k == "radd":
            return self.build([st[1], ["v", st[2]]])
        if k == "join":
            return self.join(list(self.vars[st[1]]), st[2])
        if k == "index":
            try:
                return [self.vars[st[1]][st[2]]]
            except IndexError:
                raise RefErr("IndexError")
        if k == "slice":
            return self.vars[st[1]][st[2]:st[3]]
        if k == "fixed":
            if st[2] < 0:
                return None
            return self.fixed(list(self.vars[st[1]]), st[2])
        if k == "cadd":
            return self.build([["c"] + st[1], st[2]])
        if k == "cradd":
            return self.build([st[1], ["c"] + st[2]])
        if k == "cjoin":
            return self.join(self.chunk(st[1]), st[2])
        if k == "cfixed":
            if st[2] < 0:
                return None
            return self.fixed(self.chunk(st[1]), st[2])
        if k in ("joinit", "cjoinit"):
            # the iterable is a text / chunk / str: like a str, it gives its characters one by one
            sep = list(self.vars[st[1]]) if k == "joinit" else self.chunk(st[1])
            obj = []
            for n, x in enumerate(self.leaf_value(st[2])):
                if n:
                    obj.extend(sep)
                obj.append(x)
            return obj
        raise ValueError(k)


def cchars_of_chunks(chunks):
    return [(c, (p, s)) for p, t, s in chunks for c in t]


SGR = re.compile("\x1b\\[[0-9;:]*m")


def cchars_of_str(text, pal):
    """per-character colours of a rendered string: a character has the colour (prefix, suffix) whose prefix
    is in force; '\\x1b[0m' (or any suffix of the palette) returns to the default"""
    suffix_of = {p: s for p, s in pal.values()}
    out = []
    cur = PLAIN
    pos = 0
    for m in SGR.finditer(text):
        out += [(c, cur) for c in text[pos:m.start()]]
        seq = m.group(0)
        if seq in suffix_of and seq != "":
            cur = (seq, suffix_of[seq])
        else:
            cur = PLAIN
        pos = m.end()
    out += [(c, cur) for c in text[pos:]]
    return out


# ------------------------------------------------------------------ cases
ALPHA = ["a", "b", "a", "b", " ", "é", "中"]


def _text(rng, lo=0, hi=4):
    n = rng.choice([0, 1, 1, 2, 2, 3, 4]) if lo == 0 else rng.randint(lo, hi)
    return "".join(rng.choice(ALPHA) for _ in range(n))


def _col(rng):
    return rng.choice(["plain", "red", "red", "green", "green", "bb", "nc"])


def _chunk(rng):
    return [_col(rng), _text(rng)]


def _part(rng, nvars, depth=0, allow_var=True):
    r = rng.random()
    if r < 0.32:
        return ["s", _text(rng)]
    if r < 0.62:
        return ["c"] + _chunk(rng)
    if r < 0.88 and nvars and allow_var:
        return ["v", rng.randrange(nvars)]
    if depth < 2 and r >= 0.88:
        return [rng.choice("lt"), [_part(rng, nvars, depth + 1, allow_var) for _ in range(rng.choice([0, 1, 2, 2, 3]))]]
    return ["s", _text(rng)]


def _boundaries(val):
    out = {0, len(val)}
    for i in range(1, len(val)):
        if val[i][1] != val[i - 1][1]:
            out.add(i)
    return sorted(out)


def _pos(rng, val, none_ok=True):
    n = len(val)
    r = rng.random()
    if none_ok and r < 0.15:
        return None
    if r < 0.5:
        b = rng.choice(_boundaries(val)) + rng.choice([-1, 0, 0, 1])
        return b - n if rng.random() < 0.4 else b
    return rng.randint(-n - 2, n + 2)


FILLS = ["x", "*", "0", "<", ">", "^", "s", "5", " ", "é", "=", "-"]
MALFORMED = "<>^=sd05+-_ x1."


def _spec(rng, n):
    if rng.random() < 0.2:
        return "".join(rng.choice(MALFORMED) for _ in range(rng.choice([1, 2, 2, 3, 3, 4, 5])))
    s = ""
    r = rng.random()
    if r < 0.4:
        s += rng.choice(FILLS) + rng.choice("<>^")
    elif r < 0.7:
        s += rng.choice("<>^")
    if rng.random() < 0.85:
        w = rng.choice([n - 1, n, n + 1, n + 2, n + 3, n + 5, 1, 10, 12])
        if w > 0:
            s += str(w)
    if rng.random() < 0.3:
        s += "s"
    return s


PAIR_NAME = {}
for _k, _v in DEFAULT_PAL.items():
    PAIR_NAME.setdefault(tuple(_v), _k)


def _runs(val):
    """maximal runs of equally coloured characters: [[colour name, text], ...]"""
    out = []
    for c, pair in val:
        if out and out[-1][0] == pair:
            out[-1][1] += c
        else:
            out.append([pair, c])
    return [[PAIR_NAME[pair], t] for pair, t in out]


def _other_char(c):
    return "b" if c == "a" else "a"


def _near_texts(text, runs=None):
    """strings that are `text` or nearly `text`: the parts a sloppy comparison might look at alone (first / last /
    any run, prefixes and suffixes at run boundaries and elsewhere), one character more / less / changed, white
    space and case variants, the empty string"""
    n = len(text)
    out = [text, "", text + "a", "a" + text, text + " ", " " + text, text.strip(), text.swapcase(), text * 2,
           text[::-1], text[1:], text[:-1], text[:n // 2], text[n // 2:]]
    pos = 0
    for _, t in runs or []:
        out += [t, text[:pos], text[pos:], text[:pos + len(t)], text[pos + len(t):]]
        pos += len(t)
    for i in {0, n // 2, n - 1} if n else ():
        out.append(text[:i] + _other_char(text[i]) + text[i + 1:])
    seen, uniq = set(), []
    for t in out:
        if t not in seen:
            seen.add(t)
            uniq.append(t)
    return uniq


def _near_cols(rng, runs):
    """colours a near-miss chunk operand may have: those of the text's runs first"""
    cols = [r[0] for r in runs[:1]] + [r[0] for r in runs[-1:]] + [r[0] for r in runs] + ["plain", "nc", "red"]
    return cols + [_col(rng)]


class _Gen:
    def __init__(self, rng):
        self.rng = rng
        self.ref = Ref(DEFAULT_PAL)
        self.prog = []

    def nv(self):
        return len(self.ref.vars)

    def emit(self, st):
        """append a statement and keep the reference state in step (code's aliasing rule assumed)"""
        ref = self.ref
        k = st[0]
        if k in CREATING:
            if k == "fixed" and st[2] == len(ref.vars[st[1]]):
                ref.vars.append(ref.vars[st[1]])
            else:
                try:
                    v = ref.create(st)
                    if v is None:
                        v = list(ref.vars[st[1]])[:st[2]] if k == "fixed" else []
                except RefErr:
                    v = []
                ref.vars.append(v)
        elif k == "iadd":
            ref.extend(ref.vars[st[1]], st[2])
        self.prog.append(st)
        return self.nv() - 1

    def random_stmt(self):
        rng = self.rng
        nv = self.nv()
        if nv == 0:
            return self.emit(["new", [_part(rng, 0) for _ in range(rng.choice([0, 1, 2, 3]))]])
        a = rng.randrange(nv) if rng.random() < 0.5 else nv - 1 - min(nv - 1, int(rng.expovariate(1.0)))
        val = self.ref.vars[a]
        n = len(val)
        k = rng.choices(
            ["new", "make", "mkresize", "add", "radd", "join", "index", "slice", "fixed", "cadd", "cradd", "cjoin",
             "cfixed", "iadd", "fmt", "eq", "cindex", "cslice", "ceq", "cfmt",
             "joinit", "cjoinit", "iter", "riter", "in", "citer"],
            [8, 3, 2, 8, 4, 5, 5, 12, 6, 2, 2, 1, 2, 12, 6, 8, 1, 2, 2, 1,
             4, 1, 3, 1, 2, 1])[0]
        if k == "new":
            return self.emit(["new", [_part(rng, nv) for _ in range(rng.choice([0, 1, 2, 3, 4]))]])
        if k == "make":
            cs = [[_col(rng), _text(rng, 1, 3) if rng.random() < 0.93 else ""] for _ in range(rng.choice([0, 1, 2, 3, 4]))]
            return self.emit(["make", cs])
        if k == "mkresize":
            cs = [[_col(rng), _text(rng, 1, 3)] for _ in range(rng.choice([0, 1, 2, 3]))]
            tot = sum(len(c[1]) for c in cs)
            # (a truncating resize can leave an empty chunk behind, see notes: the oracle treats such texts apart)
            return self.emit(["mkresize", cs, max(0, tot + rng.choice([0, 0, 1, 2, 3, -1, -2]))])
        if k == "add":
            return self.emit(["add", a, _part(rng, nv)])
        if k == "radd":
            p = _part(rng, nv)
            if p[0] == "v":
                p = ["s", _text(rng)]
            return self.emit(["radd", p, a])
        if k == "join":
            return self.emit(self.join_kind(["join", a, [_part(rng, nv) for _ in range(rng.choice([0, 1, 2, 3, 3]))]]))
        if k == "joinit":
            it = self.iterable()
            if it[0] == "v" and len(self.ref.vars[it[1]]) * (n + 1) > 80:
                it = ["c", _col(rng), _text(rng, 0, 4)]      # (a text joined over a text grows quadratically)
            return self.emit(["joinit", a, it])
        if k == "cjoinit":
            return self.emit(["cjoinit", _chunk(rng), self.iterable()])
        if k == "iter":
            return self.emit(["iter", a, rng.choice(ITER_HOWS)])
        if k == "riter":
            return self.emit(["riter", a])
        if k == "in":
            return self.emit(["in", a, self.in_operand(a)])
        if k == "citer":
            return self.emit(["citer", _chunk(rng), rng.random() < 0.3])
        if k == "index":
            return self.emit(["index", a, _pos(rng, val, none_ok=False)])
        if k == "slice":
            return self.emit(["slice", a, _pos(rng, val), _pos(rng, val)])
        if k == "fixed":
            m = rng.choice([n, n, n - 1, n + 1, n + 2, 0, rng.randint(0, n + 3), rng.choice(_boundaries(val))])
            # negative lengths are outside the statement (and outside the correspondence domain)
            return self.emit(["fixed", a, max(m, 0)])
        if k == "cadd":
            return self.emit(["cadd", _chunk(rng), _part(rng, nv)])
        if k == "cradd":
            p = _part(rng, nv)
            if p[0] == "v":
                p = ["s", _text(rng)]
            return self.emit(["cradd", p, _chunk(rng)])
        if k == "cjoin":
            return self.emit(self.join_kind(["cjoin", _chunk(rng), [_part(rng, nv) for _ in range(rng.choice([0, 1, 2, 3]))]]))
        if k == "cfixed":
            ch = _chunk(rng)
            return self.emit(["cfixed", ch, rng.randint(0, len(ch[1]) + 2)])
        if k == "iadd":
            p = _part(rng, nv)
            if rng.random() < 0.06:
                p = ["v", a]
            return self.emit(["iadd", a, p])
        if k == "fmt":
            return self.emit(["fmt", a, _spec(rng, n)])
        if k == "eq":
            return self.emit(["eq", a, self.eq_operand(a)])
        ch = _chunk(rng)
        m = len(ch[1])
        if k == "cindex":
            return self.emit(["cindex", ch, rng.randint(-m - 1, m + 1)])
        if k == "cslice":
            return self.emit(["cslice", ch] + [rng.choice([None, rng.randint(-m - 2, m + 2)]) for _ in range(2)])
        if k == "ceq":
            return self.emit(["ceq", ch, self.ceq_operand(ch)])
        return self.emit(["cfmt", ch, _spec(rng, m)])

    def join_kind(self, st):
        """hand the items of a join over as something other than a list in about half of the cases"""
        rng = self.rng
        if rng.random() < 0.5:
            return st
        kind = rng.choice(JOIN_KINDS)
        if kind == "dkeys":
            texts = [p[1] for p in st[2] if p[0] == "s"]
            if len(texts) != len(st[2]) or len(set(texts)) != len(texts):
                kind = "gen"
        return st + [kind]

    def iterable(self, a=None):
        """a text / chunk / str used AS the iterable of a join: mostly one with a run of several characters"""
        rng = self.rng
        r = rng.random()
        if r < 0.6 and self.nv():
            if a is not None and rng.random() < 0.5:
                return ["v", a]
            long = [j for j, v in enumerate(self.ref.vars) if len(v) >= 2]
            return ["v", rng.choice(long) if long and rng.random() < 0.7 else rng.randrange(self.nv())]
        if r < 0.85:
            return ["c", _col(rng), _text(rng, 0, 4)]
        return ["s", _text(rng, 0, 4)]

    def in_operand(self, a):
        """one character in one colour (str / chunk / text), present in v_a or not; a str operand is either
        default-coloured in v_a or absent from it (no demand is made on `'a' in red('a')`)"""
        rng = self.rng
        val = self.ref.vars[a]
        r = rng.random()
        if val and r < 0.6:
            c, pair = rng.choice(val)
            col = PAIR_NAME[pair]
        else:
            c, col = rng.choice(ALPHA), _col(rng)
        if r < 0.15 and val:
            c = rng.choice(ALPHA)                    # right colour, perhaps another character
        r = rng.random()
        if col == "plain" and r < 0.5 and not any(y == c and pair != PLAIN for y, pair in val):
            return ["s", c]
        if r < 0.15:
            absent = [x for x in ALPHA + ["x"] if all(x != y for y, _ in val)]
            return ["s", rng.choice(absent)] if absent else ["c", col, c]
        if r < 0.75:
            return ["c", col, c]
        return ["v", self.emit(["new", [["c", col, c]]])]

    def ceq_operand(self, ch):
        rng = self.rng
        r = rng.random()
        t = ch[1] if r < 0.45 else rng.choice(_near_texts(ch[1]))
        r = rng.random()
        if r < 0.4:
            return ["s", t]
        if r < 0.9:
            return ["c", ch[0] if rng.random() < 0.5 else _col(rng), t]
        return ["c"] + _chunk(rng)

    def eq_operand(self, a):
        """an operand to compare v_a with: the same content (as str / chunk / other object) or a near miss of it"""
        rng = self.rng
        val = self.ref.vars[a]
        r = rng.random()
        text = "".join(c for c, _ in val)
        runs = _runs(val)
        if r < 0.3:
            return ["s", text if rng.random() < 0.5 else rng.choice(_near_texts(text, runs))]
        if r < 0.55:
            col = runs[0][0] if len(runs) == 1 else "plain"
            if rng.random() < 0.4:
                return ["c", rng.choice(_near_cols(rng, runs)), rng.choice(_near_texts(text, runs))]
            return ["c", col if rng.random() < 0.8 else _col(rng), text]
        if r < 0.75:
            return ["v", self.near_var(a)]
        if r < 0.78:
            # a list / tuple is never equal to a text, whatever it holds (as for str)
            inner = rng.choice([[["s", text]], [["v", a]], [["c", r0[0], r0[1]] for r0 in runs], []])
            return [rng.choice("lt"), inner]
        # a variable with the same content if there is one
        same = [j for j, v in enumerate(self.ref.vars) if v == val and j != a]
        if same and rng.random() < 0.7:
            return ["v", rng.choice(same)]
        return ["v", rng.randrange(self.nv())]

    NEAR_VARS = ["prefix", "suffix", "recolour", "retext", "plainall", "extra", "rextra", "dropfirst", "droplast",
                 "split", "swap", "make", "copy", "inner"]

    def near_var(self, a, how=None):
        """emit statements building an object that shows the same as v_a assembled in another way, or nearly the
        same (a prefix / suffix / all runs but one, one run in another colour or with another character, an
        extra chunk at either end, the runs in another order); returns its variable"""
        rng = self.rng
        val = self.ref.vars[a]
        n = len(val)
        runs = _runs(val)
        how = how or rng.choice(self.NEAR_VARS)
        if how == "prefix":
            return self.emit(["slice", a, None, rng.choice(_boundaries(val) + [rng.randint(0, n)])])
        if how == "suffix":
            return self.emit(["slice", a, rng.choice(_boundaries(val) + [rng.randint(0, n)]), None])
        if how == "inner":
            bs = _boundaries(val)
            lo, hi = sorted([rng.choice(bs), rng.choice(bs)])
            return self.emit(["slice", a, lo, hi if rng.random() < 0.5 else hi - n if hi < n else None])
        if how == "plainall":
            return self.emit(["new", [["s", "".join(c for c, _ in val)]]])
        if how == "extra":
            return self.emit(["add", a, ["c", rng.choice(_near_cols(rng, runs)), rng.choice(["", "", "a", " "])]])
        if how == "rextra":
            return self.emit(["radd", ["c", rng.choice(_near_cols(rng, runs)), rng.choice(["", "", "a", " "])], a])
        if how == "copy":
            return self.emit(["new", [["v", a]]])
        rs = [list(x) for x in runs]
        if how == "recolour" and rs:
            k = rng.randrange(len(rs))
            rs[k][0] = rng.choice([c for c in COLOR_NAMES if c != rs[k][0]])
        elif how == "retext" and rs:
            k = rng.randrange(len(rs))
            t = rs[k][1]
            i = rng.randrange(len(t))
            rs[k][1] = rng.choice([t[:i] + _other_char(t[i]) + t[i + 1:], t + t[-1], t[1:], t.swapcase()])
        elif how == "dropfirst":
            rs = rs[1:]
        elif how == "droplast":
            rs = rs[:-1]
        elif how == "swap":
            rs = rs[::-1]
        elif how == "split":
            out = []
            for c, t in rs:
                i = rng.randint(0, len(t))
                out += [[c, t[:i]], [c, t[i:]]]
            rs = out
        elif how == "make":
            return self.emit(["make", rs])
        parts = [["s", t] if c == "plain" and rng.random() < 0.5 else ["c", c, t] for c, t in rs]
        if rng.random() < 0.3:
            parts = [[rng.choice("lt"), parts]]
        return self.emit(["new", parts])

    # ---- targeted families
    def resplit(self, a):
        """take v_a apart and put it together again in another way, then compare"""
        rng = self.rng
        val = self.ref.vars[a]
        n = len(val)
        k = rng.choice(_boundaries(val) + [rng.randint(0, n)])
        how = rng.randrange(5)
        if how == 0:
            x = self.emit(["slice", a, None, k])
            y = self.emit(["slice", a, k, None])
            z = self.emit(["add", x, ["v", y]])
        elif how == 1:
            x = self.emit(["slice", a, None, k - n if k < n else None])
            y = self.emit(["slice", a, k - n if k < n else n, n + 2])
            z = self.emit(["new", [["l", [["v", x], ["t", [["v", y]]]]]]])
        elif how == 2:
            # character by character
            ids = [self.emit(["index", a, i if rng.random() < 0.5 else i - n]) for i in range(min(n, 6))]
            rest = self.emit(["slice", a, min(n, 6), None])
            e = self.emit(["new", []])
            z = self.emit(["join", e, [["v", i] for i in ids] + [["v", rest]]])
        elif how == 3:
            x = self.emit(["fixed", a, k])
            y = self.emit(["slice", a, k, None])
            z = self.emit(["new", [["v", x]]])
            self.emit(["iadd", z, ["v", y]])
        else:
            e = self.emit(["new", [["c", "red", ""], ["s", ""]]])
            z = self.emit(["radd", ["l", [["v", e], ["v", a]]], e])
        self.emit(["eq", a, ["v", z]])
        self.emit(["eq", z, ["v", a]])
        return z


def _random_program(rng, n, tag="random"):
    g = _Gen(rng)
    while len(g.prog) < n:
        if g.nv() and rng.random() < 0.06:
            g.resplit(rng.randrange(g.nv()))
        else:
            g.random_stmt()
    return {"tag": tag, "prog": g.prog}


def _self_iadd_program(rng):
    g = _Gen(rng)
    parts = [["c"] + [_col(rng), _text(rng, 1, 3)] for _ in range(rng.choice([1, 2, 2, 3, 3, 4]))]
    a = g.emit(["new", parts])
    form = rng.randrange(4)
    if form == 0:
        g.emit(["iadd", a, ["v", a]])
    elif form == 1:
        g.emit(["iadd", a, ["l", [["v", a], ["s", _text(rng)], ["v", a]]]])
    elif form == 2:
        b = g.emit(["fixed", a, len(g.ref.vars[a])])         # alias of a
        g.emit(["iadd", b, ["v", a]])
    else:
        g.emit(["iadd", a, ["t", [["s", "x"], ["l", [["v", a]]]]]])
    ref2 = g.emit(["add", a, ["s", ""]])
    g.emit(["eq", a, ["v", ref2]])
    for _ in range(rng.choice([0, 1, 2])):
        g.random_stmt()
    return {"tag": "selfiadd", "prog": g.prog}


def _format_program(rng):
    g = _Gen(rng)
    a = g.emit(["new", [_part(rng, 0) for _ in range(rng.choice([0, 1, 2, 3]))]])
    n = len(g.ref.vars[a])
    for _ in range(8):
        g.emit(["fmt", a, _spec(rng, n)])
    g.emit(["cfmt", _chunk(rng), _spec(rng, 2)])
    return {"tag": "format", "prog": g.prog}


def _slice_program(rng):
    g = _Gen(rng)
    a = g.emit(["new", [["c"] + [_col(rng), _text(rng, 1, 3)] for _ in range(rng.choice([1, 2, 3, 4]))]])
    val = g.ref.vars[a]
    n = len(val)
    for _ in range(6):
        g.emit(["slice", a, _pos(rng, val), _pos(rng, val)])
    for _ in range(3):
        g.emit(["index", a, rng.randint(-n - 1, n)])
    g.emit(["fixed", a, rng.randint(0, n + 2)])
    g.resplit(a)
    return {"tag": "slice", "prog": g.prog}


def _eq_program(rng):
    """one text (1-4 runs, usually starting or ending with default-coloured characters, or taken out of a longer
    text) compared with the whole menu of near misses: as str, as chunk, as another CHText"""
    g = _Gen(rng)
    style = rng.randrange(6)
    nruns = rng.choice([1, 2, 2, 3, 3, 4])
    cols = []
    for i in range(nruns):
        if style == 0:
            c = "plain" if i % 2 == 0 else rng.choice(["red", "green", "bb"])       # label + coloured value ...
        elif style == 1:
            c = "plain" if i % 2 == 1 else rng.choice(["red", "green", "bb"])       # coloured, then plain ...
        elif style == 2:
            c = rng.choice(["plain", "nc"])                                         # shows default colour only
        elif style == 3:
            c = rng.choice(["red", "green", "bb"])
        else:
            c = _col(rng)
        cols.append(c)
    parts = [["s", t] if c == "plain" and rng.random() < 0.6 else ["c", c, t]
             for c, t in ((c, _text(rng, 1, 3)) for c in cols)]
    if style == 5 and rng.random() < 0.5:
        parts = []
    way = rng.randrange(5)
    if way == 0 or not parts:
        a = g.emit(["new", parts])
    elif way == 1:
        a = g.emit(["new", parts[:1]])
        for p in parts[1:]:
            a = g.emit(["add", a, p])
    elif way == 2:
        a = g.emit(["new", parts[:1]])
        for p in parts[1:]:
            g.emit(["iadd", a, p])
    elif way == 3:
        a = g.emit(["new", parts[-1:]])
        for p in reversed(parts[:-1]):
            a = g.emit(["radd", p, a])
    else:
        e = g.emit(["new", []])
        a = g.emit(["join", e, parts])
    if rng.random() < 0.3:
        # a piece of the text: the comparison must not see what was cut off
        b = g.near_var(a, rng.choice(["prefix", "suffix", "inner"]))
        if g.ref.vars[b] or rng.random() < 0.2:
            a = b
    val = g.ref.vars[a]
    text = "".join(c for c, _ in val)
    runs = _runs(val)
    strs = _near_texts(text, runs)
    # always: the text itself, '', the first and the last run alone; then a sample of the other near misses
    must = [text, ""] + [r[1] for r in runs[:1] + runs[-1:]]
    must = [t for k, t in enumerate(must) if t not in must[:k]]
    rest = [t for t in strs if t not in must]
    for t in must + rng.sample(rest, min(len(rest), 8)):
        g.emit(["eq", a, ["s", t]])
    for r in runs[:1] + runs[-1:]:
        g.emit(["eq", a, ["c", r[0], r[1]]])                 # the first / last run as a chunk
    ncols = _near_cols(rng, runs)
    for _ in range(5):
        g.emit(["eq", a, ["c", rng.choice(ncols), text if rng.random() < 0.4 else rng.choice(strs)]])
    for how in rng.sample(_Gen.NEAR_VARS, 6):
        b = g.near_var(a, how)
        g.emit(["eq", a, ["v", b]])
    for r in rng.sample(runs, min(len(runs), 2)):
        ch = [r[0], r[1]]
        near = _near_texts(r[1])
        for t in rng.sample(near, 2):
            g.emit(["ceq", [rng.choice([r[0], "plain", "nc"]), r[1]], ["s", t]])
            g.emit(["ceq", ch, ["c", rng.choice([r[0], r[0], "plain", _col(rng)]), t]])
    return {"tag": "eqnear", "prog": g.prog}


def _iter_program(rng):
    """a text with at least one colour run of several characters, used as an iterable in every way: as the
    argument of join (separator empty / plain / coloured / of several runs / a bare chunk / the text itself),
    walked in all spellings, reversed, searched; again after += changed it; the same with chunks and strs"""
    g = _Gen(rng)
    nruns = rng.choice([1, 2, 2, 3, 3, 4])
    cols = []
    for i in range(nruns):
        c = _col(rng)
        while cols and DEFAULT_PAL[c] == DEFAULT_PAL[cols[-1]]:
            c = _col(rng)
        cols.append(c)
    long = rng.randrange(nruns)
    parts = []
    for i, c in enumerate(cols):
        t = _text(rng, 2, 4) if i == long or rng.random() < 0.4 else _text(rng, 1, 2)
        parts.append(["s", t] if c == "plain" and rng.random() < 0.5 else ["c", c, t])
    a = g.emit(["new", parts])
    if rng.random() < 0.3:
        b = g.near_var(a, rng.choice(["prefix", "suffix", "inner", "copy"]))
        if len(g.ref.vars[b]) >= 2:
            a = b
    seps = [g.emit(["new", []]), g.emit(["new", [["s", rng.choice(["-", ", ", " "])]]]),
            g.emit(["new", [["c", rng.choice(["red", "green", "bb"]), rng.choice(["-", "ab"])]]]),
            g.emit(["new", [["c", "red", "a"], ["s", "b"]]]), a]
    if rng.random() < 0.5:
        _iter_joins(g, a, seps)
    else:
        _iter_walks(g, a, seps)
    return {"tag": "iter", "prog": g.prog}


def _iter_joins(g, a, seps):
    rng = g.rng
    for sp in rng.sample(seps, 3):
        g.emit(["joinit", sp, ["v", a]])
    # ''.join(text) is the text again
    e = g.emit(["joinit", seps[0], ["v", a]])
    g.emit(["eq", e, ["v", a]])
    g.emit(["cjoinit", [rng.choice(["plain", "red", "nc"]), rng.choice(["", "-", "ab"])], ["v", a]])
    # the same join written over the single characters (index by index) must give the same
    n = len(g.ref.vars[a])
    ids = [g.emit(["index", a, i]) for i in range(min(n, 5))]
    if n <= 5:
        z = g.emit(g.join_kind(["join", seps[1], [["v", i] for i in ids]]))
        y = g.emit(["joinit", seps[1], ["v", a]])
        g.emit(["eq", z, ["v", y]])
    # the items handed over as generator / dict keys / ...
    chars = [c for c, _ in g.ref.vars[a]][:4]
    g.emit(["join", seps[2], [["s", c] for c in chars], "dkeys" if len(set(chars)) == len(chars) else "gen"])
    g.emit(["join", a, [_part(rng, g.nv()) for _ in range(3)], rng.choice(JOIN_KINDS[1:5] + ["rev"])])
    # again after the text was changed in place
    g.emit(["iadd", a, _part(rng, g.nv())])
    g.emit(["joinit", seps[1], ["v", a]])


def _iter_walks(g, a, seps):
    rng = g.rng
    for how in rng.sample(ITER_HOWS, 3):
        g.emit(["iter", a, how])
    g.emit(["riter", a])
    for _ in range(3):
        g.emit(["in", a, g.in_operand(a)])
    # chunks and strs as iterables
    ch = [rng.choice(["red", "green", "bb", "plain", "nc"]), _text(rng, 2, 4)]
    g.emit(["joinit", rng.choice(seps), ["c"] + ch])
    g.emit(["cjoinit", _chunk(rng), ["c"] + ch])
    g.emit(["joinit", rng.choice(seps), ["s", _text(rng, 2, 4)]])
    g.emit(["citer", ch, False])
    g.emit(["citer", ch, True])
    # walk again after the text was changed in place, and walk a result of a walk-based join
    g.emit(["iadd", a, _part(rng, g.nv())])
    g.emit(["iter", a, rng.choice(ITER_HOWS)])
    j = g.emit(["joinit", seps[1], ["v", a]])
    g.emit(["iter", j, rng.choice(ITER_HOWS)])
    g.emit(["iter", seps[0], "list"])


def _long_program(rng):
    """round 5: texts of 257-300 colour runs (alternating colours), each built in several ways out of doubled pieces
    (so the Coq term stays small: d0 = two runs, d[i+1] = d[i] + d[i]) and compared ==, != in both orders: the same
    text from the constructor / += / join / a slice of a longer text, a copy, its two halves glued together, and
    near misses (last run recoloured, one run more / less)"""
    g = _Gen(rng)
    c1, c2 = rng.sample(["red", "green", "bb", "plain"], 2)
    t1, t2 = _text(rng, 1, 2), _text(rng, 1, 2)
    pair = len(t1) + len(t2)
    d = [g.emit(["new", [["c", c1, t1], ["c", c2, t2]]])]
    for _ in range(8):
        d.append(g.emit(["add", d[-1], ["v", d[-1]]]))           # d[i] = 2**i pairs, d[8] = 512 runs
    m = rng.randint(129, 150)                                  # pairs: 258..300 runs (+1 with the odd tail)
    odd = rng.random() < 0.5
    tail = [["c", c1, t1]] if odd else []
    bits = [i for i in range(8, -1, -1) if m >> i & 1]
    texts = []
    ways = rng.sample(["ctor", "iadd", "join", "slice", "copyadd"], 3)
    for way in ways:
        if way == "ctor":
            x = g.emit(["new", [["v", d[i]] for i in bits] + tail])
        elif way == "iadd":
            x = g.emit(["new", []])
            for i in reversed(bits):
                g.emit(["iadd", x, ["v", d[i]]])
            for p in tail:
                g.emit(["iadd", x, p])
        elif way == "join":
            e = g.emit(["new", []])
            x = g.emit(["join", e, [["v", d[i]] for i in bits] + tail])
        elif way == "slice":
            x = g.emit(["slice", d[8], None, m * pair + (len(t1) if odd else 0)])
        else:
            x = g.emit(["new", [["v", d[bits[0]]]]])
            x = g.emit(["add", x, ["l", [["v", d[i]] for i in bits[1:]] + tail]])
        texts.append(x)
    a = texts[0]
    for b in texts[1:]:
        g.emit(["eq", a, ["v", b]])
    g.emit(["eq", texts[1], ["v", texts[2]]])
    n = len(g.ref.vars[a])
    k = rng.randint(1, n - 1)
    s1 = g.emit(["slice", a, None, k])
    s2 = g.emit(["slice", a, k, None])
    glued = g.emit(["add", s1, ["v", s2]])
    g.emit(["eq", a, ["v", glued]])
    cp = g.emit(["new", [["v", a]]])
    g.emit(["eq", cp, ["v", a]])
    # near misses: the last character in another colour, one pair more, one character less
    last = g.ref.vars[a][-1][0]
    other = next(c for c in ["red", "green", "bb", "plain"] if c not in (c1, c2))
    cut = g.emit(["slice", a, None, n - 1])
    nm = g.emit(["add", cut, ["c", other, last]])
    g.emit(["eq", a, ["v", nm]])
    g.emit(["eq", a, ["v", cut]])
    more = g.emit(["add", a, ["v", d[0]]])
    g.emit(["eq", more, ["v", a]])
    return {"tag": "long", "prog": g.prog}


# round 5: statements whose result is a base-class CHText by construction (operations of a bare chunk) -- such a
# result cannot be fed back into a SUBCLASS text (isinstance(other, type(self)) fails, str(other) is taken: so on
# the unchanged code), hence programs containing them are not run with the subclass as the text class
_CHUNK_MADE = {"cadd", "cradd", "cjoin", "cjoinit", "cfixed"}


def _sub_ok(prog):
    for st in prog:
        if st[0] in _CHUNK_MADE:
            return False
        if st[0] == "radd" and st[1][0] == "c":         # chunk + text is the chunk's __add__: a base-class text
            return False
    return True


def _tag_subclass(cases, rng, share):
    """run a share of the programs with `class T(CHText): pass` as the text class (the model is class-agnostic)"""
    for c in cases:
        if c.get("tag") != "fixed" and _sub_ok(c["prog"]) and rng.random() < share:
            c["cls"] = "sub"
    return cases


FIXED_CASES = [
    {"tag": "fixed", "prog": [["new", [["c", "red", "ab"], ["s", "c"], ["c", "green", "de"]]], ["new", [["c", "bb", "-"]]],
                              ["joinit", 1, ["v", 0]], ["iter", 0, "for"], ["riter", 0], ["in", 0, ["c", "red", "b"]],
                              ["in", 0, ["s", "c"]], ["in", 0, ["s", "x"]], ["joinit", 1, ["c", "green", "xyz"]],
                              ["joinit", 1, ["s", "xyz"]], ["cjoinit", ["red", ", "], ["v", 0]], ["citer", ["red", "abc"], False],
                              ["citer", ["red", "abc"], True], ["join", 1, [["s", "a"], ["s", "b"]], "dkeys"],
                              ["join", 1, [["v", 0], ["c", "red", "q"]], "gen"], ["joinit", 0, ["v", 0]], ["iter", 1, "star"],
                              ["new", []], ["iter", 9, "list"], ["joinit", 1, ["v", 9]]]},
    {"tag": "fixed", "prog": [["new", [["c", "red", "ab"], ["s", "cd"]]], ["iadd", 0, ["v", 0]], ["add", 0, ["s", ""]],
                              ["eq", 0, ["v", 1]]]},
    {"tag": "fixed", "prog": [["new", [["c", "red", "ab"], ["s", "cd"], ["c", "red", "e"]]], ["iadd", 0, ["v", 0]]]},
    {"tag": "fixed", "prog": [["new", [["s", "abc"]]], ["fixed", 0, 3], ["iadd", 1, ["s", "x"]], ["eq", 0, ["s", "abcx"]]]},
    {"tag": "fixed", "prog": [["new", []], ["eq", 0, ["s", ""]], ["eq", 0, ["c", "red", ""]], ["new", [["c", "red", ""]]],
                              ["eq", 0, ["v", 1]], ["fmt", 0, "^5"], ["slice", 0, 1, -1], ["index", 0, 0], ["fixed", 0, 0],
                              ["fixed", 0, 2]]},
    {"tag": "fixed", "prog": [["new", [["c", "green", "green"], ["c", "red", "red"]]], ["slice", 0, 1, 6], ["slice", 0, -7, 8],
                              ["slice", 0, 100, 1], ["slice", 0, 5, -5], ["index", 0, -8], ["index", 0, 8], ["index", 0, -9],
                              ["fmt", 0, ">>10"], ["fmt", 0, "d"], ["fmt", 0, "1a0"], ["fmt", 0, "s"], ["fmt", 0, ""],
                              ["fmt", 0, "05"], ["fmt", 0, " 12"], ["fmt", 0, "+12"], ["fmt", 0, "1_2"], ["fmt", 0, "=12"]]},
    {"tag": "fixed", "prog": [["make", [["red", "a"], ["red", "b"], ["plain", "c"], ["nc", "d"]]],
                              ["new", [["c", "red", "ab"], ["s", "cd"]]], ["eq", 0, ["v", 1]],
                              ["mkresize", [["red", "ab"]], 4], ["mkresize", [["red", "ab"]], 2], ["mkresize", [], 0]]},
    {"tag": "fixed", "prog": [["cadd", ["red", "ab"], ["s", "cd"]], ["cradd", ["s", "cd"], ["red", "ab"]],
                              ["cradd", ["l", [["s", "x"], ["c", "red", "y"]]], ["red", "ab"]],
                              ["cjoin", ["red", "-"], [["s", "a"], ["c", "red", "b"], ["v", 0]]],
                              ["cfixed", ["red", "abc"], 5], ["cfixed", ["red", "abc"], 2], ["cfixed", ["red", "abc"], 3],
                              ["cindex", ["red", "abc"], -1], ["cindex", ["red", "abc"], 3],
                              ["cslice", ["red", "abc"], -2, None], ["ceq", ["plain", "ab"], ["s", "ab"]],
                              ["ceq", ["red", "ab"], ["s", "ab"]], ["ceq", ["red", "ab"], ["c", "red", "ab"]],
                              ["cfmt", ["red", "ab"], "*^7"], ["eq", 0, ["c", "red", "ab"]], ["radd", ["s", "z"], 0],
                              ["radd", ["t", [["s", "z"], ["c", "red", "q"]]], 0]]},
]


def gen_cases(rng, tier):
    big = tier == "thorough"
    cases = [json.loads(json.dumps(c)) for c in FIXED_CASES]
    for _ in range(12000 if big else 900):
        cases.append(_random_program(rng, rng.randint(3, 25)))
    for _ in range(1000 if big else 60):
        cases.append(_self_iadd_program(rng))
    for _ in range(2500 if big else 200):
        cases.append(_format_program(rng))
    for _ in range(4000 if big else 300):
        cases.append(_slice_program(rng))
    for _ in range(2500 if big else 200):
        cases.append(_eq_program(rng))
    for _ in range(3000 if big else 260):
        cases.append(_iter_program(rng))
    for _ in range(40 if big else 6):
        cases.append(_long_program(rng))
    return _tag_subclass(cases, rng, 0.3)


def search_cases(rng, tier):
    cases = []
    for _ in range(400):
        cases.append(_self_iadd_program(rng))
    for _ in range(1500):
        cases.append(_random_program(rng, rng.randint(3, 12)))
    for _ in range(600):
        cases.append(_slice_program(rng))
    for _ in range(400):
        cases.append(_format_program(rng))
    for _ in range(600):
        cases.append(_eq_program(rng))
    for _ in range(400):
        cases.append(_iter_program(rng))
    for _ in range(12):
        cases.append(_long_program(rng))
    return _tag_subclass(cases, rng, 0.4)


def kind(case):
    return case.get("tag", "prog")


def shrink_candidates(case):
    prog = case["prog"]
    extra = {"cls": case["cls"]} if "cls" in case else {}
    # shorter prefixes first, then drop non-binding statements, then neutralise binding ones
    for n in range(1, len(prog)):
        yield {"tag": case.get("tag", "prog"), "prog": prog[:n], **extra}
    for i, st in enumerate(prog):
        if st[0] not in CREATING:
            yield {"tag": case.get("tag", "prog"), "prog": prog[:i] + prog[i + 1:], **extra}
    for i, st in enumerate(prog):
        if st[0] in CREATING and st != ["new", []]:
            yield {"tag": case.get("tag", "prog"), "prog": prog[:i] + [["new", []]] + prog[i + 1:], **extra}


# ------------------------------------------------------------------ implementation
def impl_run(case):
    from ak.color import CHText as BaseText, ColorFmt
    Chunk = BaseText.Chunk
    if case.get("cls") == "sub":
        # a user's trivial subclass as the text class: every CHText operation promises type(self) results
        class T(BaseText):
            pass
        CHText = T
    else:
        CHText = BaseText
    fmts = {name: ColorFmt(*a, **kw) for name, (a, kw) in COLORS.items()}
    pal = {}
    for name, f in fmts.items():
        c = f("")
        pal[name] = [c.c_prefix, c.c_suffix]
    vs = []

    def mkchunk(ch):
        return fmts[ch[0]](ch[1])

    def mkpart(p):
        if p[0] == "s":
            return p[1]
        if p[0] == "c":
            return mkchunk(p[1:])
        if p[0] == "v":
            return vs[p[1]]
        items = [mkpart(x) for x in p[1]]
        return items if p[0] == "l" else tuple(items)

    def mkiterable(parts, kind):
        """the items handed to join() as something other than a list"""
        items = [mkpart(p) for p in parts]
        if kind in (None, "list"):
            return items
        if kind == "tuple":
            return tuple(items)
        if kind == "gen":
            return (x for x in items)
        if kind == "iter":
            return iter(items)
        if kind == "map":
            return map(lambda x: x, items)
        if kind == "dkeys":
            return dict.fromkeys(items).keys()       # the generator hands out distinct str items only
        if kind == "rev":
            return reversed(items[::-1])
        raise ValueError(kind)

    def walk(t, how):
        """the items of iterating t, spelled in the ways a caller may spell it"""
        if how == "list":
            return list(t)
        if how == "tuple":
            return list(tuple(t))
        if how == "for":
            out = []
            for x in t:
                out.append(x)
            return out
        if how == "comp":
            return [x for x in t]
        if how == "unpack":
            *out, = t
            return out
        if how == "next":
            it = iter(t)
            out = []
            while True:
                try:
                    out.append(next(it))
                except StopIteration:
                    return out
        if how == "enum":
            return [x for _, x in enumerate(t)]
        if how == "star":
            return (lambda *a: list(a))(*t)
        raise ValueError(how)

    def chunks_of(t):
        return [[c.c_prefix, c.text, c.c_suffix] for c in t.chunks]

    def snap(t):
        return [len(t), chunks_of(t)]

    def err(e):
        if isinstance(e, MemoryError):
            raise e
        return ["err", SX.exc_name(e)]

    def create(st):
        k = st[0]
        if k == "new":
            return CHText(*[mkpart(p) for p in st[1]])
        if k == "make":
            return CHText.make([mkchunk(c) for c in st[1]])
        if k == "mkresize":
            return CHText.make(CHText.resize_chunks_list([mkchunk(c) for c in st[1]], st[2]))
        if k == "add":
            return vs[st[1]] + mkpart(st[2])
        if k == "radd":
            return mkpart(st[1]) + vs[st[2]]
        if k == "join":
            return vs[st[1]].join(mkiterable(st[2], st[3] if len(st) > 3 else None))
        if k == "index":
            return vs[st[1]][st[2]]
        if k == "slice":
            return vs[st[1]][st[2]:st[3]]
        if k == "fixed":
            return vs[st[1]].fixed_len(st[2])
        if k == "cadd":
            return mkchunk(st[1]) + mkpart(st[2])
        if k == "cradd":
            return mkpart(st[1]) + mkchunk(st[2])
        if k == "cjoin":
            return mkchunk(st[1]).join(mkiterable(st[2], st[3] if len(st) > 3 else None))
        if k == "joinit":
            return vs[st[1]].join(mkpart(st[2]))
        if k == "cjoinit":
            return mkchunk(st[1]).join(mkpart(st[2]))
        if k == "cfixed":
            return mkchunk(st[1]).fixed_len(st[2])
        raise ValueError(k)

    sobs = []
    for st in case["prog"]:
        k = st[0]
        if k in CREATING:
            try:
                r = create(st)
                if not isinstance(r, BaseText):
                    raise TypeError("result is not a CHText")
            except Exception as e:  # noqa
                sobs.append({"r": err(e)})
                vs.append(CHText())
                continue
            vs.append(r)
            first = next(i for i, v in enumerate(vs) if v is r)
            sobs.append({"r": ["ok", first], "snap": snap(r)})
            if type(r) is not CHText and st[0] not in _CHUNK_MADE:
                # recorded, and the program goes on with the object as it is (its later use shows the consequences)
                sobs[-1]["type"] = type(r).__name__
        elif k == "iadd":
            x = vs[st[1]]
            old = x
            try:
                x += mkpart(st[2])
            except Exception as e:  # noqa
                sobs.append({"r": err(e)})
                continue
            vs[st[1]] = x
            sobs.append({"r": ["ok", 1 if x is old else 0], "snap": snap(x) if isinstance(x, BaseText) else None})
        elif k in ("fmt", "cfmt"):
            obj = vs[st[1]] if k == "fmt" else mkchunk(st[1])
            try:
                r = format(obj, st[2])
                if not isinstance(r, str):
                    raise TypeError("format result is not a str")
                o = {"r": ["ok", r], "str": str(obj), "n": len(obj), "plain": obj.plain_text()}
            except Exception as e:  # noqa
                o = {"r": err(e), "plain": obj.plain_text()}
            try:
                o["py"] = ["ok", format(obj.plain_text(), st[2])]
            except Exception as e:  # noqa
                o["py"] = ["err", SX.exc_name(e)]
            sobs.append(o)
        elif k in ("eq", "ceq"):
            a = vs[st[1]] if k == "eq" else mkchunk(st[1])
            b = mkpart(st[2])
            res = [a == b, b == a, a != b, b != a]
            res = [int(x) if isinstance(x, bool) else 2 for x in res]
            sobs.append({"r": res[:2], "ne": res[2:]})
        elif k in ("iter", "riter"):
            t = vs[st[1]]
            o = {}
            try:
                items = walk(t, st[2]) if k == "iter" else list(reversed(t))
                odd = [type(x).__name__ for x in items if type(x) is not CHText]
                if odd:
                    o["r"] = ["err", "ItemType:" + odd[0]]
                    o["items"] = [str(x) for x in items]
                else:
                    o["r"] = ["ok", [{"scrlen": x.scrlen, "len": len(x), "chunks": chunks_of(x), "str": str(x),
                                      "plain": x.plain_text()} for x in items]]
            except Exception as e:  # noqa
                o["r"] = err(e)
            try:
                o["bool"] = bool(t)
                o["n"] = len(t)
            except Exception as e:  # noqa
                o["bool"] = SX.exc_name(e)
            sobs.append(o)
        elif k == "in":
            try:
                r = mkpart(st[2]) in vs[st[1]]
                sobs.append({"r": ["ok", int(r) if isinstance(r, bool) else 2]})
            except Exception as e:  # noqa
                sobs.append({"r": err(e)})
        elif k == "citer":
            c = mkchunk(st[1])
            try:
                items = list(reversed(c)) if st[2] else list(c)
                odd = [type(x).__name__ for x in items if type(x) is not Chunk]
                if odd:
                    sobs.append({"r": ["err", "ItemType:" + odd[0]]})
                else:
                    sobs.append({"r": ["ok", [[x.c_prefix, x.text, x.c_suffix] for x in items]]})
            except Exception as e:  # noqa
                sobs.append({"r": err(e)})
        elif k in ("cindex", "cslice"):
            c = mkchunk(st[1])
            try:
                r = c[st[2]] if k == "cindex" else c[st[2]:st[3]]
                if type(r) is not Chunk:
                    raise TypeError("result is not a chunk")
                sobs.append({"r": ["ok", [r.c_prefix, r.text, r.c_suffix]]})
            except Exception as e:  # noqa
                sobs.append({"r": err(e)})
        else:
            raise ValueError(k)
    dump = []
    for v in vs:
        ref = CHText(*[Chunk(c.c_prefix, ch, c.c_suffix) for c in v.chunks for ch in c.text])
        dump.append({"len": len(v), "chunks": chunks_of(v), "str": str(v), "plain": v.plain_text(),
                     "eqref": [bool(v == ref), bool(ref == v)], "scrlen": v.scrlen})
    return {"pal": pal, "stmts": sobs, "dump": dump}


# ------------------------------------------------------------------ model side
def in_model(case, obs):
    return "__hang__" not in obs


def _c_chunk(ch, pal):
    p, s = pal[ch[0]]
    return f"(Chunk {SX.cstr(p)} {SX.cstr(ch[1])} {SX.cstr(s)})"


def _c_part(p, pal):
    if p[0] == "s":
        return f"(PS {SX.cstr(p[1])})"
    if p[0] == "c":
        return f"(PC {_c_chunk(p[1:], pal)})"
    if p[0] == "v":
        return f"(PV {SX.cnat(p[1])})"
    return _c_plist(p[1], pal)


def _c_plist(parts, pal):
    out = "PNil"
    for p in reversed(parts):
        out = f"(PCons {_c_part(p, pal)} {out})"
    return out


def _c_parts(parts, pal):
    return SX.clist(_c_part(p, pal) for p in parts) if parts else "(@nil part)"


def _c_chunks(cs, pal):
    return SX.clist(_c_chunk(c, pal) for c in cs) if cs else "(@nil chunk)"


def _c_iterable(it, pal):
    if it[0] == "v":
        return f"(ItText {SX.cnat(it[1])})"
    if it[0] == "c":
        return f"(ItChunk {_c_chunk(it[1:], pal)})"
    if it[0] == "s":
        return f"(ItStr {SX.cstr(it[1])})"
    raise ValueError(it)


def _c_opt(x):
    return SX.copt(x, SX.cZ)


def coq_case(case, obs):
    pal = obs["pal"]
    out = []
    for st in case["prog"]:
        k = st[0]
        if k == "new":
            out.append(f"SNew {_c_plist(st[1], pal)}")
        elif k == "make":
            out.append(f"SMake {_c_chunks(st[1], pal)}")
        elif k == "mkresize":
            out.append(f"SMakeResize {_c_chunks(st[1], pal)} {SX.cZ(st[2])}")
        elif k == "add":
            out.append(f"SAdd {SX.cnat(st[1])} {_c_part(st[2], pal)}")
        elif k == "radd":
            out.append(f"SRadd {_c_part(st[1], pal)} {SX.cnat(st[2])}")
        elif k == "join":
            out.append(f"SJoin {SX.cnat(st[1])} {_c_parts(st[2], pal)}")
        elif k == "index":
            out.append(f"SIndex {SX.cnat(st[1])} {SX.cZ(st[2])}")
        elif k == "slice":
            out.append(f"SSlice {SX.cnat(st[1])} {_c_opt(st[2])} {_c_opt(st[3])}")
        elif k == "fixed":
            out.append(f"SFixed {SX.cnat(st[1])} {SX.cZ(st[2])}")
        elif k == "cadd":
            out.append(f"SChunkAdd {_c_chunk(st[1], pal)} {_c_part(st[2], pal)}")
        elif k == "cradd":
            out.append(f"SChunkRadd {_c_part(st[1], pal)} {_c_chunk(st[2], pal)}")
        elif k == "cjoin":
            out.append(f"SChunkJoin {_c_chunk(st[1], pal)} {_c_parts(st[2], pal)}")
        elif k == "cfixed":
            out.append(f"SChunkFixed {_c_chunk(st[1], pal)} {SX.cZ(st[2])}")
        elif k == "iadd":
            out.append(f"SIadd {SX.cnat(st[1])} {_c_part(st[2], pal)}")
        elif k == "fmt":
            out.append(f"OFormat {SX.cnat(st[1])} {SX.cstr(st[2])}")
        elif k == "eq":
            out.append(f"OEq {SX.cnat(st[1])} {_c_part(st[2], pal)}")
        elif k == "cindex":
            out.append(f"OChunkIndex {_c_chunk(st[1], pal)} {SX.cZ(st[2])}")
        elif k == "cslice":
            out.append(f"OChunkSlice {_c_chunk(st[1], pal)} {_c_opt(st[2])} {_c_opt(st[3])}")
        elif k == "ceq":
            out.append(f"OChunkEq {_c_chunk(st[1], pal)} {_c_part(st[2], pal)}")
        elif k == "cfmt":
            out.append(f"OChunkFormat {_c_chunk(st[1], pal)} {SX.cstr(st[2])}")
        elif k == "joinit":
            out.append(f"SJoinIt {SX.cnat(st[1])} {_c_iterable(st[2], pal)}")
        elif k == "cjoinit":
            out.append(f"SChunkJoinIt {_c_chunk(st[1], pal)} {_c_iterable(st[2], pal)}")
        elif k == "iter":
            out.append(f"OIter {SX.cnat(st[1])}")
        elif k == "riter":
            out.append(f"ORevIter {SX.cnat(st[1])}")
        elif k == "in":
            out.append(f"OIn {SX.cnat(st[1])} {_c_part(st[2], pal)}")
        elif k == "citer":
            out.append(f"OChunkIter {_c_chunk(st[1], pal)} {SX.cbool(bool(st[2]))}")
        else:
            raise ValueError(k)
    return "Prog " + (SX.clist(out) if out else "(@nil stmt)")


def _sx_chunks(chunks):
    return [[SX.s(p), SX.s(t), SX.s(s)] for p, t, s in chunks]


HP = (1 << 61) - 1
HM = 1000003


def sx_hash(x):
    """mirror of C08/Run.v:sx_hash on the python form of an sx value"""
    if isinstance(x, bool):
        x = int(x)
    if isinstance(x, int):
        return ((x % HP) * 2 + 1) % HP
    if isinstance(x, str):
        x = SX.s(x)
    h = 5
    for e in x:
        h = (h * HM + sx_hash(e) + 3) % HP
    return (h * 2) % HP


def full_obs(case, obs):
    """the observation in the encoding of run_full"""
    so = []
    for st, o in zip(case["prog"], obs["stmts"]):
        k = st[0]
        r = o["r"]
        if k in CREATING or k == "iadd":
            so.append([0, r[1]] if r[0] == "ok" else SX.err(r[1]))
        elif k in ("fmt", "cfmt"):
            so.append(SX.ok(SX.s(r[1])) if r[0] == "ok" else SX.err(r[1]))
        elif k in ("eq", "ceq"):
            so.append([int(r[0]), int(r[1]), int(o["ne"][0]), int(o["ne"][1])])
        elif k in ("iter", "riter"):
            so.append(SX.ok([[x["scrlen"], _sx_chunks(x["chunks"]), SX.s(x["str"]), SX.s(x["plain"])] for x in r[1]])
                      if r[0] == "ok" else SX.err(r[1]))
        elif k == "in":
            so.append(SX.ok(r[1]) if r[0] == "ok" else SX.err(r[1]))
        elif k == "citer":
            # the model has no error case here (a marker that cannot equal a list of chunks)
            so.append(_sx_chunks(r[1]) if r[0] == "ok" else [[-1], SX.err(r[1])])
        else:
            so.append(SX.ok(_sx_chunks([r[1]])[0]) if r[0] == "ok" else SX.err(r[1]))
    dump = [[d["scrlen"], _sx_chunks(d["chunks"]), SX.s(d["str"]), SX.s(d["plain"])] for d in obs["dump"]]
    return [so, dump]


def expected_sx(case, obs):
    if "__hang__" in obs:
        return "HANG"
    so, dump = full_obs(case, obs)
    cso = []
    for st, o in zip(case["prog"], so):
        if st[0] in ("fmt", "cfmt", "cindex", "cslice", "iter", "riter") and o[0] == 0:
            o = [0, sx_hash(o[1])]
        cso.append(o)
    cd = [[d[0], len(d[1]), sx_hash(d)] for d in dump]
    return SX.dumps([cso, cd])


# ------------------------------------------------------------------ oracle: the statement, on plain lists
def _show(val):
    return "".join(c for c, _ in val)


def oracle(case, obs):
    if "__hang__" in obs:
        prog = case["prog"]
        selfy = any(st[0] == "iadd" and any(l == ["v", st[1]] for l in Ref(DEFAULT_PAL).leaves(st[2])) for st in prog)
        aliasy = any(st[0] == "fixed" for st in prog) and any(st[0] == "iadd" for st in prog)
        if selfy or aliasy:
            return [("iadd-self-hang", f"program with `t += t` did not terminate: {json.dumps(prog)[:300]}")]
        return [("hang", f"program did not terminate: {json.dumps(prog)[:300]}")]
    out = []
    pal = obs["pal"]
    ref = Ref(pal)
    tainted = set()       # ids of ref objects whose implementation object came out of make() with an empty chunk

    def bad(sig, msg):
        out.append((sig, msg))

    def check_snap(i, st, val, ln, chunks, what):
        got = cchars_of_chunks(chunks)
        if got != val:
            if _show(got) != _show(val):
                bad("visible-text", f"stmt {i} {st}: {what} shows {_show(got)!r}, the same operations on str give {_show(val)!r}")
            else:
                bad("colour", f"stmt {i} {st}: {what} shows {_show(got)!r} with colours {[c for _, c in got]}, expected {[c for _, c in val]}")
        if ln != len(got):
            bad("len", f"stmt {i} {st}: len() = {ln} but {len(got)} visible characters")

    for i, (st, o) in enumerate(zip(case["prog"], obs["stmts"])):
        k = st[0]
        r = o["r"]
        if k in CREATING:
            if o.get("type"):
                bad("result-type", f"stmt {i} {st}: the text class is a subclass of CHText (class T(CHText): pass) and the "
                                   f"result is a {o['type']}, not a T: T's constructor, +, += and join take such an object "
                                   f"through str(), its escape sequences become visible characters")
            try:
                want = ref.create(st)
                werr = None
            except RefErr as e:
                want, werr = None, e.name
            if werr is not None:
                if r != ["err", werr]:
                    bad("wrong-exception", f"stmt {i} {st}: expected {werr}, got {r}")
                ref.vars.append([])
                continue
            if r[0] != "ok":
                if want is None:
                    ref.vars.append([])     # outside the statement (negative length)
                    continue
                bad("unexpected-exception", f"stmt {i} {st}: raised {r[1]}, the same operation on str succeeds")
                ref.vars.append([])
                continue
            ln, chunks = o["snap"]
            if r[1] != len(ref.vars):
                # the result IS an earlier object (fixed_len does that): fine as long as the content is right;
                # later in-place changes are then shared, as observed
                src = ref.vars[r[1]]
                if want is not None and src != want:
                    bad("visible-text", f"stmt {i} {st}: result is the object of v{r[1]} showing {_show(src)!r}, expected {_show(want)!r}")
                ref.vars.append(src)
                continue
            if want is None:
                want = cchars_of_chunks(chunks)     # no demand on the content; still consistent below
            obj = list(want)
            ref.vars.append(obj)
            check_snap(i, st, obj, ln, chunks, "result")
            if k in ("make", "mkresize") and any(t == "" for _, t, _ in chunks):
                tainted.add(id(obj))
        elif k == "iadd":
            obj = ref.vars[st[1]]
            if r[0] != "ok":
                bad("unexpected-exception", f"stmt {i} {st}: raised {r[1]}")
                continue
            if r[1] != 1:
                bad("iadd-not-in-place", f"stmt {i} {st}: += returned another object")
                continue
            ref.extend(obj, st[2])
            check_snap(i, st, obj, o["snap"][0], o["snap"][1], "receiver after +=")
        elif k in ("fmt", "cfmt"):
            val = ref.vars[st[1]] if k == "fmt" else ref.chunk(st[1])
            spec = st[2]
            if not in_grammar(spec):
                continue
            plain = _show(val)
            try:
                want = format(plain, spec)
            except ValueError:
                continue
            if r[0] != "ok":
                bad("format-raises", f"stmt {i} {st}: format raised {r[1]}, format({plain!r}, {spec!r}) = {want!r}")
                continue
            n = len(plain)
            left = format("\x00" * n, spec).index("\x00") if n else 0
            body = o["str"]
            if n == 0 and SGR.sub("", body) == "":
                body_ok = SGR.sub("", r[1]) == want
            else:
                body_ok = r[1] == want[:left] + body + want[left + n:]
            if not body_ok:
                bad("format-visible", f"stmt {i} {st}: format gives {r[1]!r}, on the plain str {want!r}")
            if cchars_of_str(body, pal) != val:
                bad("colour", f"stmt {i} {st}: str() = {body!r} does not show {plain!r} in its colours")
        elif k == "eq":
            a = ref.vars[st[1]]
            p = st[2]
            dirty = id(a) in tainted
            if p[0] == "s":
                want = all(c == PLAIN for _, c in a) and _show(a) == p[1]
            elif p[0] == "c":
                want = a == ref.chunk(p[1:])
            elif p[0] in ("l", "t"):
                want = False                      # 'abc' == ['abc'] is False
            else:
                b = ref.vars[p[1]]
                want = a == b
                dirty = dirty or id(b) in tainted
            if r != [want, want] or o["ne"] != [not want, not want]:
                if dirty:
                    if STRICT_MAKE:
                        bad("make-empty-chunk", f"stmt {i} {st}: == gives {r}, expected {want}; an operand came from CHText.make with an empty chunk")
                else:
                    bad("equality", f"stmt {i} {st}: == gives {r} (!= gives {o['ne']}), texts {_show(a)!r}: same characters and colours = {want}")
        elif k == "ceq":
            # bare chunks: demanded only where a visible character or the default colour is involved
            a = ref.chunk(st[1])
            p = st[2]
            if p[0] == "s":
                if not a and tuple(pal[st[1][0]]) != PLAIN:
                    continue
                want = all(c == PLAIN for _, c in a) and _show(a) == p[1]
            else:
                b = ref.chunk(p[1:])
                if not a and not b:
                    continue
                want = a == b
            if r != [want, want] or o["ne"] != [not want, not want]:
                bad("equality", f"stmt {i} {st}: chunk == gives {r} (!= gives {o['ne']}), expected {want}")
        elif k in ("iter", "riter"):
            # walking over a text visits len(text) one-character texts, each in its own colour -- like the str
            val = ref.vars[st[1]]
            want = list(val) if k == "iter" else list(val)[::-1]
            what = f"stmt {i} {st}: iterating the text {_show(val)!r}"
            if r[0] != "ok":
                if r[1].startswith("ItemType:"):
                    bad("iteration", f"{what} yields {o.get('items')} of type {r[1][9:]}, expected {len(want)} one-character texts")
                else:
                    bad("iteration", f"{what} raised {r[1]}")
            elif len(r[1]) != len(want):
                bad("iteration", f"{what} yields {len(r[1])} items {[x['plain'] for x in r[1]]}, "
                                 f"iterating the str gives {len(want)}")
            else:
                for n, (x, w) in enumerate(zip(r[1], want)):
                    if (cchars_of_chunks(x["chunks"]) != [w] or x["len"] != 1 or x["plain"] != w[0]
                            or cchars_of_str(x["str"], pal) != [w]):
                        bad("iteration", f"{what}: item {n} is {x['str']!r} (len {x['len']}), expected the character "
                                         f"{w[0]!r} in colour {w[1]}")
                        break
            if k == "iter" and (o.get("bool") != (len(val) > 0) or o.get("n") != len(val)):
                bad("len", f"stmt {i} {st}: bool() = {o.get('bool')}, len() = {o.get('n')} for the text {_show(val)!r}")
        elif k == "in":
            # demanded where every reading of `x in text` agrees: one character in a given colour
            # (str.__contains__ is a substring test, CHText has none: longer operands carry no demand)
            val = ref.vars[st[1]]
            p = st[2]
            if p[0] not in ("s", "c", "v"):
                continue
            pv = ref.leaf_value(p)
            if len(pv) != 1:
                continue
            want = pv[0] in val
            if p[0] == "s" and not want and any(c == pv[0][0] for c, _ in val):
                continue                  # the character is there in another colour: no demand
            if r != ["ok", int(want)]:
                bad("contains", f"stmt {i} {st}: `in` gives {r}, the text {_show(val)!r} "
                                f"{'has' if want else 'has not'} that character in that colour")
        elif k == "citer":
            a = ref.chunk(st[1])
            want = a[::-1] if st[2] else a
            if r[0] != "ok":
                bad("iteration", f"stmt {i} {st}: iterating the chunk gives {r}")
            elif [cchars_of_chunks([x]) for x in r[1]] != [[w] for w in want]:
                bad("iteration", f"stmt {i} {st}: iterating the chunk yields {r[1]}, expected its {len(want)} characters "
                                 f"one by one in the chunk's colour")
        elif k in ("cindex", "cslice"):
            a = ref.chunk(st[1])
            try:
                want = [a[st[2]]] if k == "cindex" else a[st[2]:st[3]]
                werr = None
            except IndexError:
                want, werr = None, "IndexError"
            if werr:
                if r != ["err", werr]:
                    bad("wrong-exception", f"stmt {i} {st}: expected {werr}, got {r}")
                continue
            if r[0] != "ok":
                bad("unexpected-exception", f"stmt {i} {st}: raised {r[1]}")
                continue
            got = cchars_of_chunks([r[1]])
            if got != want or tuple(r[1][::2]) != tuple(pal[st[1][0]]):
                bad("visible-text" if _show(got) != _show(want) else "colour",
                    f"stmt {i} {st}: chunk gives {r[1]}, expected {_show(want)!r} in the same colour")
    # final state of every variable
    for j, (d, val) in enumerate(zip(obs["dump"], ref.vars)):
        got = cchars_of_chunks(d["chunks"])
        if got != val:
            sig = "visible-text" if _show(got) != _show(val) else "colour"
            bad(sig, f"v{j} ends as {_show(got)!r} {[c for _, c in got]}, the same operations on str give {_show(val)!r} {[c for _, c in val]}")
        if d["plain"] != _show(val):
            bad("visible-text", f"v{j}.plain_text() = {d['plain']!r}, expected {_show(val)!r}")
        if d["len"] != len(val):
            bad("len", f"len(v{j}) = {d['len']}, {len(val)} visible characters")
        if cchars_of_str(d["str"], pal) != val:
            bad("colour", f"str(v{j}) = {d['str']!r} does not show {_show(val)!r} in its colours")
        if d["eqref"] != [True, True]:
            if id(val) in tainted:
                if STRICT_MAKE:
                    bad("make-empty-chunk", f"v{j} (chunks {d['chunks']}) != the same characters assembled one by one")
            else:
                bad("equality", f"v{j} (chunks {d['chunks']}) != the same characters in the same colours assembled one by one")
    return out


def nontrivial(case, obs):
    if "__hang__" in obs:
        return True
    if any(len(d["chunks"]) >= 2 for d in obs["dump"]):
        return True
    nvar = 0
    for st, o in zip(case["prog"], obs["stmts"]):
        if o["r"][0] == "err":
            return True
        if st[0] in CREATING:
            if o["r"][1] != nvar:
                return True
            nvar += 1
    return False


def outcome(case, obs):
    if "__hang__" in obs:
        return "hang"
    errs = sorted({o["r"][1] for o in obs["stmts"] if o["r"][0] == "err"})
    return case.get("tag", "prog") + ":" + ("+".join(errs) if errs else "ok")


TECHNIQUE = ("Coq proofs (structural induction over chunk lists, operand trees and programs; refinement to plain lists "
             "of coloured characters) on a hand-written Gallina model with an object heap + per-run correspondence check "
             "(vm_compute vs implementation on random programs) + facts regenerated from the source + independent oracle")
LEVEL_TEXT = ("Full (about the model, unbounded): program_refines + inv_reachable -- for EVERY program over the modelled operations "
              "(constructor from nested lists/tuples, +, reflected +, += incl. t += t and t += [t, x, t], join, [i], [a:b] with "
              "None/negative/out-of-range bounds, fixed_len incl. its aliasing, make/resize without truncation, bare-chunk "
              "operations, == and != against CHText/chunk/str in both orders) the heap of CHText objects is canonical and equals, "
              "object by object, the heap of the same program on plain lists of coloured characters with Python's list "
              "operations, and every observation (result identity, IndexError, == and != results) coincides; eq_canonical, "
              "canonical_unique, eq_str, eq_chunk, len_visible, plain_text_visible, str_of_default_coloured; format_visible for "
              "ALL specs [[fill]align][width]['s'] without leading 0 (the odd hand parser is proved to decode the grammar); "
              "iadd_self_terminates (rests on the regenerated fact that __iadd__ copies the list); iter_refines: iterating a "
              "canonical text (forwards, reversed) gives exactly its characters one by one, each a canonical text of one "
              "character in its colour, and program_refines covers sep.join(text / chunk / str) = join over the characters, "
              "list(t), reversed(t), `x in t` = some character equals x.  "
              "Partial: make_canonical_partial (CHText.make is canonical only for non-empty chunks; make_empty_chunk_refuted and "
              "resize_truncate_refuted are witnesses of the failing rest, see notes); specs outside the grammar, negative "
              "fixed_len lengths, slice steps, non-str/chunk/CHText operands: correspondence-tested or not modelled.  "
              "Hypothesis of all refinement theorems: chunk suffix is a function of the prefix (ColorFmt).")
LEVEL_NOTE = ("Trusted: Coq kernel + vm_compute; fidelity of the hand model (checked by correspondence, not proved); "
              "PyStr.v restating Python slicing/int(); the ast extractor and harness.")
DESIGN_REF = "DESIGN.md section 8, C08"
