(* C10/Run.v -- entry point of the correspondence check: a case is a history
   (enum field type definitions + operations); the observation is the list of
   texts every operation produced.  The chunk program of an object is either the
   one the harness took from the implementation by a probe rendering, or, for
   pretty-printer values, [pp_obj fj v] computed by the layout model (Layout.v). *)
From Coq Require Import ZArith List.
From AK Require Export Common.Sx Common.Err C10.Sgr C10.Base gen.C10_Consts C10.Model C10.Layout C10.Titles.
Import ListNotations.

(* texts are compared by (length, polynomial hash modulo 2^61): a history prints
   tens of thousands of characters *)
Definition hash_text (t : list Z) : Z :=
  fold_left (fun h c => Z.land (h * 1000003 + c + 1) 2305843009213693951) t 7%Z.
Definition sx_text (t : list Z) : sx := SL [SZ (Z.of_nat (length t)); SZ (hash_text t)].

Inductive case := Case (fts : list (Z * ftdef)) (ops : list op).

Definition run (c : case) : sx :=
  match c with
  | Case fts ops =>
      sx_res (sx_list (sx_list sx_text))
             (match run_ops enum_key_is_object fts w0 ops with Ok wo => Ok (snd wo) | Err e => Err e end)
  end.
