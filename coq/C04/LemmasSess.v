(* C04/LemmasSess.v -- one parser object used several times on one text object that changes
   (C04/Session.v): the result of every call is the result for the contents the object has at
   the time of the call, whatever calls were made before; calls leave a str / a container of
   lines alone and use an iterator up; get_orig_text depends on the lines between the two
   positions of the element only, so an element returned for the old contents still delimits
   its characters after an edit further down. *)
From Coq Require Import ZArith List Bool Lia.
From AK Require Import Common.Err LLP.Base LLP.Parse LLP.Build gen.C04_Consts
  C04.Model C04.LemmasText C04.LemmasLex C04.LemmasConc C04.Session.
Import ListNotations.
Open Scope Z_scope.

(* ------------------------------------------------------------------ the state machine *)
Definition is_call (s : sstep) : bool :=
  match s with STok | SParse | SOrig _ => true | _ => false end.
Definition is_rebind (s : sstep) : bool := match s with SNew _ => true | _ => false end.
Definition not_iter (o : tobj) : Prop := match o with TIter _ => False | _ => True end.

(* the in-place edits among the steps *)
Definition edits_of (steps : list sstep) : list edit :=
  flat_map (fun s => match s with SEdit e => [e] | _ => [] end) steps.
Definition apply_edits (es : list edit) (ls : list line) : list line :=
  fold_left (fun l e => apply_edit e l) es ls.

Section Sess.
  Variable cfg : lexcfg.
  Variable skip : list sym.
  Variable p : parser.
  Variable fuel : nat.
  Variable seqs : list sym.

  Notation step := (step cfg skip p fuel seqs).
  Notation run_steps := (run_steps cfg skip p fuel seqs).
  Notation final_state := (final_state cfg skip p fuel seqs).

  Lemma orig_call_not_iter : forall o sps, not_iter o -> snd (orig_call o sps) = o.
  Proof. intros [s|ls|ls] sps H; cbn in *; [reflexivity|reflexivity|contradiction]. Qed.

  (* a call leaves a str / a container of lines as it is *)
  Lemma call_keeps_object : forall st s, is_call s = true -> not_iter (s_obj st) ->
    s_obj (snd (step st s)) = s_obj st.
  Proof.
    intros st s C N. destruct s; try discriminate; cbn [Session.step snd s_obj].
    - destruct (s_obj st); cbn in *; try reflexivity; contradiction.
    - destruct (s_obj st); cbn in *; try reflexivity; contradiction.
    - destruct (nth_error (s_spans st) k) as [sps|]; [|reflexivity].
      pose proof (orig_call_not_iter (s_obj st) sps N) as E.
      destruct (orig_call (s_obj st) sps) as [txs o']. cbn in *. exact E.
  Qed.

  (* a complete pass uses an iterator up: nothing is left for the next call, except after a
     LexicalError for an unmatched character (the lines behind that line are left) *)
  Lemma tok_consumes_iterator : forall spans ls,
    s_obj (snd (step (mkSt (TIter ls) spans) STok)) =
    TIter (match tok_call cfg (TIter ls) with LErr ps _ false => skipn (Z.to_nat (fst ps)) ls | _ => [] end).
  Proof. intros. reflexivity. Qed.

  Lemma parse_consumes_iterator : forall spans ls,
    s_obj (snd (step (mkSt (TIter ls) spans) SParse)) =
    TIter (match tok_call cfg (TIter ls) with LErr ps _ false => skipn (Z.to_nat (fst ps)) ls | _ => [] end).
  Proof.
    intros. cbn [Session.step snd s_obj after_call]. f_equal. unfold parse_call.
    destruct (tok_call cfg (TIter ls)) as [toks|ps t [|]|]; reflexivity.
  Qed.

  (* the results of a session: what the steps before give, then what step s gives in the state
     reached, then the rest -- a result depends on the state reached, i.e. (below) on the
     present contents of the object and on nothing else *)
  Lemma run_steps_app : forall steps1 steps2 st,
    run_steps st (steps1 ++ steps2) = run_steps st steps1 ++ run_steps (final_state st steps1) steps2.
  Proof.
    induction steps1 as [|s r IH]; intros steps2 st; [reflexivity|].
    cbn [app Session.run_steps Session.final_state].
    destruct (step st s) as [[c|] st'] eqn:E; cbn [snd]; rewrite IH; reflexivity.
  Qed.

  Lemma final_state_app : forall steps1 steps2 st,
    final_state st (steps1 ++ steps2) = final_state (final_state st steps1) steps2.
  Proof. induction steps1 as [|s r IH]; intros; [reflexivity|]. cbn [app Session.final_state]. apply IH. Qed.

  (* a container of lines that is never re-bound: after any steps -- calls of any kind in any
     number -- its contents are what the edits made of it *)
  Lemma lines_after_steps : forall steps ls spans, forallb (fun s => negb (is_rebind s)) steps = true ->
    s_obj (final_state (mkSt (TLines ls) spans) steps) = TLines (apply_edits (edits_of steps) ls).
  Proof.
    induction steps as [|s r IH]; intros ls spans H; [reflexivity|].
    cbn [forallb] in H. apply andb_true_iff in H. destruct H as [Hs Hr].
    cbn [Session.final_state].
    assert (E : exists spans', snd (step (mkSt (TLines ls) spans) s) =
                               mkSt (TLines (apply_edits (edits_of [s]) ls)) spans').
    { destruct s; try discriminate; cbn [Session.step snd s_obj s_spans edits_of flat_map app apply_edits fold_left edit_obj after_call];
        try (eexists; reflexivity).
      destruct (nth_error spans k) as [sps|]; [|eexists; reflexivity].
      cbn [orig_call obj_input]. eexists; reflexivity. }
    destruct E as [spans' E]. rewrite E, (IH _ _ Hr).
    unfold edits_of, apply_edits. cbn [flat_map]. rewrite fold_left_app.
    destruct s; reflexivity.
  Qed.

  (* ... hence the tokens a tokenize call gives at ANY moment of such a session are the tokens of
     the contents of that moment, and so is the tree of a parse call *)
  Lemma tok_after_steps : forall steps ls spans, forallb (fun s => negb (is_rebind s)) steps = true ->
    let cur := apply_edits (edits_of steps) ls in
    fst (step (final_state (mkSt (TLines ls) spans) steps) STok) = Some (RTok cur (cfg_tokenize cfg cur)).
  Proof.
    intros steps ls spans H cur. cbn [Session.step fst]. rewrite (lines_after_steps _ _ _ H). reflexivity.
  Qed.

  Lemma parse_after_steps : forall steps ls spans, forallb (fun s => negb (is_rebind s)) steps = true ->
    let cur := apply_edits (edits_of steps) ls in
    fst (step (final_state (mkSt (TLines ls) spans) steps) SParse) = Some (RParse cur (parse_call cfg skip p fuel seqs (TLines cur))).
  Proof.
    intros steps ls spans H cur. cbn [Session.step fst]. rewrite (lines_after_steps _ _ _ H). reflexivity.
  Qed.

  (* a str (any object, in fact) that was just bound: the call works on it *)
  Lemma tok_after_rebind : forall st o,
    fst (step (snd (step st (SNew o))) STok) = Some (RTok (orig_lines (obj_input o)) (cfg_tokenize cfg (tok_lines (obj_input o)))).
  Proof. reflexivity. Qed.
End Sess.

(* ------------------------------------------------------------------ get_orig_text is local *)
Lemma slice_lines_local : forall n k (a b : list line),
  (forall i, (k <= i < k + n)%nat -> nth_error a i = nth_error b i) ->
  (k + n <= length a)%nat -> (k + n <= length b)%nat ->
  firstn n (skipn k a) = firstn n (skipn k b).
Proof.
  induction n as [|n IH]; intros k a b H La Lb; [reflexivity|].
  assert (Ea : exists x ra, skipn k a = x :: ra /\ nth_error a k = Some x /\ skipn (S k) a = ra).
  { clear - La. revert a La. induction k as [|k IHk]; intros a La.
    - destruct a as [|x ra]; [cbn in La; lia|]. exists x, ra. repeat split.
    - destruct a as [|y a]; [cbn in La; lia|]. cbn [length] in La.
      destruct (IHk a ltac:(lia)) as [x [ra [A [B C]]]]. exists x, ra. repeat split; auto. }
  assert (Eb : exists x ra, skipn k b = x :: ra /\ nth_error b k = Some x /\ skipn (S k) b = ra).
  { clear - Lb. revert b Lb. induction k as [|k IHk]; intros b Lb.
    - destruct b as [|x ra]; [cbn in Lb; lia|]. exists x, ra. repeat split.
    - destruct b as [|y b]; [cbn in Lb; lia|]. cbn [length] in Lb.
      destruct (IHk b ltac:(lia)) as [x [ra [A [B C]]]]. exists x, ra. repeat split; auto. }
  destruct Ea as [x [ra [A1 [A2 A3]]]]. destruct Eb as [y [rb [B1 [B2 B3]]]].
  rewrite A1, B1. cbn [firstn].
  assert (x = y) by (specialize (H k ltac:(lia)); congruence). subst y. f_equal.
  rewrite <- A3, <- B3. apply IH; [intros i Hi; apply H; lia|lia|lia].
Qed.

Lemma nth_of_nth_error : forall (a b : list line) i, nth_error a i = nth_error b i -> nth i a [] = nth i b [].
Proof.
  intros a b i H. destruct (nth_error a i) as [x|] eqn:A.
  - symmetry in H. rewrite (nth_error_nth _ _ _ A), (nth_error_nth _ _ _ H). reflexivity.
  - symmetry in H. apply nth_error_None in A. apply nth_error_None in H.
    rewrite (nth_overflow _ _ A), (nth_overflow _ _ H). reflexivity.
Qed.

Lemma length_leb_of_nth_error : forall (a b : list line) i, nth_error a i = nth_error b i ->
  (length a <=? i)%nat = (length b <=? i)%nat.
Proof.
  intros a b i H. destruct (Nat.leb_spec (length a) i) as [A|A]; destruct (Nat.leb_spec (length b) i) as [B|B]; auto.
  - apply nth_error_None in A. rewrite A in H. symmetry in H. apply nth_error_None in H. lia.
  - apply nth_error_None in B. rewrite B in H. apply nth_error_None in H. lia.
Qed.

(* get_orig_text looks at the lines from the element's start line to its end line, at nothing else
   of the text it is given *)
Lemma get_orig_text_local : forall (a b : list line) sp,
  (forall i, (Z.to_nat (fst (fst sp) - 1) <= i <= Z.to_nat (fst (snd sp) - 1))%nat -> nth_error a i = nth_error b i) ->
  get_orig_text a sp = get_orig_text b sp.
Proof.
  intros a b [[l0 c0] [l1 c1]] H. unfold get_orig_text. cbn [fst snd] in *.
  destruct (pos_leb (l0, c0) (l1, c1)) eqn:PL; cbn [negb]; [|reflexivity].
  destruct ((l0 - 1 <? 0) || (c0 - 1 <? 0) || (l1 - 1 <? 0) || (c1 - 1 <? 0)) eqn:NEG; [reflexivity|].
  apply orb_false_iff in NEG. destruct NEG as [NEG N4]. apply orb_false_iff in NEG. destruct NEG as [NEG N3].
  apply orb_false_iff in NEG. destruct NEG as [N1 N2].
  apply Z.ltb_ge in N1, N2, N3, N4.
  assert (LE : (Z.to_nat (l0 - 1) <= Z.to_nat (l1 - 1))%nat).
  { unfold pos_leb in PL. cbn [fst snd] in PL. apply orb_true_iff in PL. destruct PL as [PL|PL].
    - apply Z.ltb_lt in PL. lia.
    - apply andb_true_iff in PL. destruct PL as [PL _]. apply Z.eqb_eq in PL. lia. }
  set (sl := Z.to_nat (l0 - 1)) in *. set (el := Z.to_nat (l1 - 1)) in *.
  assert (Hel : nth_error a el = nth_error b el) by (apply H; lia).
  assert (Hsl : nth_error a sl = nth_error b sl) by (apply H; lia).
  rewrite (length_leb_of_nth_error a b el Hel).
  destruct (Nat.leb_spec (length b) el) as [LB|LB]; [reflexivity|].
  assert (LA : (el < length a)%nat).
  { destruct (Nat.leb_spec (length a) el) as [A|A]; [|exact A].
    apply nth_error_None in A. rewrite A in Hel. symmetry in Hel. apply nth_error_None in Hel. lia. }
  rewrite (nth_of_nth_error a b el Hel), (nth_of_nth_error a b sl Hsl).
  destruct (sl =? el)%nat; [reflexivity|].
  destruct (length (nth sl b []) <? Z.to_nat (c0 - 1))%nat; [reflexivity|].
  destruct (length (nth el b []) <? Z.to_nat (c1 - 1))%nat; [reflexivity|].
  do 3 f_equal. f_equal. destruct (Nat.eq_dec sl el) as [E|NE].
  - rewrite E. replace (el - el - 1)%nat with 0%nat by lia. reflexivity.
  - apply slice_lines_local; [intros i Hi; apply H; lia|lia|lia].
Qed.

(* the line an edit touches first; the lines above it stay *)
Definition edit_index (e : edit) : option nat :=
  match e with ESet i _ => Some i | EIns i _ => Some i | EDel i => Some i | EFill _ => None end.

Lemma nth_error_firstn_lt : forall (ls : list line) i j, (j < i)%nat -> nth_error (firstn i ls) j = nth_error ls j.
Proof.
  induction ls as [|x ls IH]; intros i j L.
  - rewrite firstn_nil. reflexivity.
  - destruct i as [|i]; [lia|]. destruct j as [|j]; cbn [firstn nth_error]; [reflexivity|]. apply IH. lia.
Qed.

Lemma edit_keeps_lines_above : forall e i ls j, edit_index e = Some i -> (j < i)%nat -> (j < length ls)%nat ->
  nth_error (apply_edit e ls) j = nth_error ls j.
Proof.
  intros e i ls j E L B.
  assert (F : forall tl, nth_error (firstn i ls ++ tl) j = nth_error ls j).
  { intros tl. rewrite nth_error_app1; [apply nth_error_firstn_lt; exact L|]. rewrite firstn_length. lia. }
  destruct e as [i' l|i' l|i'|new]; cbn [edit_index] in E; inversion E; subst i'; cbn [apply_edit].
  - destruct (i <? length ls)%nat; [apply F|reflexivity].
  - apply F.
  - apply F.
Qed.

(* an element (token or node) that ends above the edited line: the text get_orig_text gives for
   it in the edited buffer is the text it gave in the old one *)
Lemma edit_below_keeps_text : forall e i ls sp, edit_index e = Some i ->
  (Z.to_nat (fst (snd sp) - 1) < i)%nat -> (Z.to_nat (fst (snd sp) - 1) < length ls)%nat ->
  get_orig_text (apply_edit e ls) sp = get_orig_text ls sp.
Proof.
  intros e i ls sp E L B. apply get_orig_text_local. intros j Hj.
  apply (edit_keeps_lines_above e i); [exact E|lia|lia].
Qed.

Lemma nth_error_skipn_add : forall (ls : list line) k d, nth_error (skipn k ls) d = nth_error ls (k + d).
Proof.
  induction ls as [|x ls IH]; intros k d.
  - rewrite skipn_nil. destruct d, (k + _)%nat; reflexivity.
  - destruct k as [|k]; [reflexivity|]. cbn [skipn Nat.add nth_error]. apply IH.
Qed.

(* replacing a line outside the element's lines does not change its text either *)
Lemma set_outside_keeps_text : forall i l ls sp,
  (i < Z.to_nat (fst (fst sp) - 1) \/ Z.to_nat (fst (snd sp) - 1) < i)%nat ->
  get_orig_text (apply_edit (ESet i l) ls) sp = get_orig_text ls sp.
Proof.
  intros i l ls sp O. apply get_orig_text_local. intros j Hj. cbn [apply_edit].
  destruct (Nat.ltb_spec i (length ls)) as [B|B]; [|reflexivity].
  destruct (Nat.lt_ge_cases j i) as [A|A].
  - rewrite nth_error_app1; [apply nth_error_firstn_lt; exact A|]. rewrite firstn_length. lia.
  - assert (j > i)%nat by lia.
    rewrite nth_error_app2; rewrite firstn_length; [|lia].
    replace (Init.Nat.min i (length ls)) with i by lia.
    destruct (j - i)%nat as [|d] eqn:D; [lia|]. cbn [nth_error].
    rewrite nth_error_skipn_add. f_equal. lia.
Qed.
