"""C01  Every parse result is a valid derivation of the user's grammar (ak/llparser.py)"""
import json
import random
import re

from harness.lib import sx as SX
from harness.props import llp_common as L

ID = "C01"
COQ_DIR = "C01"
EXTRA_COQ_DIRS = ["LLP"]
RUN_MOD = "C01.RunTok"        # extends C01.Run (shared with C02/C03) by sessions and texts
MODEL_TARGETS = ["C01/Run.vo", "C01/RunTok.vo"]
PROOF_TARGETS = ["C01/Basics.vo", "C01/Lemmas.vo", "C01/LemmasFact.vo", "C01/LemmasTable.vo", "C01/FactList.vo", "C01/FactExp.vo",
                 "C01/FactProps.vo", "C01/FactAll.vo", "C01/FactSmart1.vo", "C01/FactSmart2.vo", "C01/FactSmart3.vo", "C01/FactSmart4.vo",
                 "C01/FactFuel.vo", "C01/LemmasTop.vo", "C01/LemmasTok.vo", "C01/LemmasArgs.vo"]
PROPS = ["C01/Props.v", "C01/PropsTok.v", "C01/PropsArgs.v"]
ALLOWED_AXIOMS = []
IMPL_TIMEOUT = 20.0
COQ_SHARD = 40
RULE = ("random grammars (2-6 non-terminals with permuted names, 2-5 terminals, 1-4 ordered alternatives of length 0-4; "
        "forced shapes: common prefixes, nested common prefixes, an alternative that is a prefix of another, empty "
        "alternatives, some left recursion; for half of them additionally an alternative sharing its first symbols with a "
        "NON-adjacent one (not factorized: several table entries, roll-back after children were collected), a further member "
        "of a common-prefix group, a proper prefix of a factorized alternative; every 8th grammar has a symbol whose "
        "alternatives share ever shorter prefixes, 3-6 levels of nested suffix symbols), both smart_factorization values; per grammar "
        "up to 12 inputs: sampled sentences, sentences with one token inserted/deleted/replaced, random token strings; token "
        "values differ from token names.  Compared: constructor outcome, is_ambiguous, the tree (names, values) or error class "
        "of every input, the validator verdict on prods_map/_suffix_symbols, and for every 10th case (thorough: all) prods_map "
        "and _suffix_symbols themselves.  Non-trivial = distinct (grammar, inputs) whose constructor succeeds, whose grammar has "
        "a common-prefix group or an empty alternative, and at least one input parses to a tree.  "
        "SESSIONS (one impl_run = one parser object used for a sequence of parse() calls): (a) text sessions: a random tokenizer "
        "configuration in the pattern language of coq/C04/Model.v (white space group SPACE / WS renamed to SPACE / WS not renamed; "
        "two word groups both / one / none renamed to WORD by synonyms; numbers DIG renamed to NUM or not; double / single quoted "
        "strings renamed to STRING or not; one-character literals renamed to themselves or not; keywords keyed by renamed and by "
        "non-renamed token names, on words, numbers, strings and on a literal; decoy keyword entries keyed by a pattern group name "
        "that is renamed, or put on a span token, which never apply; end-of-line comments and /* */ span comments renamed to COMMENT "
        "or not; skip_tokens default / explicit default / plus a substantive class or keyword token / without COMMENT / without the "
        "white space class / naming a group that is no token (GrammarError); shuffled pattern order), a grammar over the FINAL "
        "token names (30%: any token sequence is a sentence, so every tokenisation defect shows in a tree; else a random grammar of "
        "the distribution above with keywords and their base classes preferred as terminals), texts rendered from a KNOWN token "
        "sequence (sentences, broken sentences, and sentences in which a keyword is put where the grammar has its base token and "
        "vice versa) with separators chosen among blanks, tabs, newlines, no separator where the lexemes allow it, skipped comments; "
        "a foreign character in 4% of the texts; the expected non-skipped tokens of every text come from the generator, never from "
        "the library's tokenizer; (b) plain sessions with the token-list tokenizer.  In both: every text parsed once, then repeated "
        "and re-ordered calls, calls with start_symbol_name (user symbols incl. sentences sampled from that symbol; rarely a "
        "terminal, an unknown name, a helper name X__S00), and for half of the sessions a second parser built from the SAME "
        "productions / synonyms / keywords objects (other smart_factorization value and/or start symbol) running a subset of the "
        "calls.  Compared in Coq with the model (C01/RunTok.v): constructor outcome, is_ambiguous (asked before and again after the calls), validator verdict, the model "
        "tokenizer's non-skipped tokens of every text against the generator's, the tree or error class of every call, the same "
        "for the second parser.  Non-trivial session = some call returns a tree and there are repeated calls.  "
        "LINE ENDS / ODD CHARACTERS (text sessions): besides the fixed lexemes every class whose pattern admits any character "
        "(double / single quoted strings, end-of-line comments, the bodies of span comments -- also when the comment class is not "
        "skipped --, and a rest-of-line class REST (=... / :... / !..., renamed to TEXT or not, with a keyword or not, never skipped "
        "by default)) gets 1-4 generated lexemes containing the characters at which str.splitlines() cuts but split('\\n') does not "
        "(VT, FF, FS, GS, RS, NEL, U+2028, U+2029, a lone CR), other white space (US, NBSP, U+3000, TAB), non-space oddities "
        "(U+200B, U+FEFF, DEL, backslash); lexemes that end a line may carry trailing white space of any of these kinds (stripped by "
        "the tokenizer: the generator's value is the lexeme without it); span bodies over 1-3 lines with such characters before the "
        "newline; separators between tokens include FF, CR LF, a lone CR, U+2028, GS+NEL; when white space is NOT skipped it is a "
        "token made of these characters between two tokens and at the start of a line (also of the text) and no token at the end of "
        "a line; 5% of the texts end in an unclosed span or contain a foreign character (expected: LexicalError).  "
        "ARGUMENT OBJECTS (70% of the sessions): all mutable constructor arguments (productions dict and its lists, synonyms, "
        "keywords, span_matchers, skip_tokens as set / list / tuple / frozenset -- for plain sessions an explicit {'SPACE'} --, "
        "keep_symbols as a set) are made once, kept, compared with a structural snapshot after every constructor and parse call "
        "(the library must not modify them), and after the calls of the first and second parser the CALLER changes them in place: "
        "token names that occur in the texts are added to the skip container / a name is removed from it, keep_symbols grows, "
        "span_matchers is emptied; then (75%) a THIRD parser is made from the objects as they are now (other skip set: the three "
        "parsers live together) and used; then a production is appended / popped / the list reversed / emptied / a symbol added / "
        "deleted in the productions dict, keyword entries are set (an occurring (class, value) -> a terminal of the grammar or a new "
        "name) / deleted, a synonym is set / deleted; then every text is parsed again by the first parser (plus earlier calls with "
        "a start symbol) and subsets by the second and third.  Expected (model: a parser is a value; oracle: the tokens and the "
        "skip set of the configuration each parser was made from): the same answers as before.")
TRUSTED_BASE = [
    "plain cases / plain sessions: the model's parse receives the generator's token list (names, values, $END$ last and only "
    "there) while the implementation tokenises the rendered text; text sessions: the model tokenises the text itself with the "
    "tokenizer model of coq/C04/Model.v (patterns restricted to its pattern language: literal, character range+, \\s+, "
    "literal.* , quoted; span body up to the first closer) and its result is compared with the generator's tokens",
    "re (CPython): pattern.match(line, col) returns the first alternative that matches at col (as in C04); gen/C04_Consts.v "
    "(white space table, default skip list, $END$ name, line_start_reset) is regenerated by harness/props/c04.py:gen_consts",
    "GrammarError checks of _verify_grammar_structure_part1 (unknown symbols etc.) are outside the model; generated grammars "
    "never trigger them and the theorems do not need them (an unknown symbol only makes parses fail)",
    "python -O would switch off the constructor's name assertions that the model treats as rejections",
    "gen/C01_Consts.v (syn_aliased, kw_aliased): read from the AST of _Tokenizer.__init__ (the two assignments of self.synonyms / "
    "self.keywords: the argument itself / arg or {} = alias; dict(...) / {**...} / .copy() = copy; anything else, or another "
    "assignment of these attributes anywhere in _Tokenizer / LLParser, fails closed) and of the _Tokenizer(...) call in "
    "LLParser.__init__; the in-place changes of the argument objects are applied by the harness with plain dict / list / set methods",
]
ASSUMPTIONS = ["grammars use plain productions (templates are C05's subject)",
               "parse_text_sound: no literal / end-of-line pattern is empty (lexicon_ok), $END$ is not a token name of the "
               "configuration (a per-call start symbol with '__' is rejected by parse itself since /repo 2909322)",
               "texts are str (lists of lines are C04's subject)"]
MODELLED = ("ak/llparser.py: LLParser.__init__ name assertions, _create_productions (plain), _factorize_productions and helpers "
            "incl. the smart undo and their assertions, _get_nullables, _calc_first_sets, _calc_follow_sets, _make_llone_table, "
            "_verify_grammar_structure_part2, the main loop of parse incl. suffix splicing and roll-back (coq/LLP/*.v); "
            "parse() on a text: the start_symbol_name assertion 1639-1643, _Tokenizer.tokenize 240-334 incl. synonyms and keywords "
            "(coq/C04/Model.v), get_all_token_names, the default / explicit skip_tokens of the constructor 1574-1587 and the "
            "filter 1646-1649 (coq/C01/RunTok.v build_cfg, parse_text); _Tokenizer.__init__ 228-229 (copies of the synonyms / "
            "keywords dicts: constants syn_aliased / kw_aliased + RunTok.v cfg_after)")


_DICT_MODE = {}     # repo path -> (syn_aliased, kw_aliased), filled by gen_consts / _dict_mode


def _stored_as(expr, arg):
    """how  self.<arg> = <expr>  of _Tokenizer.__init__ stores the caller's dict: 'alias' (the object itself when it is
    non-empty:  arg  /  arg or {}), 'copy' (dict(arg or {}) / dict(arg) ... / {**arg} / arg.copy()), None = not recognised"""
    import ast

    def is_arg(e):
        return isinstance(e, ast.Name) and e.id == arg

    def is_empty_dict(e):
        return (isinstance(e, ast.Dict) and not e.keys) or \
            (isinstance(e, ast.Call) and isinstance(e.func, ast.Name) and e.func.id == "dict" and not e.args and not e.keywords)

    def arg_or_empty(e):
        return is_arg(e) or (isinstance(e, ast.BoolOp) and isinstance(e.op, ast.Or) and len(e.values) == 2
                             and is_arg(e.values[0]) and is_empty_dict(e.values[1]))

    if arg_or_empty(expr):
        return "alias"
    if isinstance(expr, ast.Call) and isinstance(expr.func, ast.Name) and expr.func.id == "dict" and len(expr.args) == 1 \
            and not expr.keywords and arg_or_empty(expr.args[0]):
        return "copy"
    if isinstance(expr, ast.Call) and isinstance(expr.func, ast.Attribute) and expr.func.attr == "copy" and not expr.args \
            and not expr.keywords and isinstance(expr.func.value, ast.BoolOp) and arg_or_empty(expr.func.value):
        return "copy"
    if isinstance(expr, ast.Dict) and expr.keys == [None] and len(expr.values) == 1 and arg_or_empty(expr.values[0]):
        return "copy"
    if isinstance(expr, ast.IfExp) and is_empty_dict(expr.orelse):
        # dict(arg) if arg else {}   /   arg if arg else {}
        inner = _stored_as(expr.body, arg)
        if inner and (is_arg(expr.test) or (isinstance(expr.test, ast.Compare) and is_arg(expr.test.left))):
            return inner
    return None


def _dict_mode(repo):
    """(syn_aliased, kw_aliased): does _Tokenizer.__init__ keep the caller's synonyms / keywords dict object (today's code:
    self.synonyms = synonyms or {}) or a copy of it.  Read from the source, fail closed; tokenize must read self.synonyms /
    self.keywords and nothing else may assign them."""
    import ast
    import os
    if repo in _DICT_MODE:
        return _DICT_MODE[repo]
    from harness.props import c04
    src = open(os.path.join(repo, "ak", "llparser.py")).read()
    tree = ast.parse(src)
    tk = c04._cls(tree, "_Tokenizer")
    init = c04._meth(tk, "__init__")
    found = {}
    for cls_node in ast.walk(tree):
        if not isinstance(cls_node, ast.ClassDef):
            continue
        for fn in ast.walk(cls_node):
            if not isinstance(fn, (ast.FunctionDef, ast.AsyncFunctionDef)):
                continue
            for n in ast.walk(fn):
                targets = n.targets if isinstance(n, ast.Assign) else [n.target] if isinstance(n, (ast.AugAssign, ast.AnnAssign)) else []
                for t in targets:
                    for t1 in ast.walk(t):
                        if isinstance(t1, ast.Attribute) and t1.attr in ("synonyms", "keywords") and cls_node.name in ("_Tokenizer", "LLParser"):
                            if not (cls_node is tk and fn is init and isinstance(n, ast.Assign) and len(n.targets) == 1 and t1 is n.targets[0]
                                    and isinstance(t1.value, ast.Name) and t1.value.id == "self") or t1.attr in found:
                                raise c04.ExtractError(f"{cls_node.name}.{fn.name}: unexpected assignment to .{t1.attr}")
                            mode = _stored_as(n.value, t1.attr)
                            if mode is None:
                                raise c04.ExtractError(f"_Tokenizer.__init__: self.{t1.attr} = {ast.unparse(n.value)} not recognised")
                            found[t1.attr] = mode
    if set(found) != {"synonyms", "keywords"}:
        raise c04.ExtractError("_Tokenizer.__init__: assignments of self.synonyms / self.keywords not found")
    # LLParser.__init__ hands its own arguments to the tokenizer: as they are, or copies
    lp_init = c04._meth(c04._cls(tree, "LLParser"), "__init__")
    passed = {}
    for n in ast.walk(lp_init):
        if isinstance(n, ast.Call) and isinstance(n.func, ast.Name) and n.func.id == "_Tokenizer":
            for k in n.keywords:
                if k.arg in ("synonyms", "keywords"):
                    if k.arg in passed:
                        raise c04.ExtractError("LLParser.__init__: several _Tokenizer(...) calls")
                    mode = _stored_as(k.value, k.arg)
                    if mode is None:
                        raise c04.ExtractError(f"LLParser.__init__: _Tokenizer(..., {k.arg}={ast.unparse(k.value)}) not recognised")
                    passed[k.arg] = mode
    if set(passed) != {"synonyms", "keywords"}:
        raise c04.ExtractError("LLParser.__init__: the _Tokenizer(...) call with synonyms= and keywords= not found")
    res = (found["synonyms"] == "alias" and passed["synonyms"] == "alias",
           found["keywords"] == "alias" and passed["keywords"] == "alias")
    _DICT_MODE[repo] = res
    return res


def _mode():
    from harness.lib import implrun
    return _dict_mode(implrun.REPO)


def gen_consts(repo):
    """coq/C01/RunTok.v and the end-to-end theorems import the tokenizer model coq/C04/Model.v, which needs the constants
    read from the current source by C04's extractor (fail closed there); gen/C01_Consts.v: whether the tokenizer keeps the
    caller's synonyms / keywords dict objects or copies of them"""
    from harness.props import c04
    out = dict(c04.gen_consts(repo))
    syn_a, kw_a = _dict_mode(repo)
    out["C01_Consts"] = ("(* generated from ak/llparser.py by harness/props/c01.py -- do not edit *)\n"
                         "(* _Tokenizer.__init__ stores the caller's synonyms / keywords dict itself (true) or a copy (false) *)\n"
                         f"Definition syn_aliased : bool := {SX.cbool(syn_a)}.\n"
                         f"Definition kw_aliased : bool := {SX.cbool(kw_a)}.\n")
    return out


def _mutate_for_c01(rng, g):
    """extra shapes on top of L.gen_grammar: an alternative sharing its first symbols with a NON-adjacent
    earlier one (not factorized -> the table offers several productions -> roll-back after children were
    collected), an alternative that is a proper prefix of / equal to a factorized one (nullable remainder),
    a third member for an existing common-prefix group (nested groups)"""
    prods = [[nt, [list(a) for a in alts]] for nt, alts in g["prods"]]
    for _ in range(rng.randint(0, 2)):
        nt, alts = rng.choice(prods)
        cands = [a for a in alts if a]
        if not cands or len(alts) >= 6:
            continue
        src = rng.choice(cands)
        k = rng.randint(1, len(src))
        tail = [rng.choice(g["terms"]) for _ in range(rng.randint(0, 2))]
        new = src[:k] + tail
        r = rng.random()
        if r < 0.45:
            # non-adjacent: put it at the far end, behind an alternative with a different first symbol
            if alts[-1] and alts[-1][0] == new[0]:
                alts.append([rng.choice(g["terms"])])
            alts.append(new)
        elif r < 0.8:
            # adjacent: joins (or creates) a common-prefix group, possibly nested
            alts.insert(alts.index(src) + 1, new)
        else:
            alts.insert(alts.index(src), src[:k])
    g2 = dict(g)
    g2["prods"] = prods
    return g2


def _gen_deep_prefix(rng):
    """a symbol whose alternatives share ever shorter prefixes (x1..xn y | x1..x(n-1) y' | ... | x1 y''): n levels of nested
    suffix symbols (S__S00__S00__S00...), with empty / nullable remainders mixed in; one or two further symbols"""
    n_t = rng.randint(3, 5)
    terms = list(L.T_NAMES[:n_t])
    nts = rng.sample(["S", "B", "C", "Q_R", "ZA"], rng.randint(2, 3))
    top, others = nts[0], nts[1:]
    prods = {}
    for o in others:
        alts = [[rng.choice(terms) for _ in range(rng.randint(1, 2))]]
        if rng.random() < 0.5:
            alts.append([])
        rng.shuffle(alts)
        prods[o] = alts
    depth = rng.randint(3, 6)
    spine = [rng.choice(terms + others) if i else rng.choice(terms) for i in range(depth)]
    alts = []
    for d in range(depth, 0, -1):
        r = rng.random()
        if r < 0.2:
            tail = []                                  # a proper prefix of the previous alternative
        elif r < 0.8:
            tail = [rng.choice([t for t in terms if d == depth or t != spine[d]] or terms)]
        else:
            tail = [rng.choice(others), rng.choice(terms)]
        alt = spine[:d] + tail
        if alt not in alts:
            alts.append(alt)
        if rng.random() < 0.3:                         # a sibling on the same level
            alt2 = spine[:d] + [rng.choice(terms), rng.choice(terms)]
            if alt2 not in alts:
                alts.append(alt2)
    if rng.random() < 0.5:
        alts.append([rng.choice(terms)])
    prods[top] = alts
    return {"nts": nts, "terms": terms, "prods": [[nt, [list(a) for a in prods[nt]]] for nt in nts],
            "start": top, "smart": rng.random() < 0.5}


def _gen_sentence(rng, g, max_depth=7, max_len=10, budget=3000):
    """llp_common.gen_sentence with a bound on the number of expansions: for grammars with several nullable symbols per
    alternative the unbounded recursion (depth up to 28, nothing appended) takes minutes; when the budget is used up the
    shortest alternatives are taken and, at last, the expansion stops (the sentence is then a broken one: fine, inputs of
    every kind are wanted)"""
    prods = dict((nt, alts) for nt, alts in g["prods"])
    out = []
    left = [budget]

    def expand(sym, depth):
        if len(out) > max_len or depth > 4 * max_depth or left[0] < -budget:
            return
        if sym not in prods:
            out.append(sym)
            return
        left[0] -= 1
        alts = prods[sym]
        if depth > max_depth or left[0] < 0:
            alts = sorted(alts, key=len)[:1]
        for x in rng.choice(alts):
            expand(x, depth + 1)
    expand(g["start"], 0)
    return out[:max_len]


def _gen_inputs(rng, g, n):
    """llp_common.gen_inputs over the bounded sentence generator"""
    terms = g["terms"]
    res = []
    for _ in range(n):
        r = rng.random()
        if r < 0.55:
            x = _gen_sentence(rng, g)
        elif r < 0.8:
            x = _gen_sentence(rng, g)
            if x and rng.random() < 0.5:
                x[rng.randrange(len(x))] = rng.choice(terms)
            elif x and rng.random() < 0.5:
                del x[rng.randrange(len(x))]
            else:
                x.insert(rng.randint(0, len(x)), rng.choice(terms))
        else:
            x = [rng.choice(terms) for _ in range(rng.randint(0, 6))]
        res.append([[t, t + (str(rng.randint(0, 99)) if rng.random() < 0.4 else "")] for t in x])
    seen, out = set(), []
    for x in res:
        k = tuple(map(tuple, x))
        if k not in seen:
            seen.add(k)
            out.append(x)
    return out


def gen_cases(rng, tier):
    n = 4000 if tier == "thorough" else 220
    cases = []
    for i in range(n):
        if i % 8 == 3:
            g = _gen_deep_prefix(rng)
        else:
            g = L.gen_grammar(rng, allow_leftrec=0.08)
            if rng.random() < 0.5:
                g = _mutate_for_c01(rng, g)
        c = {"g": g, "inputs": _gen_inputs(rng, g, 12)}
        if tier == "thorough" or i % 10 == 0:
            c["diag"] = True      # also compare prods_map / _suffix_symbols themselves
        cases.append(c)
    n_tok, n_plain = (1000, 500) if tier == "thorough" else (90, 40)
    for i in range(n_tok):
        cases.append(_gen_tok_session(rng))
    for i in range(n_plain):
        cases.append(_gen_plain_session(rng, i))
    return cases


def search_cases(rng, tier):
    """failing-input search after a broken proof / correspondence: more grammars of the same distribution"""
    n = 1200 if tier == "thorough" else 300
    cases = []
    for i in range(n):
        if i % 4 == 1:
            g = _gen_deep_prefix(rng)
        else:
            g = L.gen_grammar(rng, allow_leftrec=0.05)
            if rng.random() < 0.6:
                g = _mutate_for_c01(rng, g)
        cases.append({"g": g, "inputs": _gen_inputs(rng, g, 12)})
    for i in range(n // 3):
        cases.append(_gen_tok_session(rng))
    for i in range(n // 6):
        cases.append(_gen_plain_session(rng, i))
    return cases


# ------------------------------------------------------------------ sessions: texts, tokenizer configurations, parser reuse
# A session case:
#   {"kind": "session", "g": grammar, "cfg": tokenizer configuration or None (plain tokenizer of llp_common),
#    "texts": [{"text": str, "toks": [[name, value], ...] | None}],     toks = the NON-SKIPPED tokens the generator rendered the
#                                                                       text from (None: the text contains a foreign character)
#    "calls": [[text index, start_symbol_name | None], ...]             parse() calls made in this order on ONE parser object
#    "second": {"smart": b, "start": s, "calls": [...]} | None          a second parser made from the SAME productions / synonyms /
#                                                                       keywords objects after the first one was used
# The expected tokens never come from the library's tokenizer.
HELPER_START_SIG = "helper-start-symbol-per-call"


def _pattern_of(entry):
    name, kind, arg = entry
    if kind == "lit":
        return f"(?P<{name}>{re.escape(arg)})"
    if kind == "range":
        return f"(?P<{name}>[{arg[0]}-{arg[1]}]+)"
    if kind == "space":
        return f"(?P<{name}>\\s+)"
    if kind == "eol":
        return f"(?P<{name}>{re.escape(arg)}.*)"
    if kind == "quoted":
        q = re.escape(arg)
        return f"{q}(?P<{name}>[^{q}]*){q}"
    raise ValueError(kind)


def _tok_str(cfg):
    return "\n|".join(_pattern_of(e) for e in cfg["lex"])


def _span_matchers(cfg):
    return {g: "(?P<BODY>(?s:.*?))" + re.escape(closer) for g, closer in cfg["spans"]}


def _cfg_terminals(cfg):
    """the token names of the configuration as the documentation of LLParser defines them: pattern groups, renamed by
    synonyms, plus the keyword tokens"""
    syn = dict(cfg["syn"])
    t = set(e[0] for e in cfg["lex"]) - set(syn)
    t |= set(syn.values())
    t |= set(k[2] for k in cfg["kw"])
    return sorted(t)


def _cfg_skipset(cfg):
    if cfg["skip"] is None:
        terms = _cfg_terminals(cfg)
        return [t for t in ["SPACE", "COMMENT"] if t in terms]
    return list(cfg["skip"])


# characters at which str.splitlines() breaks a text but split('\n') -- what the tokenizer is documented to do -- does not
# ('\r' alone included); all of them but none of ODD_OTHER are white space (str.isspace, \s)
LINE_BREAKISH = ["\x0b", "\x0c", "\x1c", "\x1d", "\x1e", "\x85", "\u2028", "\u2029", "\r"]
ODD_SPACE = ["\x1f", "\xa0", "\u3000", "\t"]
ODD_OTHER = ["\u200b", "\xe9", "\x7f", "\\", "\ufeff"]


def _odd_core(rng, lead_space=False):
    """a piece of free text (no newline, no quote, no comment marker) that neither starts (unless lead_space) nor ends with
    white space and has, mostly, characters in it that some str method but not the tokenizer treats as line ends"""
    words = ["a", "b c", "x", "Q", "7", "if", "p q", "zz"]
    out = [rng.choice(words)]
    for _ in range(rng.randint(1, 3)):
        r = rng.random()
        sep = rng.choice(LINE_BREAKISH) if r < 0.7 else rng.choice(ODD_SPACE) if r < 0.8 else rng.choice(ODD_OTHER) if r < 0.9 else " "
        if rng.random() < 0.2:
            sep += rng.choice(LINE_BREAKISH + [" "])
        out += [sep, rng.choice(words)]
    return (rng.choice([" ", "\x0c", " \u2028"]) if lead_space and rng.random() < 0.4 else "") + "".join(out)


def _odd_trail(rng):
    """white space at the end of a line: removed by the tokenizer's rstrip() whatever it consists of"""
    return rng.choice(["", "", " ", "\x0c", "\t\x0b", " \u2028", "\r", "\x1c "])


def _rule_name(cfg, group, value, span):
    """the documented naming rule: the pattern group, renamed by synonyms, then -- not for span tokens -- replaced by the
    keyword token registered for (renamed name, value)"""
    n = dict(cfg["syn"]).get(group, group)
    if span:
        return n
    return {(a, b): c for a, b, c in cfg["kw"]}.get((n, value), n)


def _gen_tokcfg(rng):
    """-> (cfg, info); info["prod"]: final token name -> [[lexeme, value, needs_line_break_after], ...] -- what the generator
    knows about the lexicon BY CONSTRUCTION (which class a lexeme belongs to, what it is renamed to, which (class, value)
    pairs are keywords); info["lexinfo"]: "name\0lexeme" -> [pattern group, is a span token]"""
    lex, syn, kw, spans = [], [], [], []
    prod = {}
    lexinfo = {}
    free = []        # final names of the classes whose lexemes may contain any character

    def add(name, lexeme, value=None, eol=False, group=None, span=False):
        assert group is not None
        prod.setdefault(name, []).append([lexeme, lexeme if value is None else value, eol])
        lexinfo[name + "\0" + lexeme] = [group, span]

    # white space: group SPACE, or a group WS that is (or is not) renamed to SPACE
    r = rng.random()
    if r < 0.6:
        lex.append(["SPACE", "space", ""])
        space = space_group = "SPACE"
    elif r < 0.9:
        lex.append(["WS", "space", ""])
        syn.append(["WS", "SPACE"])
        space, space_group = "SPACE", "WS"
    else:
        lex.append(["WS", "space", ""])
        space = space_group = "WS"
    # words: two pattern groups; both / one / none renamed to WORD
    wm = rng.choice(["both", "both", "lower", "plain"])
    if wm == "both":
        lg, ug, ln, un = "LW", "UW", "WORD", "WORD"
        syn += [["LW", "WORD"], ["UW", "WORD"]]
    elif wm == "lower":
        lg, ug, ln, un = "LW", "UW", "WORD", "UW"
        syn += [["LW", "WORD"]]
    else:
        lg, ug, ln, un = "WORD", "UW", "WORD", "UW"
    lex += [[lg, "range", "az"], [ug, "range", "AZ"]]
    decoys = []          # [final name, lexeme, value, eol]: the keyword table has an entry that must NOT apply to this token
    lower_kw, upper_kw = {}, {}
    for v, k in (("if", "IF"), ("end", "END")):
        if rng.random() < 0.65:
            kw.append([ln, v, k])
            lower_kw[v] = k
    if rng.random() < 0.4:
        kw.append([un, "IF", "IF"])
        upper_kw["IF"] = "IF"
    if un == ln:
        lower_kw.update(upper_kw)
        upper_kw = dict(lower_kw)
    # decoys: entries keyed by a pattern group name that is renamed never apply (keywords are keyed by TOKEN names)
    if lg != ln:
        if rng.random() < 0.6:
            kw.append([lg, "while", "WHILE"])
            decoys.append([ln, "while", "while", False])
        if rng.random() < 0.3:
            kw.append([lg, "if", "LIF"])
            decoys.append([lower_kw.get("if", ln), "if", "if", False])
    if ug != un and rng.random() < 0.3:
        kw.append([ug, "FOO", "UFOO"])
        decoys.append([un, "FOO", "FOO", False])
    for v in ["a", "ab", "foo", "x", "zz", "while", "if", "end"]:
        add(lower_kw.get(v, ln), v, group=lg)
    for v in ["A", "FOO", "XY", "IF", "END"]:
        add(upper_kw.get(v, un), v, group=ug)
    # numbers
    if rng.random() < 0.65:
        ng, nn = "NUM", "NUM"
    else:
        ng, nn = "DIG", "NUM"
        syn.append(["DIG", "NUM"])
    lex.append([ng, "range", "09"])
    num_kw = {}
    if rng.random() < 0.4:
        kw.append([nn, "0", "ZERO"])
        num_kw["0"] = "ZERO"
    if ng != nn and rng.random() < 0.4:
        kw.append([ng, "7", "SEVEN"])          # decoy
        decoys.append([nn, "7", "7", False])
    for v in ["0", "7", "12", "345"]:
        add(num_kw.get(v, nn), v, group=ng)
    # quoted strings: the value excludes the quotes
    if rng.random() < 0.7:
        sm = rng.choice(["both", "dq", "plain"])
        dn, sn = "DQ", "SQ"
        if sm in ("both", "dq"):
            syn.append(["DQ", "STRING"])
            dn = "STRING"
        if sm == "both":
            syn.append(["SQ", "STRING"])
            sn = "STRING"
        lex += [["DQ", "quoted", '"'], ["SQ", "quoted", "'"]]
        free += [dn, sn]
        dkw = {}
        if rng.random() < 0.5:
            kw.append([dn, "x y", "XY"])
            dkw["x y"] = "XY"
        if dn != "DQ" and rng.random() < 0.4:
            kw.append(["DQ", "x", "DQX"])      # decoy
            decoys.append([dn, '"x"', "x", False])
        skw = dkw if sn == dn else {}
        # a string may contain any character but its quote and the newline: form feeds, lone carriage returns, unicode
        # line separators ... are part of the value
        for v in ["", "x", "x y", "a+b", "if"] + [_odd_core(rng, True) + _odd_trail(rng) for _ in range(rng.randint(1, 3))]:
            add(dkw.get(v, dn), '"' + v + '"', v, group="DQ")
        if "if" in lower_kw:
            decoys.append([dn, '"if"', "if", False])     # (WORD, if) is a keyword, (STRING, if) is not
        for v in ["", "q", "x y", "if"] + [_odd_core(rng, True) + _odd_trail(rng) for _ in range(rng.randint(0, 2))]:
            add(skw.get(v, sn), "'" + v + "'", v, group="SQ")
    # one-character literals, renamed to themselves or not; '+' may be a keyword of its own class
    for g, ch in (("PLUS", "+"), ("SEMI", ";"), ("LP", "("), ("RP", ")")):
        if rng.random() < 0.7:
            lex.append([g, "lit", ch])
            n = g
            if rng.random() < 0.5:
                syn.append([g, ch])
                n = ch
            if g == "PLUS" and rng.random() < 0.25:
                kw.append([n, "+", "ADD"])
                add("ADD", "+", group=g)
            else:
                add(n, ch, group=g)
    # the rest of the line as ONE token (a free-text field): never skipped by default, any character but the newline
    if rng.random() < 0.55:
        marker = rng.choice(["=", ":", "!"])
        rn = "REST"
        lex.append(["REST", "eol", marker])
        if rng.random() < 0.4:
            syn.append(["REST", "TEXT"])
            rn = "TEXT"
        free.append(rn)
        rkw = {}
        if rng.random() < 0.3:
            kw.append([rn, marker + "on", "ON"])
            rkw[marker + "on"] = "ON"
        for c in ["", "on", " a b", "x  y"]:
            add(rkw.get(marker + c, rn), marker + c, eol=True, group="REST")
        for _ in range(rng.randint(2, 4)):
            v = marker + _odd_core(rng, True)
            add(rn, v + _odd_trail(rng), v, eol=True, group="REST")      # the line is rstripped before it is matched
    # comments: to the end of the line, and a span token
    comment_names = []
    if rng.random() < 0.7:
        marker = rng.choice(["//", "#"])
        cg = rng.choice(["COMMENT", "REM"])
        lex.append([cg, "eol", marker])
        cn = cg
        if cg == "REM" and rng.random() < 0.7:
            syn.append(["REM", "COMMENT"])
            cn = "COMMENT"
        for c in ["", " c", " x y", " if"]:
            add(cn, marker + c, eol=True, group=cg)
        for _ in range(rng.randint(1, 2)):
            v = marker + _odd_core(rng, True)
            add(cn, v + _odd_trail(rng), v, eol=True, group=cg)
        comment_names.append(cn)
        free.append(cn)
    if rng.random() < 0.6:
        lex.append(["CML", "lit", "/*"])
        spans.append(["CML", "*/"])
        mn = "CML"
        if rng.random() < 0.6:
            syn.append(["CML", "COMMENT"])
            mn = "COMMENT"
        if rng.random() < 0.4:
            kw.append([mn, "if", "SPANKW"])    # decoy: keywords are not applied to span tokens
            decoys.append([mn, "/*if*/", "if", False])
        # (lexeme, value): the value is the body; the text of a line after the opener and of whole lines inside is taken
        # from the rstripped lines, blank parts are dropped
        for lx, v in (("/* c */", " c "), ("/**/", ""), ("/*c\nd*/", "c\nd"), ("/*\nq */", "q "), ("/*if*/", "if"),
                      ("/* a\n  b \n c */", " a\n  b\n c "), ("/*  x\n\n\ty\n*/", "  x\n\ty\n")):
            add(mn, lx, v, group="CML", span=True)
        # bodies with characters that are line ends for str.splitlines only: they stay in the value, the lines of the body
        # are the pieces between newlines (each rstripped, the last one cut at the closer and not stripped)
        for _ in range(rng.randint(2, 3)):
            parts = [_odd_core(rng, True) for _ in range(rng.choice([1, 1, 2, 3]))]
            last = rng.choice(["", " ", "\x0c", " z\u2028"])
            lx = "/*" + "".join(q + _odd_trail(rng) + "\n" for q in parts[:-1]) + parts[-1] + last + "*/"
            add(mn, lx, "\n".join(parts) + last, group="CML", span=True)
        comment_names.append(mn)
        free += [mn, mn]
    rng.shuffle(lex)
    cfg = {"lex": lex, "spans": spans, "syn": syn, "kw": kw, "skip": None}
    terms = _cfg_terminals(cfg)
    default = [t for t in ["SPACE", "COMMENT"] if t in terms]
    subst = sorted(n for n in prod if n not in default and n != space and n not in comment_names)
    r = rng.random()
    if r < 0.45:
        skip = None
    elif r < 0.53:
        skip = list(default) + ([space] if space not in default else [])
    elif r < 0.77:
        # a substantive class is skipped: preferably a class that has keywords (its keywords are tokens of their own and
        # stay) or a keyword token (its base class stays)
        weighted = list(subst)
        for base, kws in ((ln, lower_kw), (un, upper_kw), (nn, num_kw)):
            if kws and base in subst:
                weighted += [base] * 4
            weighted += [k for k in sorted(set(kws.values())) if k in subst] * 2
        skip = list(default) + ([space] if space not in default else []) + [rng.choice(weighted)]
    elif r < 0.86:
        skip = [space]                                   # comments are terminals of the grammar
    elif r < 0.96:
        skip = [t for t in default if t != space]        # white space is NOT skipped ([] or [COMMENT])
    else:
        renamed = [a for a, b in syn if a not in terms]
        skip = list(default) + ([rng.choice(renamed)] if renamed else [])   # a pattern group name that is no token name: GrammarError
    cfg["skip"] = skip
    info = {"prod": prod, "space": space, "space_group": space_group, "comments": comment_names, "skipset": _cfg_skipset(cfg),
            "decoys": decoys, "lexinfo": lexinfo, "free": free,
            "bases": {"lower": (ln, lower_kw), "upper": (un, upper_kw), "num": (nn, num_kw)}}
    # the generator's by-construction names agree with the documented naming rule
    for n, entries in prod.items():
        for lx, v, _ in entries:
            g_, sp_ = lexinfo[n + "\0" + lx]
            assert _rule_name(cfg, g_, v, sp_) == n, (n, lx, cfg)
    return cfg, info


def _char_class(c):
    if c.islower():
        return "l"
    if c.isupper():
        return "u"
    if c.isdigit():
        return "d"
    return c


def _glue_ok(a, b):
    """may lexeme b follow lexeme a without a separator so that they stay the same two tokens"""
    if a[-1] in "/*#" or b[0] in "/*#":
        return False
    return _char_class(a[-1]) != _char_class(b[0])


def _render(rng, info, items, forced=None):
    """items: [[name, value, lexeme, eol], ...] -> (text, all tokens [[name, value, pattern group, is span], ...] in order,
    white space and comments included where they are tokens of the text -- skipped white space is not listed); forced: a
    SKIPPED token [name, lexeme, value, eol] that is put between two items (white space must be skipped then)"""
    skip = set(info["skipset"])
    space = info["space"]
    sgroup = info.get("space_group", space)
    space_skipped = space in skip
    prod = info["prod"]
    lexinfo = info["lexinfo"]
    skipped_comments = [(n, e) for n in info["comments"] if n in skip for e in prod.get(n, [])]
    out, full = [], []
    need_nl = False

    def tok(name, value, lexeme):
        return [name, value] + list(lexinfo[name + "\0" + lexeme])

    def ws_token(pieces, choices):
        s = rng.choice(choices)
        pieces.append(s)
        full_extra.append([space, s, sgroup, False])

    def separator(prev, nxt, first):
        nonlocal need_nl
        pieces = []
        if space_skipped:
            if need_nl:
                pieces.append(rng.choice(["\n", "\n  ", " \n", "\n\n", "\t\n ", "\x0c\n", "\r\n", "\n\u2028"]))
            elif first:
                pieces.append(rng.choice(["", "", " ", "\n", "  \n ", "\x0c", "\r\n"]))
            elif prev is not None and nxt is not None and _glue_ok(prev, nxt) and rng.random() < 0.25:
                pieces.append("")
            else:
                pieces.append(rng.choice([" ", " ", "  ", "\t", "\n", " \n  ", "\n\n", "\x0c", "\r\n", " \u2028", "\x0b\n", "\r",
                                          "\x1d \x85"]))
            if (skipped_comments and rng.random() < 0.2) or force_here:
                n, (lx, v, eol) = (forced[0], forced[1:]) if force_here else rng.choice(skipped_comments)
                if not pieces[-1]:
                    pieces.append(" ")
                pieces.append(lx)
                full_extra.append(tok(n, v, lx))
                pieces.append(rng.choice(["\n", "\n ", " \n"]) if eol else rng.choice([" ", "\n", "  "]))
        else:
            # white space is a token of its own: between two tokens of a line and at the start of a line -- never at the
            # end of a line (the tokenizer strips the lines on the right) -- whatever white space characters it is made of
            lead = [" ", "  ", "\t", "\x0c", " \u2028", "\r"]
            if need_nl:
                pieces.append("\n")
                if nxt is not None and rng.random() < 0.25:
                    ws_token(pieces, lead)
            elif first:
                if nxt is not None and rng.random() < 0.2:
                    ws_token(pieces, lead)
            elif prev is not None and nxt is not None and _glue_ok(prev, nxt) and rng.random() < 0.3:
                pieces.append("")
            else:
                r = rng.random()
                if r < 0.55:
                    ws_token(pieces, [" ", " ", "  ", "\t", "\x0c", "\r", " \x0b", "\u2028", "\x1c ", "\x85"])
                elif r < 0.8:
                    pieces.append("\n")
                elif r < 0.9:
                    pieces.append(rng.choice([" ", "\x0c", "\t ", "\r", "\u2029 "]) + "\n")      # stripped: no token
                else:
                    pieces.append("\n")
                    if nxt is not None:
                        ws_token(pieces, lead)
        need_nl = False
        return "".join(pieces)

    prev = None
    force_at = rng.randint(0, len(items)) if forced is not None and space_skipped else -1
    for i, (name, value, lexeme, eol) in enumerate(items):
        full_extra = []
        force_here = (i == force_at)
        out.append(separator(prev, lexeme, i == 0))
        full += full_extra
        out.append(lexeme)
        full.append(tok(name, value, lexeme))
        need_nl = eol
        prev = lexeme
    # tail: trailing white space is stripped by the tokenizer; a skipped comment may follow
    full_extra = []
    force_here = (force_at == len(items))
    if space_skipped:
        out.append(separator(prev, None, not items))
    elif rng.random() < 0.3:
        out.append(rng.choice(["\n", "\n", " ", "\x0c\n", " \n\n", "\u2028"]))
    full += full_extra
    return "".join(out), full


def _pick_items(rng, info, names):
    """token names -> [[name, value, lexeme, eol]] (None when a name has no lexeme in this configuration)"""
    items = []
    for n in names:
        cands = info["prod"].get(n)
        if not cands:
            return None
        lx, v, eol = rng.choice(cands)
        items.append([n, v, lx, eol])
    return items


def _confuse(rng, info, items):
    """put a keyword where the grammar had its base token (and the other way round): the expected token changes
    its name, so the text is usually no longer a sentence -- unless the keyword mapping is wrong"""
    items = [list(x) for x in items]
    pos = list(range(len(items)))
    rng.shuffle(pos)
    for i in pos:
        name = items[i][0]
        for base, kws in info["bases"].values():
            if name == base and kws:
                v = rng.choice(sorted(kws))
                k = kws[v]
                items[i] = [k, v, v, False]
                return items
            if name in kws.values():
                plain = [e for e in info["prod"].get(base, [])]
                if plain:
                    lx, v, eol = rng.choice(plain)
                    items[i] = [base, v, lx, eol]
                    return items
    return None


def _tok_grammar(rng, info):
    skip = set(info["skipset"])
    avail = sorted(n for n in info["prod"] if n not in skip)
    if not avail:
        avail = ["WORD"]
    r = rng.random()
    if r < 0.3:
        # any sequence of non-skipped tokens is a sentence: every tokenisation defect shows in a tree
        return {"nts": ["E", "T"], "terms": avail, "prods": [["E", [["T", "E"], []]], ["T", [[t] for t in avail]]],
                "start": "E", "smart": rng.random() < 0.5}
    g = L.gen_grammar(rng, allow_leftrec=0.05)
    if rng.random() < 0.4:
        g = _mutate_for_c01(rng, g)
    # rename the terminals a, b, ... to token names of the configuration; keywords and their base classes first
    pref = []
    for base, kws in info["bases"].values():
        if kws:
            if base in avail:
                pref.append(base)
            pref += [k for k in sorted(set(kws.values())) if k in avail]      # also when the base class itself is skipped
    rest = [n for n in avail if n not in pref]
    rng.shuffle(rest)
    if rng.random() < 0.7:
        pool = list(dict.fromkeys(pref)) + rest
    else:
        pool = rest + list(dict.fromkeys(pref))
    # half of the grammars: one or two of the free-text classes (strings, rest-of-line, comments that are not skipped)
    # among the first terminals, so that their tokens are leaves of trees
    fr = [n for n in info.get("free", []) if n in avail]
    if fr and rng.random() < 0.5:
        rng.shuffle(fr)
        front = list(dict.fromkeys(fr))[:rng.randint(1, 2)]
        pool = front + [n for n in pool if n not in front]
    letters = list(g["terms"])
    m = {t: pool[i % len(pool)] for i, t in enumerate(letters)}
    g = dict(g)
    g["prods"] = [[nt, [[m.get(s, s) for s in a] for a in alts]] for nt, alts in g["prods"]]
    g["terms"] = sorted(set(m.values()))
    return g


def _gen_calls(rng, g, n_texts, extra_starts):
    """every text once with the constructor's start symbol, then repeated / re-ordered calls, some with an explicit
    start_symbol_name (user symbols; rarely a terminal, an unknown name, a helper name)"""
    calls = [[i, None] for i in range(n_texts)]
    nts = [nt for nt, _ in g["prods"]]
    for i, s in extra_starts:
        calls.append([i, s])
    for _ in range(rng.randint(1, 6)):
        if not n_texts:
            break
        i = rng.randrange(n_texts)
        r = rng.random()
        if r < 0.45:
            s = None
        elif r < 0.85:
            s = rng.choice(nts)
        elif r < 0.9:
            s = rng.choice(g["terms"]) if g["terms"] else "NOPE"
        elif r < 0.94:
            s = "NOPE"
        else:
            s = rng.choice(nts) + "__S00"
        calls.append([i, s])
    # the first calls once more at the end, in reverse order: same parser object, same answers
    calls += [list(c) for c in reversed(calls[:rng.randint(0, min(4, n_texts))])]
    return calls


def _gen_second(rng, g, calls):
    if rng.random() < 0.5:
        return None
    nts = [nt for nt, _ in g["prods"]]
    sub = [list(c) for c in calls if rng.random() < 0.6][:8]
    return {"smart": (not g["smart"]) if rng.random() < 0.6 else g["smart"],
            "start": g["start"] if rng.random() < 0.5 else rng.choice(nts), "calls": sub}


def _gen_tok_session(rng):
    cfg, info = _gen_tokcfg(rng)
    g = _tok_grammar(rng, info)
    texts, extra = [], []

    def add_text(items, lexerr=False, forced=None):
        text, full = _render(rng, info, items, forced)
        toks = [t[:2] for t in full if t[0] not in set(info["skipset"])]
        if lexerr:
            if cfg["spans"] and rng.random() < 0.4:
                # a span token that is never closed
                text = text + "\n" + rng.choice(["/* zz", "/*", "/* a\n b\x0c*"])
            else:
                # a character no pattern matches, on a line of its own (not inside a comment or a string)
                bad = rng.choice(["@", "é", "$", "~", "\x7f", "\u200b"])
                text = (bad + "\n" + text) if rng.random() < 0.3 else (text + "\n" + bad + rng.choice(["", " a", "\n"]))
            toks = full = None
        texts.append({"text": text, "toks": toks, "full": full})
        return len(texts) - 1

    names_list = [[n for n, _ in inp] for inp in _gen_inputs(rng, g, 7)]
    for names in names_list:
        items = _pick_items(rng, info, names)
        if items is None:
            continue
        add_text(items, lexerr=rng.random() < 0.05)
        if rng.random() < 0.5:
            c = _confuse(rng, info, items)
            if c is not None:
                add_text(c)
    # every decoy of the keyword table occurs in some text: as a skipped token between the items of a sentence, or in
    # the place of a token of the same name (or anywhere, when no sentence has one)
    skipset = set(info["skipset"])
    for d in info["decoys"]:
        if rng.random() < 0.25:
            continue
        items = _pick_items(rng, info, _gen_sentence(rng, g))
        if items is None:
            continue
        if d[0] in skipset:
            add_text(items, forced=d)
        else:
            pos = [i for i, it in enumerate(items) if it[0] == d[0]]
            it = [d[0], d[2], d[1], d[3]]
            if pos:
                items[rng.choice(pos)] = it
            else:
                items.insert(rng.randint(0, len(items)), it)
            add_text(items)
    # sentences of other symbols, parsed with start_symbol_name
    nts = [nt for nt, _ in g["prods"]]
    for _ in range(rng.randint(0, 2)):
        s = rng.choice(nts)
        g2 = dict(g)
        g2["start"] = s
        items = _pick_items(rng, info, _gen_sentence(rng, g2))
        if items is not None:
            extra.append([add_text(items), s])
    calls = _gen_calls(rng, g, len(texts), extra)
    case = {"kind": "session", "g": g, "cfg": cfg, "texts": texts, "calls": calls, "second": _gen_second(rng, g, calls)}
    _gen_args_and_changes(rng, case, info)
    return case


# ------------------------------------------------------------------ the caller's argument objects, changed in place later
# case["args"] = {"skip": how an explicit skip_tokens is passed: "set" | "list" | "tuple" | "frozenset",
#                 "keep": None | [symbols]   keep_symbols (a set; only cleanup reads it -- it must stay as the caller made it)}
# case["change"] = {"ops": [...], "cfg2": the configuration with the CHANGED synonyms / keywords | None,
#                   "after": calls on the first parser, "after2": calls on the second parser}
# ops (applied in this order to the very objects the constructor(s) received, after all earlier calls):
#   ["skip_add", name] ["skip_del", name]                    (set / list containers only)
#   ["prod_append", nt, alt] ["prod_pop", nt] ["prod_reverse", nt] ["prod_clear", nt] ["prod_new", nt, alts] ["prod_del", nt]
#   ["kw_set", name, value, token] ["kw_del", name, value] ["syn_set", group, name] ["syn_del", group]
#   ["span_clear"] ["keep_add", name]
def _gen_args_and_changes(rng, case, info):
    g, cfg = case["g"], case["cfg"]
    nts = [nt for nt, _ in g["prods"]]
    skip = ["SPACE"] if cfg is None else cfg["skip"]
    args = {"skip": rng.choice(["set", "set", "set", "list", "tuple", "frozenset"]),
            "keep": sorted(rng.sample(nts, rng.randint(0, min(2, len(nts))))) if rng.random() < 0.3 else None}
    if cfg is None:
        args["explicit_skip"] = rng.random() < 0.6        # plain sessions: skip_tokens={'SPACE'} passed explicitly (= the default)
    case["args"] = args
    case["change"] = None
    if rng.random() < 0.3:
        return
    texts = case["texts"]
    ops1, ops2 = [], []
    explicit = (cfg is not None and cfg["skip"] is not None) or (cfg is None and args["explicit_skip"])
    used = sorted({t[0] for x in texts if x["toks"] for t in x["toks"]})       # non-skipped token names that occur
    if explicit and args["skip"] in ("set", "list") and rng.random() < 0.85:
        r = rng.random()
        if used and r < 0.75:
            # a token name that occurs in the texts joins the caller's skip container
            for n in rng.sample(used, min(len(used), rng.randint(1, 2))):
                ops1.append(["skip_add", n])
        elif skip and cfg is not None:
            # (plain sessions: the model gets token lists without white space, so SPACE stays skipped)
            ops1.append(["skip_del", rng.choice(sorted(skip))])
        if used and rng.random() < 0.2:
            ops1.append(["skip_add", rng.choice(used)])
    if args["keep"] is not None and rng.random() < 0.5:
        ops1.append(["keep_add", rng.choice(nts)])
    if cfg is not None and cfg["spans"] and rng.random() < 0.3:
        ops1.append(["span_clear"])
    # one more parser from the caller's objects as they are now (skip container extended / shrunk, span matchers emptied):
    # the productions / synonyms / keywords objects are changed only afterwards, so its grammar is the session's
    third = None
    if any(o[0] != "keep_add" for o in ops1) and rng.random() < 0.75:
        third = {"smart": g["smart"] if rng.random() < 0.5 else not g["smart"],
                 "start": g["start"] if rng.random() < 0.7 else rng.choice(nts)}
    if rng.random() < 0.5:
        nt = rng.choice(nts)
        r = rng.random()
        terms = g["terms"] or ["WORD"]
        if r < 0.3:
            ops2.append(["prod_append", nt, [rng.choice(terms)]])
        elif r < 0.45:
            ops2.append(["prod_pop", nt])
        elif r < 0.6:
            ops2.append(["prod_reverse", nt])
        elif r < 0.7:
            ops2.append(["prod_clear", nt])
        elif r < 0.85:
            ops2.append(["prod_new", "NEWSYM", [[rng.choice(terms)], []]])
        else:
            ops2.append(["prod_del", nt])
    cfg2 = None
    if cfg is not None:
        # synonyms / keywords dicts: entries for tokens that occur in the texts (never the white space class: skipped white
        # space is not listed in the generator's token lists)
        occurring = [t for x in texts if x["full"] for t in x["full"] if t[2] != info["space_group"]]
        terms = _cfg_terminals(cfg)
        syn, kw = [list(e) for e in cfg["syn"]], [list(e) for e in cfg["kw"]]
        touched = False
        if kw and occurring and rng.random() < 0.5:
            for _ in range(rng.randint(1, 2)):
                r = rng.random()
                t = rng.choice(occurring)
                base = dict(syn).get(t[2], t[2])
                if r < 0.6 and not t[3]:
                    # a further keyword: an occurring (class, value) becomes a token the grammar knows (or a new name)
                    k = rng.choice([x for x in (g["terms"] or terms)] + ["NEWKW"])
                    ops2.append(["kw_set", base, t[1], k])
                    kw = [e for e in kw if (e[0], e[1]) != (base, t[1])] + [[base, t[1], k]]
                    touched = True
                elif kw:
                    e = rng.choice(kw)
                    ops2.append(["kw_del", e[0], e[1]])
                    kw = [x for x in kw if x is not e]
                    touched = True
        if syn and occurring and rng.random() < 0.4:
            t = rng.choice(occurring)
            grp = t[2]
            if rng.random() < 0.6:
                n = rng.choice(g["terms"] or terms)
                ops2.append(["syn_set", grp, n])
                syn = [[a, (n if a == grp else b)] for a, b in syn] + ([] if grp in dict(syn) else [[grp, n]])
            elif grp in dict(syn):
                ops2.append(["syn_del", grp])
                syn = [e for e in syn if e[0] != grp]
            else:
                ops2.append(["syn_set", grp, grp + "X"])
                syn = syn + [[grp, grp + "X"]]
            touched = True
        if touched:
            cfg2 = dict(cfg, syn=syn, kw=kw)
    if not ops1 and not ops2:
        return
    # the calls made afterwards: every text once more, then some of the earlier calls (also those with a start symbol)
    after = [[i, None] for i in range(len(texts))]
    after += [list(c) for c in case["calls"] if c[1] is not None and rng.random() < 0.5][:4]
    if len(after) > 12:
        after = rng.sample(after, 12)
    after2 = []
    if case.get("second"):
        after2 = [list(c) for c in after if rng.random() < 0.6][:8]
    if third:
        third["calls"] = [list(c) for c in after if rng.random() < 0.8][:10]
        third["after"] = [list(c) for c in third["calls"] if rng.random() < 0.6][:6] if ops2 else []
    case["change"] = {"ops1": ops1, "third": third, "ops2": ops2, "cfg2": cfg2, "after": after, "after2": after2}


def _third_cfg(case):
    """what the third parser is made from: -> (configuration with the caller's CHANGED skip container / span matchers | None
    for the plain tokenizer, the names the plain tokenizer's parser skips besides SPACE)"""
    ch = case["change"]
    cfg = case["cfg"]
    skip = list(["SPACE"] if cfg is None else cfg["skip"] or [])
    kind = (case.get("args") or {}).get("skip", "set")
    spans = None if cfg is None else cfg["spans"]
    for op in ch["ops1"]:
        if op[0] == "skip_add" and (kind == "list" or op[1] not in skip):
            skip.append(op[1])
        elif op[0] == "skip_del" and op[1] in skip:
            skip.remove(op[1])
        elif op[0] == "span_clear":
            spans = []
    if cfg is None:
        return None, [n for n in skip if n != "SPACE"]
    return dict(cfg, skip=skip if cfg["skip"] is not None else None, spans=spans), []


def _gen_plain_session(rng, i):
    if i % 4 == 3:
        g = _gen_deep_prefix(rng)
    else:
        g = L.gen_grammar(rng, allow_leftrec=0.05)
        if rng.random() < 0.5:
            g = _mutate_for_c01(rng, g)
    texts, extra = [], []
    for inp in _gen_inputs(rng, g, 8):
        texts.append({"text": " ".join(v for _, v in inp), "toks": [list(x) for x in inp], "full": None})
    nts = [nt for nt, _ in g["prods"]]
    for _ in range(rng.randint(0, 3)):
        s = rng.choice(nts)
        g2 = dict(g)
        g2["start"] = s
        inp = [[t, t + (str(rng.randint(0, 99)) if rng.random() < 0.4 else "")] for t in _gen_sentence(rng, g2)]
        texts.append({"text": " ".join(v for _, v in inp), "toks": inp, "full": None})
        extra.append([len(texts) - 1, s])
    calls = _gen_calls(rng, g, len(texts), extra)
    case = {"kind": "session", "g": g, "cfg": None, "texts": texts, "calls": calls, "second": _gen_second(rng, g, calls)}
    _gen_args_and_changes(rng, case, None)
    return case


def _is_session(case):
    return case.get("kind") == "session"


def _snapshot(x):
    """a structural picture of an argument object: container types, order of dict keys and list items, set members"""
    if isinstance(x, dict):
        return ["dict", [[_snapshot(k), _snapshot(v)] for k, v in x.items()]]
    if isinstance(x, (set, frozenset)):
        return [type(x).__name__, sorted(repr(e) for e in x)]
    if isinstance(x, (list, tuple)):
        return [type(x).__name__, [_snapshot(e) for e in x]]
    return repr(x)


def _impl_session(case):
    from ak import llparser
    g = case["g"]
    args = case.get("args") or {}
    # THE argument objects: made once, handed to every constructor call of the session, changed in place later
    prods = {nt: [tuple(a) if a else None for a in alts] for nt, alts in g["prods"]}
    cfg = case["cfg"]
    kwargs = {}
    if cfg is None:
        tstr = L.tokenizer_str(g["terms"])
        skip = ["SPACE"] if args.get("explicit_skip") else None
    else:
        tstr = _tok_str(cfg)
        kwargs = {"synonyms": dict(cfg["syn"]) or None,
                  "keywords": {(n, v): k for n, v, k in cfg["kw"]} or None,
                  "span_matchers": _span_matchers(cfg) or None}
        skip = cfg["skip"]
    if skip is not None:
        kwargs["skip_tokens"] = {"set": set, "list": list, "tuple": tuple, "frozenset": frozenset}[args.get("skip", "set")](skip)
    if args.get("keep") is not None:
        kwargs["keep_symbols"] = set(args["keep"])
    pool = dict(kwargs, productions=prods)
    before = {k: _snapshot(v) for k, v in pool.items()}
    modified = []

    def check_args(when):
        for k, v in pool.items():
            if _snapshot(v) != before[k] and k not in [m[0] for m in modified]:
                modified.append([k, when])

    def make(smart, start):
        try:
            return llparser.LLParser(tstr, productions=prods, start_symbol_name=start, smart_factorization=smart, **kwargs), None
        except BaseException as e:  # noqa
            if type(e).__name__ == "Hang":
                raise
            return None, SX.exc_name(e)
        finally:
            check_args("constructor")

    def run_calls(p, calls, out):
        for i, s in calls:
            kw = {} if s is None else {"start_symbol_name": s}
            try:
                t = p.parse(case["texts"][i]["text"], do_cleanup=False, **kw)
                out.append(["ok", L.tree_obs(t)])
            except llparser.Error as e:
                out.append(["err", SX.exc_name(e)])
            except BaseException as e:  # noqa
                if type(e).__name__ == "Hang":
                    out.append(["err", "Hang"])
                    while len(out) < len(calls):
                        out.append(["err", "NotRun"])
                    return False
                out.append(["err", SX.exc_name(e)])
        check_args("parse")
        return True

    p, e = make(g["smart"], g["start"])
    if p is None:
        return {"ctor": ["err", e], "modified": modified}
    out = {"ctor": ["ok"], "amb": bool(p.is_ambiguous()), "res": [],
           "fg": [[s, [[r.symbol, list(r.production), r.sort_n] for r in rr]] for s, rr in p.prods_map.items()],
           "sfxs": sorted(p._suffix_symbols), "terminals": sorted(p.terminals), "second": None,
           "modified": modified, "res_after": [], "res_after2": []}
    if not run_calls(p, case["calls"], out["res"]):
        out["hang_at"] = len(case["calls"])
        out["amb_after"] = out["amb"]
        return out
    out["amb_after"] = bool(p.is_ambiguous())       # asked again after the calls: the answer must not depend on the history
    sec = case.get("second")
    p2 = None
    if sec:
        p2, e2 = make(sec["smart"], sec["start"])
        if p2 is None:
            out["second"] = {"ctor": ["err", e2]}
        else:
            out["second"] = {"ctor": ["ok"], "amb": bool(p2.is_ambiguous()), "res": []}
            run_calls(p2, sec["calls"], out["second"]["res"])
            out["second"]["amb_after"] = bool(p2.is_ambiguous())
    ch = case.get("change")
    if ch:
        # the caller goes on using ITS objects: the parsers made from them must not notice
        for op in ch["ops1"]:
            _apply_op(op, prods, kwargs)
        before.update({k: _snapshot(v) for k, v in pool.items()})      # from now on the objects must stay as the caller left them
        p3 = None
        th = ch.get("third")
        if th:
            p3, e3 = make(th["smart"], th["start"])
            if p3 is None:
                out["third"] = {"ctor": ["err", e3]}
            else:
                out["third"] = {"ctor": ["ok"], "amb": bool(p3.is_ambiguous()), "res": [], "res_after": []}
                run_calls(p3, th["calls"], out["third"]["res"])
        for op in ch["ops2"]:
            _apply_op(op, prods, kwargs)
        before.update({k: _snapshot(v) for k, v in pool.items()})
        run_calls(p, ch["after"], out["res_after"])
        if p2 is not None:
            run_calls(p2, ch["after2"], out["res_after2"])
        if p3 is not None:
            run_calls(p3, th["after"], out["third"]["res_after"])
    return out


def _apply_op(op, prods, kwargs):
    k = op[0]
    if k in ("skip_add", "skip_del"):
        c = kwargs.get("skip_tokens")
        if isinstance(c, set):
            (c.add if k == "skip_add" else c.discard)(op[1])
        elif isinstance(c, list):
            if k == "skip_add":
                c.append(op[1])
            elif op[1] in c:
                c.remove(op[1])
    elif k == "prod_append":
        prods[op[1]].append(tuple(op[2]))
    elif k == "prod_pop":
        if prods[op[1]]:
            prods[op[1]].pop()
    elif k == "prod_reverse":
        prods[op[1]].reverse()
    elif k == "prod_clear":
        del prods[op[1]][:]
    elif k == "prod_new":
        prods[op[1]] = [tuple(a) if a else None for a in op[2]]
    elif k == "prod_del":
        prods.pop(op[1], None)
    elif k == "kw_set":
        kwargs["keywords"][(op[1], op[2])] = op[3]
    elif k == "kw_del":
        kwargs["keywords"].pop((op[1], op[2]), None)
    elif k == "syn_set":
        kwargs["synonyms"][op[1]] = op[2]
    elif k == "syn_del":
        kwargs["synonyms"].pop(op[1], None)
    elif k == "span_clear":
        if kwargs.get("span_matchers"):
            kwargs["span_matchers"].clear()
    elif k == "keep_add":
        if kwargs.get("keep_symbols") is not None:
            kwargs["keep_symbols"].add(op[1])
    else:
        raise ValueError(op)


def _c_calls(calls):
    items = [f"({SX.cnat(i)}, " + ("(@None (list Z))" if s is None else f"(Some {SX.cstr(s)})") + ")" for i, s in calls]
    return SX.clist(items) if items else "(@nil (nat * option (list Z)))"


def _c_list(items, ty):
    items = list(items)
    return SX.clist(items) if items else f"(@nil {ty})"


def _c_pat(kind, arg):
    if kind == "lit":
        return f"PLit {SX.cstr(arg)}"
    if kind == "range":
        return f"PRange {ord(arg[0])} {ord(arg[1])}"
    if kind == "space":
        return "PSpace"
    if kind == "eol":
        return f"PEol {SX.cstr(arg)}"
    if kind == "quoted":
        return f"PQuoted {ord(arg)}"
    raise ValueError(kind)


def _c_sx(x):
    if isinstance(x, bool):
        return "SZ 1" if x else "SZ 0"
    if isinstance(x, int):
        return f"SZ {SX.cZ(x)}"
    return "SL [" + "; ".join(_c_sx(e) for e in x) + "]"


def _c_cfg(cfg):
    lex = _c_list((f"({SX.cstr(n)}, {_c_pat(k, a)})" for n, k, a in cfg["lex"]), "(list Z * pat)")
    spans = _c_list((f"({SX.cstr(a)}, {SX.cstr(c)})" for a, c in cfg["spans"]), "(list Z * list Z)")
    syn = _c_list((f"({SX.cstr(a)}, {SX.cstr(b)})" for a, b in cfg["syn"]), "(list Z * list Z)")
    kw = _c_list((f"({SX.cstr(n)}, ({SX.cstr(v)}, {SX.cstr(k)}))" for n, v, k in cfg["kw"]), "(list Z * (list Z * list Z))")
    return f"(mkCfg {lex} {spans} {syn} {kw})"


def _until_hang(case, obs):
    """the implementation did not return from one parse() call within IMPL_TIMEOUT (an exponential roll-back; termination is
    C03's subject): the calls after it were not made, so the comparison covers the calls up to and including that one (the
    model must say Hang there: its iteration budget is used up)"""
    if "hang_at" not in obs:
        return case, obs
    if _is_session(case):
        h = next((i for i, r in enumerate(obs["res"]) if r == ["err", "Hang"]), None)
        if h is None:
            return case, obs
        return (dict(case, calls=case["calls"][:h + 1], second=None, change=None),
                dict(obs, res=obs["res"][:h + 1], second=None, res_after=[], res_after2=[], third=None))
    h = obs["hang_at"]
    return dict(case, inputs=case["inputs"][:h + 1]), dict(obs, res=obs["res"][:h + 1])


def _coq_session(case, obs):
    case, obs = _until_hang(case, obs)
    g = case["g"]
    cfg = case["cfg"]
    ug = SX.clist(
        "(" + SX.cstr(nt) + ", " + SX.clist(SX.clist(SX.cstr(s) for s in alt) if alt else "(@nil (list Z))" for alt in alts) + ")"
        for nt, alts in g["prods"])
    if cfg is None:
        tk = "(@None (lexcfg * option (list (list Z))))"
        terms = _c_list((SX.cstr(t) for t in g["terms"]), "(list Z)")
        texts = _c_list(("(SToks " + _c_list((f"({SX.cstr(n)}, {SX.cstr(v)})" for n, v in t["toks"]), "(list Z * list Z)") + ")"
                         for t in case["texts"]), "source")
    else:
        skip = "(@None (list (list Z)))" if cfg["skip"] is None else "(Some " + _c_list((SX.cstr(s) for s in cfg["skip"]), "(list Z)") + ")"
        tk = f"(Some ({_c_cfg(cfg)}, {skip}))"
        terms = "(@nil (list Z))"
        texts = _c_list((f"(SText {SX.cstr(t['text'])})" for t in case["texts"]), "source")
    sec = case.get("second")
    if sec:
        second = f"(Some ({SX.cbool(sec['smart'])}, {SX.cstr(sec['start'])}, {_c_calls(sec['calls'])}))"
    else:
        second = "(@None (bool * list Z * list (nat * option (list Z))))"
    ch = case.get("change") or {}
    c2 = ch.get("cfg2")
    if c2:
        cfg2 = "(Some " + _c_cfg(c2) + ")"
    else:
        cfg2 = "(@None lexcfg)"
    th = ch.get("third")
    if th:
        cfg3, xskip = _third_cfg(case)
        if cfg3 is None:
            tk3 = "(@None (lexcfg * option (list (list Z))))"
        else:
            skip3 = "(@None (list (list Z)))" if cfg3["skip"] is None else "(Some " + _c_list((SX.cstr(x) for x in cfg3["skip"]), "(list Z)") + ")"
            tk3 = f"(Some ({_c_cfg(cfg3)}, {skip3}))"
        third = (f"(Some ({tk3}, {_c_list((SX.cstr(x) for x in xskip), '(list Z)')}, {SX.cbool(th['smart'])}, {SX.cstr(th['start'])}, "
                 f"{_c_calls(th['calls'])}, {_c_calls(th['after'])}))")
    else:
        third = "(@None (option (lexcfg * option (list (list Z))) * list (list Z) * bool * list Z * list (nat * option (list Z)) * list (nat * option (list Z))))"
    return (f"Session {tk} {ug} {terms} {SX.cbool(g['smart'])} {SX.cstr(g['start'])} {L.FUEL}%nat {texts} "
            f"{_c_calls(case['calls'])} {second} {cfg2} {_c_calls(ch.get('after') or [])} {_c_calls(ch.get('after2') or [])} "
            f"{third} ({_c_sx(_observation_session(case, obs))})")


def _sx_results(res):
    return [SX.ok(L.tree_sx(r[1])) if r[0] == "ok" else SX.err(r[1]) for r in res]


def _expected_session(case, obs):
    # the comparison with _observation_session(case, obs) is made inside Coq (C01/RunTok.v run): () = identical
    return "()"


def _toks_after(case, model=False):
    """the non-skipped tokens of every text after the caller changed the argument objects in place: the same as before
    (-> [None (LexicalError) | [[name, value], ...]]): a parser is made from the VALUES of its arguments (since /repo
    f245e65 also of the synonyms / keywords dicts; finding constructor-argument-objects, fixed).
    model=True: what the MODEL is expected to say -- the model follows the source (gen/C01_Consts.v): where the tokenizer
    keeps the caller's own synonyms / keywords dict the names follow the changed dict by the documented naming rule; the
    skip set is always the constructor's.  On today's source both readings coincide; after a revert of f245e65 the model
    (and the implementation) follow the dict, the oracle does not, and the theorem later_dict_changes_do_not_reach_the_parser
    no longer checks."""
    ch = case.get("change") or {}
    cfg, cfg2 = case["cfg"], ch.get("cfg2")
    if cfg is None or not cfg2 or not model:
        return [t["toks"] for t in case["texts"]]
    syn_a, kw_a = _mode()
    if not (syn_a or kw_a):
        return [t["toks"] for t in case["texts"]]
    eff = dict(cfg, syn=cfg2["syn"] if syn_a else cfg["syn"], kw=cfg2["kw"] if kw_a else cfg["kw"])
    skip = set(_cfg_skipset(cfg))
    out = []
    for t in case["texts"]:
        if t["toks"] is None:
            out.append(None)
        else:
            named = [[_rule_name(eff, grp, v, sp), v] for _, v, grp, sp in t["full"]]
            out.append([x for x in named if x[0] not in skip])
    return out


def _sx_toks(toks):
    return SX.err("LexicalError") if toks is None else SX.ok([[SX.s(n), SX.s(v)] for n, v in toks])


def _observation_session(case, obs):
    """the canonical observation (nested lists of ints) of what the implementation did, plus the tokens of every text as
    the generator knows them"""
    if obs["ctor"][0] == "err":
        return SX.err(obs["ctor"][1])
    g = case["g"]
    hyps = not py_fact_problems(g["prods"], g["start"], obs["fg"], obs["sfxs"], obs["terminals"])
    # the tokens of every text as the GENERATOR knows them (the model tokenises the text itself)
    toks = [_sx_toks(t["toks"]) for t in case["texts"]]
    second = []
    if obs.get("second"):
        o2 = obs["second"]
        second = SX.err(o2["ctor"][1]) if o2["ctor"][0] == "err" else [0, o2["amb"], _sx_results(o2["res"]), o2["amb_after"]]
    ch = case.get("change") or {}
    changed = bool(ch.get("after") or ch.get("after2") or ch.get("third"))
    toks_after = [_sx_toks(t) for t in _toks_after(case, model=True)] if changed else []
    third = []
    if obs.get("third"):
        o3 = obs["third"]
        third = SX.err(o3["ctor"][1]) if o3["ctor"][0] == "err" else [0, o3["amb"], _sx_results(o3["res"]), _sx_results(o3["res_after"])]
    return [0, obs["amb"], hyps, toks, _sx_results(obs["res"]), obs["amb_after"], second,
            not obs.get("modified"), toks_after, _sx_results(obs.get("res_after") or []), _sx_results(obs.get("res_after2") or []), third]


ARGS_SIG = "constructor-argument-objects"


def _oracle_session(case, obs):
    out = []
    g = case["g"]
    what = f"grammar {g['prods']} smart={g['smart']}" + (f" tokenizer {json.dumps(case['cfg'])}" if case["cfg"] else "")
    if obs.get("modified"):
        out.append((ARGS_SIG, f"{what}: the library changed the caller's argument object(s) {obs['modified']} (argument, during)"))
    if obs["ctor"][0] != "ok":
        return out
    prods = {nt: alts for nt, alts in g["prods"]}

    def judge(calls, res, ctor_start, label, toks_of, earlier=None):
        for (i, s), r in zip(calls, res):
            if r[0] != "ok":
                continue
            # a wrong tree after the caller changed its objects is blamed on that change when the same call had another answer before
            sig = ARGS_SIG if earlier is not None and earlier.get((i, s), r) != r else "invalid-tree"
            start = ctor_start if s is None else s
            t = case["texts"][i]
            if "__" in start:
                # fixed finding (/repo 2909322): a per-call start symbol with '__' must be rejected, never answered with a tree
                out.append((HELPER_START_SIG, f"{what}: parse({t['text']!r}, start_symbol_name={start!r}) returned a tree rooted at {r[1][1]!r}"))
                continue
            if toks_of[i] is None:
                out.append((sig, f"{what}: {label} parse({t['text']!r}) returned a tree although the text contains a character no token matches / an unclosed span"))
                continue
            probs = L.check_derivation(prods, start, r[1], toks_of[i])
            if probs:
                out.append((sig, f"{what}: {label} call parse({t['text']!r}, start_symbol_name={s!r}): " + "; ".join(probs[:3])))
    toks0 = [t["toks"] for t in case["texts"]]
    judge(case["calls"], obs["res"], g["start"], "first parser,", toks0)
    sec_ok = obs.get("second") and obs["second"]["ctor"][0] == "ok"
    if sec_ok:
        judge(case["second"]["calls"], obs["second"]["res"], case["second"]["start"], "second parser (same productions object),", toks0)
    ch = case.get("change")
    if ch:
        # the grammar and the skip set are those the constructor was given, whatever the caller did to its objects later
        toks1 = _toks_after(case)
        label = f"after the caller changed its argument objects in place ({ch['ops1'] + ch['ops2']}),"
        judge(ch["after"], obs.get("res_after") or [], g["start"], "first parser, " + label, toks1,
              {(i, s): r for (i, s), r in zip(case["calls"], obs["res"])})
        if sec_ok:
            judge(ch["after2"], obs.get("res_after2") or [], case["second"]["start"], "second parser, " + label, toks1,
                  {(i, s): r for (i, s), r in zip(case["second"]["calls"], obs["second"]["res"])})
        th = ch.get("third")
        if th and obs.get("third") and obs["third"]["ctor"][0] == "ok":
            # the parser made from the changed skip container: its leaves are the tokens IT was told not to skip
            t3a, t3b = _toks_third(case, False), _toks_third(case, True)
            if t3a is not None:
                lab3 = f"third parser (made after {ch['ops1']}),"
                judge(th["calls"], obs["third"]["res"], th["start"], lab3, t3a)
                judge(th["after"], obs["third"]["res_after"], th["start"], lab3 + f" after {ch['ops2']},", t3b,
                      {(i, s): r for (i, s), r in zip(th["calls"], obs["third"]["res"])})
    probs = py_fact_problems(g["prods"], g["start"], obs["fg"], obs["sfxs"], obs["terminals"])
    if probs:
        out.append(("factorization-invalid", f"{what}: prods_map {[(s, [r[1] for r in rr]) for s, rr in obs['fg']]} "
                    f"suffix symbols {obs['sfxs']}: " + "; ".join(probs[:3])))
    return out


def _toks_third(case, after):
    """the non-skipped tokens of every text for the third parser, from the generator's token lists; None when they cannot be
    told from those lists (the span matchers were emptied; white space that the lists do not record is no longer skipped)"""
    ch = case["change"]
    cfg = case["cfg"]
    cfg3, xskip = _third_cfg(case)
    if cfg is None:
        return [None if t["toks"] is None else [x for x in t["toks"] if x[0] not in xskip] for t in case["texts"]]
    if cfg3["spans"] != cfg["spans"]:
        return None
    skip0, skip3 = set(_cfg_skipset(cfg)), set(_cfg_skipset(cfg3))
    if skip0 - skip3:
        return None          # something skipped so far is a token now: white space is not in the lists, comments only partly
    # the names are those of the configuration the parser was made from, also after the dicts were changed (after=True)
    return [None if t["toks"] is None else [x[:2] for x in t["full"] if x[0] not in skip3] for t in case["texts"]]


def _shrink_session(case):
    calls = case["calls"]
    if case.get("second"):
        yield dict(case, second=None)
        sc = case["second"]["calls"]
        if len(sc) > 1:
            for j in range(len(sc)):
                yield dict(case, second=dict(case["second"], calls=sc[:j] + sc[j + 1:]))
    if len(calls) > 1:
        for j in range(len(calls)):
            yield dict(case, calls=calls[:j] + calls[j + 1:])
    g = case["g"]
    for i, (nt, alts) in enumerate(g["prods"]):
        if len(alts) > 1:
            for j in range(len(alts)):
                g2 = dict(g)
                g2["prods"] = [list(x) for x in g["prods"]]
                g2["prods"][i] = [nt, alts[:j] + alts[j + 1:]]
                yield dict(case, g=g2)
    # the tokenizer configuration is never shrunk: the expected tokens of the texts depend on it



def kind(case):
    if _is_session(case):
        cfg = case["cfg"]
        ch = case.get("change")
        chg = f" args-changed={int(bool(ch))} third={int(bool(ch and ch.get('third')))}"
        if cfg is None:
            return f"session plain second={int(bool(case.get('second')))}" + chg
        odd = any(c in t["text"] for t in case["texts"] for c in LINE_BREAKISH)
        return (f"session text syn={int(bool(cfg['syn']))} kw={int(bool(cfg['kw']))} "
                f"skip={'default' if cfg['skip'] is None else 'explicit'} second={int(bool(case.get('second')))}" + chg
                + f" odd-line-ends={int(odd)}")
    g = case["g"]
    prods = dict(g["prods"])
    has_prefix = any(a and b and a[0] == b[0] for alts in prods.values() for a, b in zip(alts, alts[1:]))
    has_empty = any(not a for alts in prods.values() for a in alts)
    return f"prefix={int(has_prefix)} empty={int(has_empty)} smart={int(g['smart'])}"


# ------------------------------------------------------------------ implementation side
def impl_run(case):
    """L.impl_run + the factorized grammar (prods_map, _suffix_symbols) of the constructed parser"""
    if _is_session(case):
        return _impl_session(case)
    from ak import llparser
    g = case["g"]
    prods = {nt: [tuple(a) if a else None for a in alts] for nt, alts in g["prods"]}
    try:
        p = llparser.LLParser(L.tokenizer_str(g["terms"]), productions=prods,
                              start_symbol_name=g["start"], smart_factorization=g["smart"])
    except BaseException as e:  # noqa
        if type(e).__name__ == "Hang":
            raise
        return {"ctor": ["err", SX.exc_name(e)]}
    out = {"ctor": ["ok"], "amb": bool(p.is_ambiguous()), "res": [],
           "fg": [[s, [[r.symbol, list(r.production), r.sort_n] for r in rr]] for s, rr in p.prods_map.items()],
           "sfxs": sorted(p._suffix_symbols),
           "terminals": sorted(p.terminals)}
    for inp in case["inputs"]:
        text = " ".join(v for _, v in inp)
        try:
            t = p.parse(text, do_cleanup=False)
            out["res"].append(["ok", L.tree_obs(t)])
        except llparser.Error as e:
            out["res"].append(["err", SX.exc_name(e)])
        except BaseException as e:  # noqa
            if type(e).__name__ == "Hang":
                out["res"].append(["err", "Hang"])
                out["hang_at"] = len(out["res"]) - 1
                while len(out["res"]) < len(case["inputs"]):
                    out["res"].append(["err", "NotRun"])
                return out
            out["res"].append(["err", SX.exc_name(e)])
    return out


# ------------------------------------------------------------------ validator of the factorization (Python re-implementation)
def py_fact_problems(uprods, start, fg, sfxs, terminals):
    """The hypotheses of parse_sound_build checked on the IMPLEMENTATION's prods_map / _suffix_symbols,
    written independently of coq/C01/Spec.v fact_ok: -> list of problems (empty = validated)

    uprods: [[symbol, [alternative, ...]], ...] as the user wrote them;  fg: [[symbol, [[rule symbol, production, sort_n], ...]], ...]"""
    problems = []
    sfx = set(sfxs)
    user = [nt for nt, _ in uprods]
    rules = {}
    for s, rr in fg:
        if s in rules:
            problems.append(f"symbol {s!r} occurs twice in prods_map")
        rules[s] = [list(r[1]) for r in rr]
        for r in rr:
            if any(x in sfx for x in r[1][:-1]):
                problems.append(f"suffix symbol inside production {s!r} -> {r[1]}")
    for nt in user:
        if nt in sfx:
            problems.append(f"user symbol {nt!r} is also a suffix symbol")
    for s in sfx:
        if s in terminals:
            problems.append(f"suffix symbol {s!r} is a terminal")
    if start not in user:
        problems.append(f"start symbol {start!r} is not one of the user's symbols")
    if [s for s, _ in fg if s not in sfx] != user:
        problems.append(f"non-suffix symbols of prods_map {[s for s, _ in fg if s not in sfx]} differ from the user's {user}")

    def expansions(prod, above):
        if prod and prod[-1] in sfx:
            g = prod[-1]
            if g in above:
                raise ValueError(f"suffix symbol {g!r} refers to itself")
            if g not in rules:
                raise ValueError(f"suffix symbol {g!r} has no productions")
            out = []
            for tail in rules[g]:
                for e in expansions(tail, above | {g}):
                    out.append(list(prod[:-1]) + e)
            return out
        return [list(prod)]

    want = {nt: [list(a) for a in alts] for nt, alts in uprods}
    for s, _ in fg:
        if s in sfx:
            continue
        try:
            got = [e for r in rules[s] for e in expansions(r, frozenset())]
        except ValueError as e:
            problems.append(str(e))
            continue
        if got != want.get(s, []):
            problems.append(f"productions of {s!r} expand to {got}, the user wrote {want.get(s, [])}")
    return problems


def _diag(case):
    return bool(case.get("diag"))


def coq_case(case, obs):
    if _is_session(case):
        return _coq_session(case, obs)
    # "Grammar ..." -> "Old (GrammarV <diag> ...)"
    case, obs = _until_hang(case, obs)
    base = L.coq_case(case, obs)
    assert base.startswith("Grammar ")
    return "Old (GrammarV " + SX.cbool(_diag(case)) + base[len("Grammar"):] + ")"


def expected_sx(case, obs):
    if _is_session(case):
        return _expected_session(case, obs)
    if obs["ctor"][0] == "err":
        return SX.dumps(SX.err(obs["ctor"][1]))
    case, obs = _until_hang(case, obs)
    res = []
    for r in obs["res"]:
        res.append(SX.ok(L.tree_sx(r[1])) if r[0] == "ok" else SX.err(r[1]))
    g = case["g"]
    hyps = not py_fact_problems(g["prods"], g["start"], obs["fg"], obs["sfxs"], obs["terminals"])
    diag = []
    if _diag(case):
        diag = [[[SX.s(s), [[SX.s(r[0]), [SX.s(x) for x in r[1]], r[2]] for r in rr]] for s, rr in obs["fg"]],
                [SX.s(x) for x in sorted(obs["sfxs"])]]
    return SX.dumps([0, obs["amb"], hyps, diag, res])


def _reserved_names(g):
    return "__" in g["start"] or any("__" in s for _, alts in g["prods"] for a in alts for s in a)


def oracle(case, obs):
    if "__hang__" in obs:
        return [("ctor-hang", "constructor/parse batch did not return")]
    out = []
    if _is_session(case):
        return _dedup(_oracle_session(case, obs))
    if obs["ctor"][0] != "ok":
        return out
    g = case["g"]
    prods = {nt: alts for nt, alts in g["prods"]}
    # a user grammar that mentions a reserved helper name is the known finding, anything else is new
    sig_tree = "helper-name-in-user-grammar" if _reserved_names(g) else "invalid-tree"
    for inp, r in zip(case["inputs"], obs["res"]):
        if r[0] == "ok":
            probs = L.check_derivation(prods, g["start"], r[1], inp)
            if probs:
                out.append((sig_tree, f"grammar {g['prods']} start {g['start']} smart={g['smart']} input {inp}: " + "; ".join(probs[:3])))
    if not _reserved_names(g):
        probs = py_fact_problems(g["prods"], g["start"], obs["fg"], obs["sfxs"], obs["terminals"])
        if probs:
            out.append(("factorization-invalid", f"grammar {g['prods']} smart={g['smart']}: prods_map {[(s, [r[1] for r in rr]) for s, rr in obs['fg']]} "
                        f"suffix symbols {obs['sfxs']}: " + "; ".join(probs[:3])))
    return _dedup(out)


def _dedup(out):
    # at most one report per signature
    seen, res = set(), []
    for sig, msg in out:
        if sig not in seen:
            seen.add(sig)
            res.append((sig, msg))
    return res


def in_model(case, obs):
    return "__hang__" not in obs


def nontrivial(case, obs):
    if "__hang__" in obs or obs["ctor"][0] != "ok":
        return False
    if _is_session(case):
        return any(r[0] == "ok" for r in obs["res"]) and len(case["calls"]) > len(case["texts"])
    k = kind(case)
    return ("prefix=1" in k or "empty=1" in k) and any(r[0] == "ok" for r in obs["res"])


def outcome(case, obs):
    if "__hang__" in obs:
        return "hang"
    if obs["ctor"][0] != "ok":
        return "ctor:" + obs["ctor"][1]
    n_ok = sum(1 for r in obs["res"] if r[0] == "ok")
    return f"ctor:ok amb={int(obs['amb'])} parsed={'some' if n_ok else 'none'}"


def shrink_candidates(case):
    if _is_session(case):
        yield from _shrink_session(case)
        return
    g = case["g"]
    # fewer inputs
    if len(case["inputs"]) > 1:
        for i in range(len(case["inputs"])):
            yield {"g": g, "inputs": [case["inputs"][i]]}
    # drop an alternative
    for i, (nt, alts) in enumerate(g["prods"]):
        if len(alts) > 1:
            for j in range(len(alts)):
                g2 = dict(g)
                g2["prods"] = [list(x) for x in g["prods"]]
                g2["prods"][i] = [nt, alts[:j] + alts[j + 1:]]
                yield {"g": g2, "inputs": case["inputs"]}


TECHNIQUE = ("Coq proof over a hand-written Gallina model of the parser (stack-machine invariant + induction on the iteration "
             "budget for the parse loop; rule induction on the factorization's result and a loop invariant with a multiset "
             "(Permutation) account of suffix-symbol references for the smart undo; an executable validator proved sound for the "
             "parse loop and complete for the factorization) + per-run correspondence (vm_compute vs implementation) + an "
             "independent Python oracle and a Python re-implementation of the validator run on the implementation's prods_map")
LEVEL_TEXT = ("Full (model level; all user grammars, all token lists, all iteration budgets, both smart_factorization settings). "
              "parse_sound_constructor: whenever the constructor model build accepts (ug, terminals, smart, start) and p_parse "
              "returns a tree for tokens body ++ [$END$], the root is the start symbol, every inner node with the names of its "
              "children is one of the USER's productions of that symbol (childless node = empty production), no suffix (helper) "
              "symbol names any node or leaf, leaves are named by terminals and inner nodes by non-terminals, and the leaves are "
              "exactly body (names and values, in order).  It is assembled from: parse_sound / parse_sound_tokens (the loop, for ANY "
              "table contained in the factorized grammar and any grammar accepted by the validator fact_ok), table_sub (the built "
              "table is contained in the grammar), factorize_ok (fact_ok accepts the result of _factorize_productions for every "
              "user grammar, with and without the smart undo: expanding suffix symbols gives back exactly the user's productions "
              "in order, helper names fresh, suffix symbols only last), factorize_fails_only_by_assertion (the modelled "
              "factorization never runs out of fuel; it fails exactly by the code's assertions), build_hyps_ok.  Examples: parse_sound_build_nonvacuous "
              "(nested common prefixes, nullable symbol, roll-back, both smart values), reserved_name_*_rejected.  Not claimed by "
              "a theorem, only by the per-run correspondence: that the model is the code (trees, is_ambiguous, prods_map, suffix "
              "symbols and error classes agree on every generated case; the Python validator is applied to the implementation's "
              "own prods_map), ProdsTemplate grammars (C05).  "
              "PropsTok.v (token_filter clause, full at model level): parse_text_sound: for every tokenizer configuration (ordered "
              "pattern alternatives, span tokens, synonyms, keywords), every skip_tokens argument, grammar, text and per-call start "
              "symbol (None or any name), if the constructor accepts and parse(text) returns a tree then the text was "
              "tokenised completely, every token is the product of a pattern match named by synonyms-then-keywords of its own "
              "class (span tokens: synonym only), and the leaves are exactly the tokens whose final name is not in skip_tokens, "
              "names and values, in order; root = the start symbol of the call; valid_tree, no_helper, kinds_ok as above.  "
              "token_names_are_terminals, parse_at_sound (parse on a token list with any per-call start symbol, no hypothesis on "
              "it), per_call_dunder_start_rejected (a per-call start symbol with '__' -- every helper symbol -- is answered with "
              "AssertionError for every parser and input), parse_sound_at (the loop started at any non-helper symbol), "
              "start_without_dunder_is_no_helper.  Examples: parse_text_sound_nonvacuous (keywords on renamed classes, a decoy "
              "entry, skipped non-renamed class, comments, a common-prefix group, a LexicalError, a per-call start symbol), "
              "per_call_helper_start_rejected (regression shape of the fixed finding helper-start-symbol-per-call: S__S00 is a key "
              "of prods_map and is rejected; the oracle reports any tree obtained with such a start symbol).  State between parse() calls and between parsers made from the same productions object is not a "
              "theorem (the model is a pure function): it is tested by the sessions of the correspondence run.  "
              "text_is_cut_at_newlines_only / text_without_newline_is_one_line: a text that is lines joined by newlines is tokenised "
              "from exactly these lines (rstripped), whatever other characters they contain (FF, VT, lone CR, NEL, U+2028 ... stay "
              "inside the token that matches them); Example odd_characters_stay_inside_tokens.  "
              "PropsArgs.v: later_dict_changes_do_not_reach_the_parser / calls_after_the_change_answer_as_before: the configuration with which the "
              "model tokenises after the caller changed its synonyms / keywords dicts in place is the constructor's -- proved from the "
              "constants syn_aliased = kw_aliased = false that are regenerated from the source on every run (the proof breaks when "
              "the tokenizer keeps the caller's dicts again).  That the other argument objects (skip_tokens container, productions, "
              "span_matchers, keep_symbols) are copied / never modified is tested by the sessions, not proved.")
LEVEL_NOTE = ("Trusted: Coq kernel + vm_compute; fidelity of the hand model coq/LLP (checked by correspondence on every run, not "
              "proved); the token list handed to the model equals the implementation's non-skipped tokens; the harness.  Finding "
              "fixed during this work: reserved '__' names were accepted inside productions and as start symbol (/repo 6e22989), "
              "regression cases in corpus/C01; parse(text, start_symbol_name='X__S00') returned a tree rooted at a helper symbol "
              "(/repo 2909322), regression calls in corpus/C01/tokenizer_sessions.json; the tokenizer kept the caller's synonyms / "
              "keywords dicts, so a later change of them changed the token names of an existing parser (constructor-argument-objects, "
              "/repo f245e65), regression case in corpus/C01/argument_objects_and_line_ends.json.  The tokenizer model coq/C04/Model.v is imported (not owned) by C01/RunTok.v.")
DESIGN_REF = "DESIGN.md section 8, C01 and Appendix A"
