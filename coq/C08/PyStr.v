(* C08/PyStr.v -- the few pieces of Python sequence/str semantics the model of
   ak/color.py needs, over lists of any element type (a str is a [list Z] of
   code points; the specification side uses lists of coloured characters).
   Definitions only; the facts about them are in C08/LemmasPy.v. *)
From Coq Require Import ZArith List Bool.
From AK Require Import Common.Err.
Import ListNotations.
Open Scope Z_scope.

Definition zlen {A} (l : list A) : Z := Z.of_nat (length l).

(* PySlice_AdjustIndices for step 1: a bound is None, or an int that is taken
   relative to the end when negative, then clamped into [0, n] *)
Definition adj (n : Z) (o : option Z) (dflt : Z) : Z :=
  match o with
  | None => dflt
  | Some i => if i <? 0 then Z.max 0 (n + i) else Z.min i n
  end.

(* l[a:b] *)
Definition py_slice {A} (l : list A) (a b : option Z) : list A :=
  let n := zlen l in
  let lo := adj n a 0 in
  let hi := adj n b n in
  firstn (Z.to_nat (hi - lo)) (skipn (Z.to_nat lo) l).

(* l[i] : IndexError outside [-n, n) *)
Definition py_index {A} (l : list A) (i : Z) : res A :=
  let j := if i <? 0 then zlen l + i else i in
  if j <? 0 then Err IndexErr
  else match nth_error l (Z.to_nat j) with
       | Some x => Ok x
       | None => Err IndexErr
       end.

Fixpoint str_eqb (a b : list Z) : bool :=
  match a, b with
  | [], [] => true
  | x :: a', y :: b' => (x =? y) && str_eqb a' b'
  | _, _ => false
  end.

Definition is_nil {A} (l : list A) : bool := match l with [] => true | _ => false end.

(* ch * n  (n <= 0 gives "") *)
Definition rep {A} (x : A) (n : Z) : list A := repeat x (Z.to_nat n).

(* ---- int(s) for a str s, base 10, ASCII only:
   optional surrounding white space, optional sign, digits with single
   underscores between digits.  None = ValueError.
   (Unicode decimal digits / white space are outside the model.) *)
Definition is_digit (c : Z) : bool := (48 <=? c) && (c <=? 57).
Definition is_space (c : Z) : bool := ((9 <=? c) && (c <=? 13)) || (c =? 32) || ((28 <=? c) && (c <=? 31)).

Fixpoint lstrip (s : list Z) : list Z :=
  match s with
  | c :: r => if is_space c then lstrip r else s
  | [] => []
  end.
Definition strip (s : list Z) : list Z := rev (lstrip (rev (lstrip s))).

(* digits with underscores: [prev_digit] = the previous character was a digit *)
Fixpoint int_digits (s : list Z) (prev_digit : bool) (acc : Z) : option Z :=
  match s with
  | [] => if prev_digit then Some acc else None
  | c :: r =>
      if is_digit c then int_digits r true (acc * 10 + (c - 48))
      else if (c =? 95) && prev_digit then
             match r with
             | d :: _ => if is_digit d then int_digits r false acc else None
             | [] => None
             end
           else None
  end.

Definition py_int (s : list Z) : option Z :=
  match strip s with
  | [] => None
  | c :: r =>
      if c =? 45 then option_map Z.opp (int_digits r false 0)
      else if c =? 43 then int_digits r false 0
      else int_digits (c :: r) false 0
  end.
