(* C13/LemReach.v -- every state a table can reach through the constructor,
   the fmt setter, printing and remove_columns meets the hypotheses of the
   round-trip theorems (well-formed, coherent) *)
From Coq Require Import ZArith List Bool Lia.
From AK Require Import Common.Sx Common.Err C13.Model C13.LemStr C13.LemFmt C13.LemState C13.LemView.
Import ListNotations.
Open Scope Z_scope.

Definition field_okb (f : field) : bool :=
  name_okb (f_name f) && forallb modstr_okb (f_mods f) && (0 <=? f_min f) && (0 <=? f_max f).
Definition fields_okb (fs : list field) : bool :=
  negb (has_dup (map f_name fs)) && forallb field_okb fs.

(* ------------------------------------------------------------------ *)
(* widths produced by the parser: absent, the hidden mark -1/-1, or >= 0 *)
Definition pw_okb (p : pcol) : bool :=
  match p_min p, p_max p with
  | None, None => true
  | Some a, Some b => ((a =? -1) && (b =? -1)) || ((0 <=? a) && (0 <=? b))
  | _, _ => false
  end.

Lemma split_on_lacks d s : forallb (lacks d) (split_on d s) = true.
Proof.
  induction s as [|c r IH]; [reflexivity|]. cbn [split_on].
  destruct (c =? d) eqn:E.
  - cbn [forallb]. rewrite IH. reflexivity.
  - destruct (split_on d r) as [|p ps]; cbn [forallb] in *.
    + rewrite lacks_cons. rewrite Z.eqb_sym, E. reflexivity.
    + apply andb_prop in IH as [H1 H2]. rewrite lacks_cons, H1, H2. rewrite Z.eqb_sym, E. reflexivity.
Qed.

Lemma lacks_dropw d p s : lacks d s = true -> lacks d (dropw p s) = true.
Proof.
  induction s as [|c r IH]; [reflexivity|]. intros H. cbn [dropw]. destruct (p c); [|exact H].
  rewrite lacks_cons in H. apply andb_prop in H as [_ H]. apply IH. exact H.
Qed.

Lemma lacks_rev d s : lacks d s = true -> lacks d (rev s) = true.
Proof.
  unfold lacks, none_of. rewrite !forallb_forall. intros H x Hx. apply H. apply in_rev. exact Hx.
Qed.

Lemma lacks_strip d p s : lacks d s = true -> lacks d (strip_with p s) = true.
Proof. intros H. unfold strip_with. apply lacks_rev, lacks_dropw, lacks_rev, lacks_dropw, H. Qed.

Lemma digits_acc_nonneg s : forall acc pd n, 0 <= acc -> digits_acc s acc pd = Some n -> 0 <= n.
Proof.
  induction s as [|c r IH]; intros acc pd n Ha; cbn [digits_acc].
  - destruct pd; [|discriminate]. intros H. inversion H. lia.
  - destruct (c =? ch_us).
    + destruct pd; [|discriminate]. apply IH. exact Ha.
    + destruct ((48 <=? c) && (c <=? 57)) eqn:E; [|discriminate].
      apply andb_prop in E as [E1 E2]. apply Z.leb_le in E1, E2. apply IH. lia.
Qed.

Lemma int_of_str_nonneg s n : lacks ch_minus s = true -> int_of_str s = Ok n -> 0 <= n.
Proof.
  intros Hl. unfold int_of_str. pose proof (lacks_strip ch_minus is_space_int s Hl) as Ht.
  destruct (strip_with is_space_int s) as [|c r].
  - cbn. discriminate.
  - rewrite lacks_cons in Ht. apply andb_prop in Ht as [Hc _]. apply negb_true_iff in Hc.
    rewrite Z.eqb_sym in Hc. rewrite Hc.
    destruct (c =? ch_plus).
    + destruct (digits_acc r 0 false) as [m|] eqn:E; [|discriminate].
      intros H. inversion H. subst. apply (digits_acc_nonneg r 0 false); [lia|exact E].
    + destruct (digits_acc (c :: r) 0 false) as [m|] eqn:E; [|discriminate].
      intros H. inversion H. subst. apply (digits_acc_nonneg (c :: r) 0 false); [lia|exact E].
Qed.

Lemma map_res_ints l : forall out, forallb (lacks ch_minus) l = true ->
  map_res int_of_str l = Ok out -> Forall (fun x => 0 <= x) out.
Proof.
  induction l as [|s r IH]; intros out Hl; cbn [map_res].
  - intros H. inversion H. constructor.
  - cbn [forallb] in Hl. apply andb_prop in Hl as [H1 H2].
    destruct (int_of_str s) as [a|] eqn:E; [|discriminate].
    destruct (map_res int_of_str r) as [ys|] eqn:E2; [|discriminate].
    intros H. inversion H. subst. constructor; [apply (int_of_str_nonneg s a H1 E)|apply (IH ys H2 eq_refl)].
Qed.

Lemma nonneg_leb x : 0 <= x -> (0 <=? x) = true.
Proof. intros H. apply Z.leb_le. exact H. Qed.

Lemma parse_width_ok w mn mx : parse_width w = Ok (mn, mx) ->
  pw_okb (mkPcol [] None false None mn mx) = true.
Proof.
  unfold parse_width, pw_okb. cbn [p_min p_max].
  destruct (str_eqb w [ch_minus; 49]); [intros H; inversion H; reflexivity|].
  destruct w as [|x y]; [intros H; inversion H; reflexivity|].
  set (w1 := if ends_with ch_rpar (x :: y) then _ else _).
  destruct (2 <? Z.of_nat (length (split_on ch_minus w1))); [discriminate|].
  destruct (map_res int_of_str (split_on ch_minus w1)) as [out|] eqn:E; [|discriminate].
  pose proof (map_res_ints _ out (split_on_lacks ch_minus w1) E) as Hout.
  destruct out as [|a [|b [|c r]]]; try discriminate.
  - inversion Hout; subst. intros H; inversion H; subst. rewrite (nonneg_leb _ H1). apply orb_true_r.
  - inversion Hout as [|? ? Ha Hr]; subst. inversion Hr as [|? ? Hb _]; subst.
    intros H; inversion H; subst. rewrite (nonneg_leb _ Ha), (nonneg_leb _ Hb). apply orb_true_r.
  - inversion Hout; subst. intros H; inversion H; subst. rewrite (nonneg_leb _ H1). apply orb_true_r.
Qed.

Lemma parse_col_ok s p : parse_col s = Ok p -> pw_okb p = true.
Proof.
  unfold parse_col.
  destruct (map strip (split_on ch_colon s)) as [|f0 rest]; [discriminate|].
  destruct rest as [|w [|z rest']]; try discriminate.
  - destruct (find_arrow f0) as [[a b]|];
      match goal with |- context [find_char ch_slash ?x] => destruct (find_char ch_slash x) as [[? ?]|] end;
      destruct (parse_width []) as [[mn mx]|] eqn:E; try discriminate;
      intros H; inversion H; apply (parse_width_ok _ _ _ E).
  - destruct (find_arrow f0) as [[a b]|];
      match goal with |- context [find_char ch_slash ?x] => destruct (find_char ch_slash x) as [[? ?]|] end;
      destruct (parse_width w) as [[mn mx]|] eqn:E; try discriminate;
      intros H; inversion H; apply (parse_width_ok _ _ _ E).
Qed.

Lemma map_res_parse_ok l : forall out, map_res parse_col l = Ok out -> forallb pw_okb out = true.
Proof.
  induction l as [|s r IH]; intros out; cbn [map_res].
  - intros H; inversion H; reflexivity.
  - destruct (parse_col s) as [p|] eqn:E; [|discriminate].
    destruct (map_res parse_col r) as [ps|] eqn:E2; [|discriminate].
    intros H; inversion H; subst. cbn [forallb]. rewrite (parse_col_ok s p E). apply (IH ps eq_refl).
Qed.

Lemma parse_fmt_ok s l vis : parse_fmt s = Ok (PList l, vis) -> forallb pw_okb l = true.
Proof.
  unfold parse_fmt. destruct (3 <? _); [discriminate|].
  destruct (parse_cols (nth 0 (split_on ch_semi s) [])) as [pc|] eqn:E; [|discriminate].
  destruct (parse_vis _); [|discriminate]. intros H; inversion H; subst.
  unfold parse_cols in E. destruct (nth 0 (split_on ch_semi s) []) as [|x y]; [discriminate|].
  destruct (str_eqb (x :: y) [ch_star]); [discriminate|].
  destruct (map_res parse_col (split_on ch_comma (x :: y))) as [out|] eqn:E2; [|discriminate].
  inversion E; subst. apply (map_res_parse_ok _ _ E2).
Qed.

(* ------------------------------------------------------------------ *)
(* columns built from parsed descriptions are well formed *)
Lemma get_field_in fs n f : get_field fs n = Some f -> In f fs.
Proof.
  induction fs as [|g r IH]; [discriminate|]. cbn [get_field].
  destruct (str_eqb (f_name g) n); [intros H; inversion H; left; reflexivity|].
  intros H. right. apply IH, H.
Qed.

Lemma get_field_some fs f : In f fs -> exists f', get_field fs (f_name f) = Some f'.
Proof.
  induction fs as [|g r IH]; [intros []|]. intros [->|H]; cbn [get_field].
  - rewrite str_eqb_refl. eexists; reflexivity.
  - destruct (str_eqb (f_name g) (f_name f)); [eexists; reflexivity|apply IH, H].
Qed.

Lemma field_ok_in fs f : forallb field_okb fs = true -> In f fs -> field_okb f = true.
Proof. intros H Hin. rewrite forallb_forall in H. apply H, Hin. Qed.

Lemma mk_column_wf' fs n f m b mn mx c :
  forallb field_okb fs = true -> get_field fs n = Some f ->
  match mn with Some a => 0 <= a | None => True end ->
  match mx with Some a => 0 <= a | None => True end ->
  mk_column f m b mn mx = Ok c -> wf_col fs c = true.
Proof.
  intros Hfs Hg Hmn Hmx. unfold mk_column. destruct (mod_ok f m) eqn:Em; [|discriminate].
  intros H; inversion H; subst c; clear H.
  pose proof (field_ok_in fs f Hfs (get_field_in _ _ _ Hg)) as Hf.
  unfold field_okb in Hf. apply andb_prop in Hf as [Hf Hmaxf]. apply andb_prop in Hf as [Hf Hminf].
  apply andb_prop in Hf as [Hnm Hmods]. apply Z.leb_le in Hmaxf, Hminf.
  unfold wf_col, col_okb. cbn [c_name c_mod c_min c_max].
  rewrite (get_field_name _ _ _ Hg) in *. rewrite <- (get_field_name _ _ _ Hg) at 2.
  assert (get_field fs (f_name f) = Some f) as -> by (rewrite (get_field_name _ _ _ Hg); exact Hg).
  rewrite Em, Hnm.
  assert (match m with None => true | Some x => modstr_okb x end = true) as ->.
  { destruct m as [x|]; [|reflexivity]. cbn [mod_ok] in Em. apply existsb_exists in Em as (y & Hy & Exy).
    apply str_eqb_eq in Exy. subst y. rewrite forallb_forall in Hmods. apply Hmods, Hy. }
  assert (0 <= dflt mn (f_min f)) as H1 by (destruct mn; cbn [dflt]; lia).
  assert (0 <= dflt mx (f_max f)) as H2 by (destruct mx; cbn [dflt]; lia).
  rewrite (nonneg_leb _ H1), (nonneg_leb _ H2). reflexivity.
Qed.

Lemma pw_cases p : pw_okb p = true ->
  (p_min p = None /\ p_max p = None) \/
  (p_min p = Some (-1) /\ p_max p = Some (-1)) \/
  (exists a b, p_min p = Some a /\ p_max p = Some b /\ 0 <= a /\ 0 <= b).
Proof.
  unfold pw_okb. destruct (p_min p) as [a|], (p_max p) as [b|]; try discriminate; [|left; split; reflexivity].
  intros H. apply orb_prop in H as [H|H]; apply andb_prop in H as [H1 H2].
  - apply Z.eqb_eq in H1, H2. subst. right; left; split; reflexivity.
  - apply Z.leb_le in H1, H2. right; right. exists a, b. repeat split; assumption.
Qed.

Lemma setter_cols_wf fs l : forall cs, forallb field_okb fs = true -> forallb pw_okb l = true ->
  setter_cols fs l = Ok cs -> forallb (wf_col fs) cs = true.
Proof.
  induction l as [|p r IH]; intros cs Hfs Hl; cbn [setter_cols].
  - intros H; inversion H; reflexivity.
  - cbn [forallb] in Hl. apply andb_prop in Hl as [Hp Hr].
    destruct (get_field fs (p_name p)) as [f|] eqn:Eg; [|discriminate].
    destruct (pw_cases p Hp) as [[E1 E2]|[[E1 E2]|(a & b & E1 & E2 & Ha & Hb)]]; rewrite E1, E2; cbn [is_neg andb].
    + destruct (mk_column f (p_mod p) (p_break p) None None) as [c|] eqn:Ec; [|discriminate].
      destruct (setter_cols fs r) as [cs'|] eqn:Er; [|discriminate].
      intros H; inversion H; subst. cbn [forallb].
      rewrite (mk_column_wf' fs _ f _ _ None None c Hfs Eg I I Ec). apply (IH cs' Hfs Hr eq_refl).
    + change (-1 <? 0) with true. cbn [andb]. apply (IH cs Hfs Hr).
    + replace (a <? 0) with false by (symmetry; apply Z.ltb_ge; exact Ha). cbn [andb].
      destruct (mk_column f (p_mod p) (p_break p) (Some a) (Some b)) as [c|] eqn:Ec; [|discriminate].
      destruct (setter_cols fs r) as [cs'|] eqn:Er; [|discriminate].
      intros H; inversion H; subst. cbn [forallb].
      rewrite (mk_column_wf' fs _ f _ _ (Some a) (Some b) c Hfs Eg Ha Hb Ec). apply (IH cs' Hfs Hr eq_refl).
Qed.

Lemma ctor_cols_wf fs l : forall cs, forallb field_okb fs = true -> forallb pw_okb l = true ->
  ctor_cols fs l = Ok cs -> forallb (wf_col fs) cs = true.
Proof.
  induction l as [|p r IH]; intros cs Hfs Hl; cbn [ctor_cols].
  - intros H; inversion H; reflexivity.
  - cbn [forallb] in Hl. apply andb_prop in Hl as [Hp Hr].
    destruct (pw_cases p Hp) as [[E1 E2]|[[E1 E2]|(a & b & E1 & E2 & Ha & Hb)]]; rewrite ?E1, ?E2; cbn [is_neg].
    + destruct (get_field fs (p_name p)) as [f|] eqn:Eg; [|discriminate].
      destruct (mk_column f (p_mod p) (p_break p) None None) as [c|] eqn:Ec; [|discriminate].
      destruct (ctor_cols fs r) as [cs'|] eqn:Er; [|discriminate].
      intros H; inversion H; subst. cbn [forallb].
      rewrite (mk_column_wf' fs _ f _ _ None None c Hfs Eg I I Ec). apply (IH cs' Hfs Hr eq_refl).
    + change (-1 <? 0) with true. cbn iota. apply (IH cs Hfs Hr).
    + replace (b <? 0) with false by (symmetry; apply Z.ltb_ge; exact Hb).
      destruct (get_field fs (p_name p)) as [f|] eqn:Eg; [|discriminate].
      destruct (mk_column f (p_mod p) (p_break p) (Some a) (Some b)) as [c|] eqn:Ec; [|discriminate].
      destruct (ctor_cols fs r) as [cs'|] eqn:Er; [|discriminate].
      intros H; inversion H; subst. cbn [forallb].
      rewrite (mk_column_wf' fs _ f _ _ (Some a) (Some b) c Hfs Eg Ha Hb Ec). apply (IH cs' Hfs Hr eq_refl).
Qed.

Lemma default_cols_wf fs : forallb field_okb fs = true ->
  forallb (wf_col fs) (map default_col fs) = true.
Proof.
  intros Hfs. apply forallb_forall. intros c Hc. apply in_map_iff in Hc as (f & <- & Hf).
  pose proof (field_ok_in fs f Hfs Hf) as Hok.
  unfold field_okb in Hok. apply andb_prop in Hok as [Hok Hmaxf]. apply andb_prop in Hok as [Hok Hminf].
  apply andb_prop in Hok as [Hnm _].
  destruct (get_field_some fs f Hf) as (f' & Eg).
  unfold wf_col, col_okb, default_col. cbn [c_name c_mod c_min c_max].
  rewrite Eg, Hnm, Hminf, Hmaxf. reflexivity.
Qed.

Lemma wf_col_keeps g fs cs : keeps g -> forallb (wf_col fs) cs = true -> forallb (wf_col fs) (map g cs) = true.
Proof.
  intros Hg H. apply forallb_forall. intros c Hc. apply in_map_iff in Hc as (c0 & <- & Hc0).
  rewrite forallb_forall in H. specialize (H c0 Hc0).
  destruct (Hg c0) as (E1 & E2 & E3 & E4 & E5).
  unfold wf_col, col_okb in *. rewrite E1, E2, E4, E5. exact H.
Qed.

Lemma forallb_filter {A} (p q : A -> bool) l : forallb p l = true -> forallb p (filter q l) = true.
Proof.
  intros H. apply forallb_forall. intros x Hx. apply filter_In in Hx as [Hx _].
  rewrite forallb_forall in H. apply H, Hx.
Qed.

(* ------------------------------------------------------------------ *)
(* the operations keep the invariant *)
Definition fresh_state (t : tstate) : Prop := fresh t = true /\ t_skipped t = None.

Definition inv (fs : list field) (t : tstate) : Prop :=
  t_fields t = fs /\ wf t = true.

Lemma wf_intro fs cs lf ll sk : fields_okb fs = true -> forallb (wf_col fs) cs = true ->
  wf (mkT fs cs lf ll sk) = true.
Proof.
  unfold fields_okb, wf. intros H Hc. apply andb_prop in H as [H _]. cbn [t_fields t_cols]. rewrite H, Hc. reflexivity.
Qed.

Lemma fresh_filter q cs :
  forallb (fun c => match c_width c with None => true | Some _ => false end) cs = true ->
  forallb (fun c => match c_width c with None => true | Some _ => false end) (filter q cs) = true.
Proof. apply forallb_filter. Qed.

Lemma fresh_map_clone (cs : list column) :
  forallb (fun c => match c_width c with None => true | Some _ => false end) (map clone_col cs) = true.
Proof. induction cs as [|c r IH]; [reflexivity|]. cbn. exact IH. Qed.

Lemma fresh_default (fs : list field) :
  forallb (fun c => match c_width c with None => true | Some _ => false end) (map default_col fs) = true.
Proof. induction fs as [|c r IH]; [reflexivity|]. cbn. exact IH. Qed.

Lemma mk_column_fresh f m b mn mx c : mk_column f m b mn mx = Ok c -> c_width c = None.
Proof. unfold mk_column. destruct (mod_ok f m); [|discriminate]. intros H; inversion H; reflexivity. Qed.

Lemma setter_cols_fresh fs l : forall cs, setter_cols fs l = Ok cs ->
  forallb (fun c => match c_width c with None => true | Some _ => false end) cs = true.
Proof.
  induction l as [|p r IH]; intros cs; cbn [setter_cols]; [intros H; inversion H; reflexivity|].
  destruct (get_field fs (p_name p)) as [f|]; [|discriminate].
  destruct (is_neg (p_min p) && is_neg (p_max p)); [apply IH|].
  destruct (mk_column f _ _ _ _) as [c|] eqn:Ec; [|discriminate].
  destruct (setter_cols fs r) as [cs'|]; [|discriminate].
  intros H; inversion H; subst. cbn [forallb]. rewrite (mk_column_fresh _ _ _ _ _ _ Ec). apply (IH cs' eq_refl).
Qed.

Lemma ctor_cols_fresh fs l : forall cs, ctor_cols fs l = Ok cs ->
  forallb (fun c => match c_width c with None => true | Some _ => false end) cs = true.
Proof.
  induction l as [|p r IH]; intros cs; cbn [ctor_cols]; [intros H; inversion H; reflexivity|].
  destruct (is_neg (p_max p)); [apply IH|].
  destruct (get_field fs (p_name p)) as [f|]; [|discriminate].
  destruct (mk_column f _ _ _ _) as [c|] eqn:Ec; [|discriminate].
  destruct (ctor_cols fs r) as [cs'|]; [|discriminate].
  intros H; inversion H; subst. cbn [forallb]. rewrite (mk_column_fresh _ _ _ _ _ _ Ec). apply (IH cs' eq_refl).
Qed.

Theorem set_fmt_inv fs t s t' : fields_okb fs = true -> inv fs t -> set_fmt t s = Ok t' ->
  inv fs t' /\ fresh_state t'.
Proof.
  intros Hfs [Ef Hwf]. unfold set_fmt.
  destruct (parse_fmt s) as [[pc vis]|] eqn:Ep; [|discriminate].
  pose proof Hfs as Hfs'. unfold fields_okb in Hfs'. apply andb_prop in Hfs' as [_ Hfo].
  unfold wf in Hwf. apply andb_prop in Hwf as [_ Hcols]. rewrite Ef in *.
  assert (forall cs lf ll, forallb (wf_col fs) cs = true ->
            forallb (fun c => match c_width c with None => true | Some _ => false end) cs = true ->
            inv fs (mkT fs cs lf ll None) /\ fresh_state (mkT fs cs lf ll None)) as Hmk.
  { intros cs lf ll H1 H2. split; [split; [reflexivity|apply wf_intro; assumption]|split; [exact H2|reflexivity]]. }
  destruct pc as [| |l].
  - destruct (match vis with Some v => v | None => (t_lf t, t_ll t) end) as [lf ll].
    intros H; injection H as <-. apply Hmk; [apply wf_col_keeps; [apply keeps_clone|exact Hcols]|apply fresh_map_clone].
  - destruct (match vis with Some v => v | None => (t_lf t, t_ll t) end) as [lf ll].
    intros H; injection H as <-. apply Hmk; [apply default_cols_wf; exact Hfo|apply fresh_default].
  - destruct (setter_cols fs l) as [cs|] eqn:Ec; [|discriminate].
    destruct (match vis with Some v => v | None => (t_lf t, t_ll t) end) as [lf ll].
    intros H; injection H as <-. apply Hmk.
    + apply (setter_cols_wf fs l cs Hfo (parse_fmt_ok _ _ _ Ep) Ec).
    + apply (setter_cols_fresh fs l cs Ec).
Qed.

(* remove_columns: nothing changes, or the result carries no negotiated state *)
Lemma remove_cases t names :
  remove_columns t names = t \/
  remove_columns t names =
    mkT (t_fields t) (map clone_col (filter (fun c => negb (existsb (str_eqb (c_name c)) names)) (t_cols t)))
        (t_lf t) (t_ll t) None.
Proof. unfold remove_columns. destruct (Nat.eqb _ _); [left|right]; reflexivity. Qed.

Theorem remove_inv fs t names : inv fs t -> inv fs (remove_columns t names).
Proof.
  intros [Ef Hwf]. destruct (remove_cases t names) as [->| ->]; [split; assumption|].
  split; [exact Ef|]. unfold wf in *. apply andb_prop in Hwf as [H1 H2].
  cbn [t_fields t_cols]. rewrite H1. cbn [andb].
  apply wf_col_keeps; [apply keeps_clone|]. apply forallb_filter. exact H2.
Qed.

Theorem remove_fresh t names : fresh_state t -> fresh_state (remove_columns t names).
Proof.
  intros Hf. destruct (remove_cases t names) as [->| ->]; [exact Hf|].
  split; [apply fresh_map_clone|reflexivity].
Qed.

(* whatever the table stored: unchanged, or fresh *)
Theorem remove_coherent rows t names : coherent rows t -> coherent rows (remove_columns t names).
Proof.
  intros Hc. destruct (remove_cases t names) as [->| ->]; [exact Hc|].
  left. split; [apply fresh_map_clone|reflexivity].
Qed.

Theorem set_limits_inv fs t lim : inv fs t -> inv fs (set_limits t lim).
Proof.
  intros [Ef Hwf]. destruct lim as [[lf ll]|]; [|split; assumption]. cbn [set_limits].
  split; [exact Ef|]. unfold wf in *. apply andb_prop in Hwf as [H1 H2].
  cbn [t_fields t_cols]. rewrite H1. cbn [andb]. apply wf_col_keeps; [apply keeps_clone|exact H2].
Qed.

Theorem set_limits_coherent rows t lim : coherent rows t -> coherent rows (set_limits t lim).
Proof.
  intros Hc. destruct lim as [[lf ll]|]; [|exact Hc]. cbn [set_limits].
  left. split; [apply fresh_map_clone|reflexivity].
Qed.

Theorem ctor_inv fs s lim skip t : fields_okb fs = true -> ctor fs s lim skip = Ok t ->
  inv fs t /\ fresh_state t.
Proof.
  intros Hfs. unfold ctor.
  destruct (parse_fmt _) as [[pc vis]|] eqn:Ep; [|discriminate].
  destruct (has_dup (map f_name fs)); [discriminate|].
  pose proof Hfs as Hfs'. unfold fields_okb in Hfs'. apply andb_prop in Hfs' as [_ Hfo].
  assert (forall cs, forallb (wf_col fs) cs = true ->
            forallb (fun c => match c_width c with None => true | Some _ => false end) cs = true ->
            (let '(lf, ll) := match vis with Some v => v | None => (None, None) end in
             let '(lf0, ll0) := match lim with Some v => v | None => (lf, ll) end in
             Ok (match skip with
                 | Some names => remove_columns (mkT fs cs lf0 ll0 None) names
                 | None => mkT fs cs lf0 ll0 None end)) = Ok t -> inv fs t /\ fresh_state t) as Hmk.
  { intros cs H1 H2.
    destruct (match vis with Some v => v | None => (None, None) end) as [lf ll].
    destruct (match lim with Some v => v | None => (lf, ll) end) as [lf0 ll0].
    assert (inv fs (mkT fs cs lf0 ll0 None) /\ fresh_state (mkT fs cs lf0 ll0 None)) as [Hi Hf].
    { split; [split; [reflexivity|apply wf_intro; assumption]|split; [exact H2|reflexivity]]. }
    destruct skip as [names|]; intros H; inversion H; subst.
    - split; [apply remove_inv, Hi|apply remove_fresh, Hf].
    - split; assumption. }
  destruct pc as [| |l].
  - apply Hmk; [apply default_cols_wf; exact Hfo|apply fresh_default].
  - apply Hmk; [apply default_cols_wf; exact Hfo|apply fresh_default].
  - destruct (existsb _ l); [discriminate|].
    destruct (ctor_cols fs l) as [cs|] eqn:Ec; [|discriminate].
    apply Hmk; [apply (ctor_cols_wf fs l cs Hfo (parse_fmt_ok _ _ _ Ep) Ec)|apply (ctor_cols_fresh fs l cs Ec)].
Qed.

Theorem print_inv fs rows t : inv fs t -> inv fs (fst (print rows t)).
Proof.
  intros [Ef Hwf]. rewrite print_unfold. cbv zeta. cbn [fst]. split; [exact Ef|].
  unfold wf in *. cbn [t_fields t_cols]. apply andb_prop in Hwf as [H1 H2]. rewrite H1. cbn [andb].
  destruct (finalized (t_cols t)); [exact H2|].
  apply (wf_col_keeps (fun c => set_width c _)); [apply keeps_set_width|exact H2].
Qed.

(* ------------------------------------------------------------------ *)
(* a table built with fmt_obj= from ANY well-formed format state (whatever the
   records, widths and flag of the table that state belongs to) starts fresh *)
Theorem ctor_obj_inv fs x lim skip : inv fs x -> inv fs (ctor_obj x lim skip) /\ fresh_state (ctor_obj x lim skip).
Proof.
  intros [Ef Hwf]. unfold ctor_obj, clone_fmt. cbn [t_fields t_cols t_lf t_ll].
  destruct (match lim with Some v => v | None => (t_lf x, t_ll x) end) as [lf ll].
  assert (inv fs (mkT (t_fields x) (map clone_col (t_cols x)) lf ll None) /\
          fresh_state (mkT (t_fields x) (map clone_col (t_cols x)) lf ll None)) as [Hi Hf].
  { unfold wf in Hwf. apply andb_prop in Hwf as [H1 H2]. split.
    - split; [exact Ef|]. unfold wf. cbn [t_fields t_cols]. rewrite H1. cbn [andb].
      apply wf_col_keeps; [apply keeps_clone|exact H2].
    - split; [apply fresh_map_clone|reflexivity]. }
  destruct skip as [names|]; [split; [apply remove_inv, Hi|apply remove_fresh, Hf]|split; assumption].
Qed.

(* a rendering of a table without columns only sets the flag *)
Lemma print_empty_coherent rows t : t_cols t = [] -> printed_ok rows (fst (print rows t)).
Proof.
  intros He. rewrite print_unfold. cbv zeta. cbn [fst]. rewrite He. cbn [finalized forallb].
  unfold printed_ok, vis_pair, lines_of. cbn [t_fields t_cols t_lf t_ll t_skipped]. rewrite He.
  split; [reflexivity|constructor].
Qed.

(* ------------------------------------------------------------------ *)
(* histories.  [rows] = the records of the table the state belongs to; a table
   made with fmt_obj= takes the format object of a table with OTHER records.
   remove_columns and set_limits are unrestricted: they forget the negotiated
   state (repair of the finding stale-width-after-remove-columns) *)
Inductive reachable (fs : list field) : list row -> tstate -> Prop :=
| R_ctor rows s lim skip t : ctor fs s lim skip = Ok t -> reachable fs rows t
| R_set rows t s t' : reachable fs rows t -> set_fmt t s = Ok t' -> reachable fs rows t'
| R_print rows t : reachable fs rows t -> reachable fs rows (fst (print rows t))
| R_remove rows t names : reachable fs rows t -> reachable fs rows (remove_columns t names)
| R_limits rows t lim : reachable fs rows t -> reachable fs rows (set_limits t lim)
| R_obj rows rows' x lim skip : reachable fs rows' x -> reachable fs rows (ctor_obj x lim skip).

Theorem reachable_inv fs rows t : fields_okb fs = true -> reachable fs rows t ->
  inv fs t /\ coherent rows t.
Proof.
  intros Hfs H.
  induction H as [rows s lim skip t H|rows t s t' _ [IH1 IH2] H|rows t _ [IH1 IH2]
                 |rows t names _ [IH1 IH2]|rows t lim _ [IH1 IH2]|rows rows' x lim skip _ [IH1 _]].
  - destruct (ctor_inv fs s lim skip t Hfs H) as [Hi Hf]. split; [exact Hi|left; exact Hf].
  - destruct (set_fmt_inv fs t s t' Hfs IH1 H) as [Hi Hf]. split; [exact Hi|left; exact Hf].
  - split; [apply print_inv, IH1|right].
    destruct (t_cols t) as [|c r] eqn:Ec; [apply print_empty_coherent, Ec|].
    apply print_coherent; [rewrite Ec; discriminate|exact IH2].
  - split; [apply remove_inv, IH1|apply remove_coherent, IH2].
  - split; [apply set_limits_inv, IH1|apply set_limits_coherent, IH2].
  - destruct (ctor_obj_inv fs x lim skip IH1) as [Hi Hf]. split; [exact Hi|left; exact Hf].
Qed.
