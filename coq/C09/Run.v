(* C09/Run.v -- entry point of the correspondence check. *)
From Coq Require Import ZArith List Bool.
From AK Require Export Common.Sx Common.Err C09.Model C09.Term C09.Seq.
Import ListNotations.
Open Scope Z_scope.

Inductive case :=
| Fmt (a : fmtargs) (text : list Z)                    (* ColorFmt(args)(text), ColorBytes(args)(text.encode()) *)
| Text (items : list (option fmtargs * list Z))        (* CHText( *parts ); None = a plain str part *)
| Strip (s : list Z)                                   (* CHText.strip_colors(s) on an arbitrary string *)
| SeqOps (fmts : list fmtargs)                         (* a pool of ColorFmt / ColorBytes objects, created once, *)
         (pcs : list (option nat * list Z))            (* pieces fmt_k(text) / plain str, created once, *)
         (n : nat) (ops : list op).                    (* n texts, and the operations on them (Seq.v) *)

Definition sx_colour (c : colour) : sx :=
  match c with Default => SL [SZ 0] | Named n => SL [SZ 1; SZ n] | Idx n => SL [SZ 2; SZ n] end.

Definition sx_attrs (a : attrs) : sx :=
  SL [sx_colour (fg a); sx_colour (bg a); sx_bool (bold a); sx_bool (faint a);
      sx_bool (underline a); sx_bool (blink a); sx_bool (crossed a)].

Definition attrs_eqb (a b : attrs) : bool :=
  colour_eqb (fg a) (fg b) && colour_eqb (bg a) (bg b) && Bool.eqb (bold a) (bold b) &&
  Bool.eqb (faint a) (faint b) && Bool.eqb (underline a) (underline b) &&
  Bool.eqb (blink a) (blink b) && Bool.eqb (crossed a) (crossed b).

(* consecutive characters shown with the same attributes are grouped *)
Fixpoint group (l : list shown) : list (attrs * list Z) :=
  match l with
  | [] => []
  | (c, a) :: r =>
      match group r with
      | (b, cs) :: gs => if attrs_eqb a b then (a, c :: cs) :: gs else (a, [c]) :: (b, cs) :: gs
      | [] => [(a, [c])]
      end
  end.

(* what the reference terminal makes of a string: (bad, ground?, final attrs, shown runs) *)
Definition sx_term (r : tstate * list shown) : sx :=
  let st := fst r in
  SL [sx_bool (t_bad st);
      sx_bool (match t_lx st with LText => true | _ => false end);
      sx_attrs (t_at st);
      sx_list (fun p => SL [sx_attrs (fst p); sx_str (snd p)]) (group (snd r))].

Fixpoint build (items : list (option fmtargs * list Z)) : res (list chunk) :=
  match items with
  | [] => Ok []
  | (None, t) :: r => bind (build r) (fun cs => Ok (plain_chunk t :: cs))
  | (Some a, t) :: r =>
      match make a false with
      | Err e => Err e
      | Ok ps => bind (build r) (fun cs => Ok (fmt_call ps t :: cs))
      end
  end.

(* piece (Some k, text) is formatter k of the pool applied to text *)
Definition resolve (fmts : list fmtargs) (pc : option nat * list Z) : option fmtargs * list Z :=
  (option_map (fun k => nth k fmts no_args) (fst pc), snd pc).

Definition run (c : case) : sx :=
  match c with
  | Fmt a text =>
      SL [ sx_res (fun ps => let s := chunk_str (fmt_call ps text) in
                             SL [sx_str s; sx_str (strip s); sx_term (term s)])
                  (make a false);
           sx_res (fun ps => sx_str (fst ps ++ utf8 text ++ snd ps)) (make a true) ]
  | Text items =>
      sx_res (fun cs => let x := chtext_of cs in
                        let s := chtext_str x in
                        SL [sx_str s; sx_str (plain_text x); SZ (scrlen x);
                            sx_str (strip s); sx_term (term s)])
             (build items)
  | Strip s => SL [sx_str (strip s); sx_term (term s)]
  | SeqOps fmts pcs n ops =>
      match first_err fmts with
      | Some e => sx_res (fun x : sx => x) (Err e)
      | None => sx_res (fun pieces => SL (exec fmts pieces ops (repeat [] n)))
                       (build (map (resolve fmts) pcs))
      end
  end.
