"""C09  Emitted escape sequences are well-formed, self-contained and strippable  (ak/color.py)"""
import ast
import math
import os
import re

from harness.lib import pytranslate
from harness.lib import sx as SX

ID = "C09"
COQ_DIR = "C09"
RUN_MOD = "C09.Run"
MODEL_TARGETS = ["C09/Run.vo"]
PROOF_TARGETS = ["C09/Lemmas.vo", "C09/LemmasSeq.vo", "C09/TransEq.vo"]
PROPS = ["C09/Props.v", "C09/PropsTranslated.v"]
ALLOWED_AXIOMS = []
IMPL_TIMEOUT = 5.0
COQ_SHARD = 20   # the printed observation of a shard must stay well below coqc's stack limit (overflow seen at ~34000 characters; worst shard now ~14000 quick / ~22000 thorough)

RULE = ("exhaustive over the finite colour space: the 8 names x fg/bg, all 256 int codes as fg and as bg, all 216 "
        "(r,g,b) cube triples (tuple and list, fg and bg), g0..g25 as fg and bg, all 32 effect combinations x 7 "
        "colours; boundary invalid values (-1, 256, components -1/6, sequences of length 0/2/4, '', 'PURPLE', "
        "lower-case names, float, bytes, dict, set, bool, None with effects, no_color with valid and invalid colours); "
        "bool colours; lenient int() spellings of greys ('g+5', 'g 5', 'g1_0', 'g007', 'g-0', 'g025', non-ASCII digits); random "
        "colour/bg/effect combinations; CHText objects of 1-6 parts over a pool of formatters with equal-prefix "
        "neighbours, empty texts and plain str parts; strip_colors on random strings over an alphabet of ESC [ ; : "
        "digits m letters.  Texts contain ';', ':', 'm', '[', digits, newlines and non-ASCII characters.  "
        "Texts are mutable, so every kind of value is also reached through HISTORIES (kind 'seq'): one pool of 1-5 ColorFmt/"
        "ColorBytes objects created once (with the formatters a coarse cache key would confuse: same colours/other effects, fg/bg "
        "swapped, no_color, 1/True/1.0, tuple/list/int of one cube colour, 'g0'/232, 'RED'/1), one pool of 3-7 piece objects "
        "(chunks / strs, created once, added to several texts several times), 1-3 texts and 4-20 operations: x += piece / list / "
        "tuple / other text / itself, CHText(*pieces), CHText(x), x + pieces, piece + x, interleaved with up to 8 observations "
        "(str, plain_text, len, strip_colors of a text; str of a piece; a bytes formatter on a new text).  ~260 random histories "
        "(a changed text is re-rendered after about half of the changes) + ~450 systematic ones: render / change / render twice for "
        "every kind of += x every seam (same colour = merge into the last chunk, other colour, plain after plain, empty piece, first "
        "piece, several), copy and source changed separately, one piece in two texts, text added to itself, x + p leaves x alone.  "
        "Kind 'pad' (160 per quick run): format(obj, [[fill]align][width][s]) spelled format() / f-string / str.format, obj = the "
        "bare chunk ColorFmt(..)(text) (3 of 4) or CHText(chunk), formatters with background / effects / colours, visible and blank "
        "fill characters, widths around and above len(text): every fill character must be shown in the terminal's default state.  "
        "Non-trivial = distinct case in which a formatter is constructed or a string containing ESC is stripped (for a history: "
        "a coloured piece and at least one observation).")
TRUSTED_BASE = [
    "coq/C09/Term.v: the reference terminal (ECMA-48 CSI/SGR interpreter with ITU T.416 ':' sub-parameters for "
    "38:5:n / 48:5:n) is the specification device that gives 'shows', 'default state' and 'bleed' their meaning; it is "
    "cross-checked on every case against an independently written emulator in harness/props/c09.py (py_term)",
    "gen/C09_Consts.v: _COLORS, the effect codes and their order, the prefix/suffix literals, every threshold and "
    "multiplier of _make_seq_element, the isinstance(str) guard of the name lookup and the character class of the strip "
    "pattern (parsed with re._parser) are read from ak/color.py by harness/props/c09.py:gen_consts (ast, fail-closed)",
    "CPython semantics of re.sub for a pattern of the shape LITERALS [class]* LITERAL, of str.encode() (UTF-8), of "
    "int(str) on ASCII strings and of f'{int}'",
    "for the *_translated theorems: the shared translator harness/lib/pytranslate.py (Python ast -> Gallina, fail closed, NOT verified; "
    "`python -m harness.lib.pytranslate --selftest` compares ~4000 calls of 19 translated functions with CPython, among them a "
    "class modelled on _ColorSequences) and coq/Common/PyLib.v, which fixes the meaning of the constructs used by "
    "_ColorSequences._make_seq_element / .make: the dynamic value type pyval (None, bool, int, float as exact fraction or "
    "'some float', str, tuple, list, other object with a hashability flag), isinstance(x, str | int | (list, tuple)) as a case "
    "split (bool counts as int), `x in dict` / dict[x] for a str-keyed dict (TypeError for an unhashable x), len, any(generator) "
    "with short circuit, tuple unpacking (ValueError), + and * on dynamic values (ints exact; floats become an untracked float; "
    "other objects = OtherErr 'not modelled'), < > on ints, truthiness (None, bool, int, str, list; other objects not modelled), "
    "str.startswith, slices, int(str) for ASCII text, f-strings with {str} {int} {int(x)}, str + str, ';'.join, list.append on a "
    "local unshared list, `is not None`, str.encode() = UTF-8 (ValueError on a lone surrogate), try/except ValueError, classmethod "
    "calls cls.f(..) / Cls.f(..), class attribute constants; c09.TRANSLATED declares the parameter types (every parameter of "
    "make and the colour of _make_seq_element: any Python value; is_bg: bool); pytranslate.check_hygiene: nothing else in "
    "ak/color.py rebinds, stores to or mutates _ColorSequences._COLORS / the two methods, no subclass of _ColorSequences",
    "coq/C09/TransInst.v: color_of (what the hand model keeps of a Python value) and the convention that the effects / no_color / "
    "make_bytes are passed as bools (VBool) -- None and other falsy/truthy objects are not covered by the translated theorems",
]
ASSUMPTIONS = [
    "texts are str free of the escape character U+001B and of lone surrogates (the property's quantifier)",
    "colour specifications claimed: None, the 8 names, int 0..255 (not bool), tuple/list of three ints 0..5, 'g'+decimal "
    "0..23; invalid values claimed to raise ValueError: any other str whose tail after 'g' is ASCII, any other int, "
    "tuple/list with any components, and objects of other types; a bool colour must either be rejected with ValueError or be "
    "rendered as the int 1/0 (bool components of a tuple count as ints); not claimed: 'g'+non-ASCII digits, "
    "invalid colours combined with no_color=True (ignored by design)",
]
MODELLED = ("ak/color.py: _ColorSequences (make, _make_seq_element), _CHTextChunk.__str__, CHText(*parts) via "
            "_append_chunk, __str__, plain_text, len, strip_colors, ColorFmt, ColorBytes; CHText as a MUTABLE object: "
            "__iadd__ (chunk, str, list, tuple, CHText incl. itself) on a text that already has chunks, CHText(other), __add__, "
            "__radd__ / Chunk.__add__, with renderings in between (coq/C09/Seq.v).  Not modelled: slicing, "
            "formatting and the other CHText operations (property C08), Palette/ColorsConfig (C14)")

ESC = "\x1b"
ANSI_NAMES = ["BLACK", "RED", "GREEN", "YELLOW", "BLUE", "MAGENTA", "CYAN", "WHITE"]
EFFECTS = ["bold", "faint", "underline", "blink", "crossed"]


class ExtractError(Exception):
    pass


# ------------------------------------------------------------------ constants (ast, fail closed)
def _need(cond, what):
    if not cond:
        raise ExtractError(what)


def _const_str(node, what):
    _need(isinstance(node, ast.Constant) and isinstance(node.value, str), f"{what}: expected a str literal")
    return node.value


def _const_int(node, what):
    try:
        v = ast.literal_eval(node)
    except Exception:
        raise ExtractError(f"{what}: expected an int literal")
    _need(isinstance(v, int) and not isinstance(v, bool), f"{what}: expected an int literal")
    return v


def _is_name(node, name):
    return isinstance(node, ast.Name) and node.id == name


def _range_test(node, var, what):
    """`var < lo or var > hi` -> (lo, hi)"""
    _need(isinstance(node, ast.BoolOp) and isinstance(node.op, ast.Or) and len(node.values) == 2, f"{what}: expected `x < a or x > b`")
    a, b = node.values
    for n, op in ((a, ast.Lt), (b, ast.Gt)):
        _need(isinstance(n, ast.Compare) and len(n.ops) == 1 and isinstance(n.ops[0], op) and _is_name(n.left, var),
              f"{what}: expected `{var} < a or {var} > b`")
    return _const_int(a.comparators[0], what), _const_int(b.comparators[0], what)


def _is_isinstance(node, var):
    """isinstance(var, X) -> set of type names, else None"""
    if not (isinstance(node, ast.Call) and _is_name(node.func, "isinstance") and len(node.args) == 2
            and not node.keywords and _is_name(node.args[0], var)):
        return None
    t = node.args[1]
    if isinstance(t, ast.Name):
        return {t.id}
    if isinstance(t, ast.Tuple) and all(isinstance(e, ast.Name) for e in t.elts):
        return {e.id for e in t.elts}
    return None


def _raises_value_error(stmts, what):
    _need(len(stmts) == 1 and isinstance(stmts[0], ast.Raise) and isinstance(stmts[0].exc, ast.Call)
          and _is_name(stmts[0].exc.func, "ValueError"), f"{what}: expected a single `raise ValueError(...)`")


def _is_colors_attr(node):
    return isinstance(node, ast.Attribute) and node.attr == "_COLORS" and isinstance(node.value, ast.Name) \
        and node.value.id in ("_ColorSequences", "cls")


def _strip_doc(body):
    if body and isinstance(body[0], ast.Expr) and isinstance(body[0].value, ast.Constant) and isinstance(body[0].value.value, str):
        return body[1:]
    return body


def _extract_make(fn):
    C = {}
    argnames = [a.arg for a in fn.args.args]
    _need(argnames == ["cls", "color", "bg_color"] + EFFECTS + ["no_color", "make_bytes"], "make: unexpected parameter list")
    body = _strip_doc(fn.body)
    _need(len(body) == 5, "make: expected 5 statements")
    s0, s1, s2, s3, s4 = body
    _need(isinstance(s0, ast.Assign) and _is_name(s0.targets[0], "color_codes") and isinstance(s0.value, ast.List)
          and not s0.value.elts, "make: color_codes = []")
    _need(isinstance(s1, ast.If) and isinstance(s1.test, ast.UnaryOp) and isinstance(s1.test.op, ast.Not)
          and _is_name(s1.test.operand, "no_color") and not s1.orelse, "make: `if not no_color:`")
    ifs = s1.body
    _need(len(ifs) == 2 + len(EFFECTS) and all(isinstance(i, ast.If) and not i.orelse and len(i.body) == 1 for i in ifs),
          "make: expected 7 plain ifs under `if not no_color`")

    def append_arg(stmt, what):
        _need(isinstance(stmt, ast.Expr) and isinstance(stmt.value, ast.Call) and isinstance(stmt.value.func, ast.Attribute)
              and stmt.value.func.attr == "append" and _is_name(stmt.value.func.value, "color_codes")
              and len(stmt.value.args) == 1 and not stmt.value.keywords, f"make: {what}: color_codes.append(...)")
        return stmt.value.args[0]
    for i, (var, flag) in enumerate((("color", False), ("bg_color", True))):
        t = ifs[i].test
        _need(isinstance(t, ast.Compare) and _is_name(t.left, var) and len(t.ops) == 1 and isinstance(t.ops[0], ast.IsNot)
              and isinstance(t.comparators[0], ast.Constant) and t.comparators[0].value is None, f"make: `if {var} is not None`")
        a = append_arg(ifs[i].body[0], var)
        _need(isinstance(a, ast.Call) and isinstance(a.func, ast.Attribute) and a.func.attr == "_make_seq_element"
              and len(a.args) == 2 and not a.keywords and _is_name(a.args[0], var)
              and isinstance(a.args[1], ast.Constant) and a.args[1].value is flag, f"make: _make_seq_element({var}, {flag})")
    codes = []
    for i, eff in enumerate(EFFECTS):
        node = ifs[2 + i]
        _need(_is_name(node.test, eff), f"make: `if {eff}:` expected at position {i}")
        codes.append(_const_str(append_arg(node.body[0], eff), eff))
    C["effect_codes"] = codes
    # prefix / suffix
    _need(isinstance(s2, ast.If) and _is_name(s2.test, "color_codes") and len(s2.body) == 2 and len(s2.orelse) == 2, "make: `if color_codes:`")
    p, s = s2.body
    _need(isinstance(p, ast.Assign) and _is_name(p.targets[0], "color_prefix") and isinstance(s, ast.Assign)
          and _is_name(s.targets[0], "color_suffix"), "make: prefix/suffix assignments")
    v = p.value
    _need(isinstance(v, ast.BinOp) and isinstance(v.op, ast.Add) and isinstance(v.left, ast.BinOp) and isinstance(v.left.op, ast.Add),
          "make: prefix = open + sep.join(...) + close")
    C["seq_open"] = _const_str(v.left.left, "prefix open")
    C["seq_close"] = _const_str(v.right, "prefix close")
    j = v.left.right
    _need(isinstance(j, ast.Call) and isinstance(j.func, ast.Attribute) and j.func.attr == "join" and len(j.args) == 1, "make: sep.join(...)")
    C["seq_sep"] = _const_str(j.func.value, "separator")
    g = j.args[0]
    ok = _is_name(g, "color_codes") or (
        isinstance(g, ast.GeneratorExp) and len(g.generators) == 1 and not g.generators[0].ifs
        and _is_name(g.generators[0].iter, "color_codes") and isinstance(g.generators[0].target, ast.Name)
        and _is_name(g.elt, g.generators[0].target.id))
    _need(ok, "make: join over color_codes")
    C["seq_reset"] = _const_str(s.value, "suffix")
    for st, nm in zip(s2.orelse, ("color_prefix", "color_suffix")):
        _need(isinstance(st, ast.Assign) and _is_name(st.targets[0], nm) and _const_str(st.value, nm) == "", f"make: else {nm} = ''")
    # bytes
    _need(isinstance(s3, ast.If) and _is_name(s3.test, "make_bytes") and not s3.orelse and len(s3.body) == 2, "make: `if make_bytes:`")
    for st, nm in zip(s3.body, ("color_prefix", "color_suffix")):
        v = st.value if isinstance(st, ast.Assign) else None
        _need(v is not None and _is_name(st.targets[0], nm) and isinstance(v, ast.Call) and isinstance(v.func, ast.Attribute)
              and v.func.attr == "encode" and _is_name(v.func.value, nm) and not v.args and not v.keywords, f"make: {nm} = {nm}.encode()")
    _need(isinstance(s4, ast.Return) and isinstance(s4.value, ast.Tuple) and len(s4.value.elts) == 2
          and _is_name(s4.value.elts[0], "color_prefix") and _is_name(s4.value.elts[1], "color_suffix"), "make: return prefix, suffix")
    return C


def _extract_elem(fn):
    C = {}
    _need([a.arg for a in fn.args.args] == ["cls", "color", "is_bg"], "_make_seq_element: parameters")
    body = [s for s in _strip_doc(fn.body)]
    # fg_bg_id = "4" if is_bg else "3" ; param_name = ... (message only)
    assigns = [s for s in body if isinstance(s, ast.Assign)]
    rest = [s for s in body if not isinstance(s, ast.Assign)]
    fg = [s for s in assigns if _is_name(s.targets[0], "fg_bg_id")]
    _need(len(fg) == 1 and isinstance(fg[0].value, ast.IfExp) and _is_name(fg[0].value.test, "is_bg"), "fg_bg_id = X if is_bg else Y")
    C["bg_id"] = _const_str(fg[0].value.body, "bg id")
    C["fg_id"] = _const_str(fg[0].value.orelse, "fg id")
    _need(all(_is_name(s.targets[0], n) for s, n in zip(assigns, ("fg_bg_id", "param_name"))) and len(assigns) <= 2
          and body[:len(assigns)] == assigns, "_make_seq_element: unexpected assignments")
    _need(len(rest) == 5 and all(isinstance(s, ast.If) and not s.orelse for s in rest[:4]), "_make_seq_element: expected 4 ifs and a raise")
    i1, i2, i3, i4, last = rest
    # case 1: name lookup
    t = i1.test
    guarded = False
    if isinstance(t, ast.BoolOp) and isinstance(t.op, ast.And) and len(t.values) == 2 and _is_isinstance(t.values[0], "color") == {"str"}:
        guarded = True
        t = t.values[1]
    _need(isinstance(t, ast.Compare) and _is_name(t.left, "color") and len(t.ops) == 1 and isinstance(t.ops[0], ast.In)
          and _is_colors_attr(t.comparators[0]), "case 1: `color in _COLORS`")
    C["name_lookup_guarded"] = guarded
    r = i1.body
    _need(len(r) == 1 and isinstance(r[0], ast.Return) and isinstance(r[0].value, ast.BinOp) and isinstance(r[0].value.op, ast.Add)
          and _is_name(r[0].value.left, "fg_bg_id") and isinstance(r[0].value.right, ast.Subscript)
          and _is_colors_attr(r[0].value.right.value) and _is_name(r[0].value.right.slice, "color"), "case 1: return fg_bg_id + _COLORS[color]")
    # case 2: sequences
    _need(_is_isinstance(i2.test, "color") == {"list", "tuple"}, "case 2: isinstance(color, (list, tuple))")
    _need(len(i2.body) == 3, "case 2: expected check, unpack, assignment")
    chk, unp, asg = i2.body
    _need(isinstance(chk, ast.If) and not chk.orelse and isinstance(chk.test, ast.BoolOp) and isinstance(chk.test.op, ast.Or)
          and len(chk.test.values) == 2, "case 2: `len(color) != n or any(...)`")
    _raises_value_error(chk.body, "case 2")
    ln, an = chk.test.values
    _need(isinstance(ln, ast.Compare) and len(ln.ops) == 1 and isinstance(ln.ops[0], ast.NotEq) and isinstance(ln.left, ast.Call)
          and _is_name(ln.left.func, "len") and len(ln.left.args) == 1 and _is_name(ln.left.args[0], "color"), "case 2: len(color) != n")
    C["seq_len"] = _const_int(ln.comparators[0], "sequence length")
    _need(isinstance(an, ast.Call) and _is_name(an.func, "any") and len(an.args) == 1 and isinstance(an.args[0], ast.GeneratorExp)
          and len(an.args[0].generators) == 1 and not an.args[0].generators[0].ifs and _is_name(an.args[0].generators[0].iter, "color")
          and isinstance(an.args[0].generators[0].target, ast.Name), "case 2: any(... for c in color)")
    elt, cvar = an.args[0].elt, an.args[0].generators[0].target.id
    # `c < lo or c > hi`, optionally guarded: `not isinstance(c, int) or c < lo or c > hi`
    guarded = False
    if isinstance(elt, ast.BoolOp) and isinstance(elt.op, ast.Or) and len(elt.values) == 3:
        g0 = elt.values[0]
        _need(isinstance(g0, ast.UnaryOp) and isinstance(g0.op, ast.Not) and _is_isinstance(g0.operand, cvar) == {"int"},
              "case 2: expected `not isinstance(c, int) or c < a or c > b`")
        guarded = True
        elt = ast.BoolOp(op=ast.Or(), values=elt.values[1:])
    C["comp_guarded"] = guarded
    C["comp_lo"], C["comp_hi"] = _range_test(elt, cvar, "component range")
    _need(isinstance(unp, ast.Assign) and isinstance(unp.targets[0], ast.Tuple) and all(isinstance(e, ast.Name) for e in unp.targets[0].elts)
          and _is_name(unp.value, "color"), "case 2: r, g, b = color")
    names = [e.id for e in unp.targets[0].elts]
    _need(len(names) == C["seq_len"] == 3 and len(set(names)) == 3, "case 2: three components")
    _need(isinstance(asg, ast.Assign) and _is_name(asg.targets[0], "color"), "case 2: color = <cube expression>")
    used = {n.id for n in ast.walk(asg.value) if isinstance(n, ast.Name)}
    _need(used <= set(names) and not any(isinstance(n, (ast.Call, ast.Attribute, ast.Subscript)) for n in ast.walk(asg.value)),
          "case 2: cube expression uses something else than the components")
    code = compile(ast.Expression(asg.value), "<cube>", "eval")

    def cube(*v):
        return eval(code, {"__builtins__": {}}, dict(zip(names, v)))
    base = cube(0, 0, 0)
    mr, mg, mb = cube(1, 0, 0) - base, cube(0, 1, 0) - base, cube(0, 0, 1) - base
    for r_ in range(-2, 9):
        for g_ in range(-2, 9):
            for b_ in range(-2, 9):
                v = cube(r_, g_, b_)
                _need(isinstance(v, int) and v == base + r_ * mr + g_ * mg + b_ * mb, "case 2: cube expression is not linear")
    C["cube_base"], C["cube_r"], C["cube_g"], C["cube_b"] = base, mr, mg, mb
    # case 3: greys
    _need(_is_isinstance(i3.test, "color") == {"str"} and len(i3.body) == 1 and isinstance(i3.body[0], ast.If), "case 3: isinstance(color, str)")
    g = i3.body[0]
    t = g.test
    _need(isinstance(t, ast.Call) and isinstance(t.func, ast.Attribute) and t.func.attr == "startswith" and _is_name(t.func.value, "color")
          and len(t.args) == 1, "case 3: color.startswith(...)")
    C["gray_prefix"] = _const_str(t.args[0], "grey prefix")
    _raises_value_error(g.orelse, "case 3 (else)")
    _need(len(g.body) == 3 and isinstance(g.body[0], ast.Try), "case 3: try / range check / assignment")
    tr, chk, asg = g.body
    _need(len(tr.body) == 1 and len(tr.handlers) == 1 and not tr.orelse and not tr.finalbody, "case 3: try shape")
    a = tr.body[0]
    _need(isinstance(a, ast.Assign) and _is_name(a.targets[0], "shade") and isinstance(a.value, ast.Call) and _is_name(a.value.func, "int")
          and len(a.value.args) == 1 and not a.value.keywords, "case 3: shade = int(...)")
    sl = a.value.args[0]
    _need(isinstance(sl, ast.Subscript) and _is_name(sl.value, "color") and isinstance(sl.slice, ast.Slice) and sl.slice.upper is None
          and sl.slice.step is None and sl.slice.lower is not None and _const_int(sl.slice.lower, "slice") == len(C["gray_prefix"]),
          "case 3: int(color[len(prefix):])")
    h = tr.handlers[0]
    _need(_is_name(h.type, "ValueError") and len(h.body) == 1 and isinstance(h.body[0], ast.Assign) and _is_name(h.body[0].targets[0], "shade"),
          "case 3: except ValueError: shade = k")
    C["gray_except"] = _const_int(h.body[0].value, "shade in except")
    _need(isinstance(chk, ast.If) and not chk.orelse, "case 3: range check")
    _raises_value_error(chk.body, "case 3 (range)")
    C["gray_lo"], C["gray_hi"] = _range_test(chk.test, "shade", "grey range")
    _need(isinstance(asg, ast.Assign) and _is_name(asg.targets[0], "color") and isinstance(asg.value, ast.BinOp) and isinstance(asg.value.op, ast.Add),
          "case 3: color = base + shade")
    l, r = asg.value.left, asg.value.right
    if _is_name(l, "shade"):
        l, r = r, l
    _need(_is_name(r, "shade"), "case 3: color = base + shade")
    C["gray_base"] = _const_int(l, "grey base")
    # case 4: ints
    _need(_is_isinstance(i4.test, "color") == {"int"} and len(i4.body) == 2, "case 4: isinstance(color, int)")
    chk, ret = i4.body
    _need(isinstance(chk, ast.If) and not chk.orelse, "case 4: range check")
    _raises_value_error(chk.body, "case 4")
    C["int_lo"], C["int_hi"] = _range_test(chk.test, "color", "int range")
    _need(isinstance(ret, ast.Return) and isinstance(ret.value, ast.JoinedStr) and len(ret.value.values) == 3, "case 4: return f'{fg_bg_id}<lit>{color}'")
    a, b, c = ret.value.values
    for fv in (a, c):
        _need(isinstance(fv, ast.FormattedValue) and fv.conversion == -1 and fv.format_spec is None, "case 4: plain {..} fields expected")
    _need(_is_name(a.value, "fg_bg_id"), "case 4: {fg_bg_id}")
    # {color} formats a bool as the word True/False, {int(color)} as 1/0
    conv = isinstance(c.value, ast.Call) and _is_name(c.value.func, "int") and len(c.value.args) == 1 \
        and not c.value.keywords and _is_name(c.value.args[0], "color")
    _need(conv or _is_name(c.value, "color"), "case 4: {color} or {int(color)}")
    C["idx_int_conv"] = conv
    C["idx_infix"] = _const_str(b, "infix")
    _raises_value_error([last], "final statement")
    return C


def _extract_strip(cls):
    fns = {n.name: n for n in cls.body if isinstance(n, ast.FunctionDef)}
    _need("strip_colors" in fns, "CHText.strip_colors not found")
    fn = fns["strip_colors"]
    compiles = [n for n in ast.walk(fn) if isinstance(n, ast.Call) and isinstance(n.func, ast.Attribute) and n.func.attr == "compile"
                and _is_name(n.func.value, "re")]
    _need(len(compiles) == 1 and len(compiles[0].args) == 1 and not compiles[0].keywords, "strip_colors: one re.compile(<pattern>)")
    pattern = _const_str(compiles[0].args[0], "strip pattern")
    ret = fn.body[-1]
    _need(isinstance(ret, ast.Return) and isinstance(ret.value, ast.Call) and isinstance(ret.value.func, ast.Attribute)
          and ret.value.func.attr == "sub" and _is_name(ret.value.func.value, "re") and len(ret.value.args) == 3
          and not ret.value.keywords and _const_str(ret.value.args[1], "replacement") == "" and _is_name(ret.value.args[2], "text"),
          "strip_colors: return re.sub(<re>, '', text)")
    # the assignment target of the compiled pattern must be what is passed to re.sub
    a0 = ret.value.args[0]
    _need(isinstance(a0, ast.Attribute) and a0.attr == "_SEQ_RE", "strip_colors: re.sub(cls._SEQ_RE, ...)")
    try:
        import re._parser as sp
        import re._constants as sc
    except ImportError:  # python < 3.11
        import sre_parse as sp
        import sre_constants as sc
    parsed = list(sp.parse(pattern))
    _need(len(parsed) >= 3, "strip pattern: too short")
    *lits, rep, close = parsed
    _need(all(op == sc.LITERAL for op, _ in lits) and lits, "strip pattern: expected literal characters before the class")
    _need(close[0] == sc.LITERAL, "strip pattern: expected one literal character after the class")
    _need(rep[0] == sc.MAX_REPEAT and rep[1][0] == 0 and rep[1][1] == sc.MAXREPEAT and len(rep[1][2]) == 1, "strip pattern: expected [class]*")
    item = rep[1][2][0]
    ranges, has_d = [], False
    if item[0] == sc.LITERAL:
        ranges.append((item[1], item[1]))
    else:
        _need(item[0] == sc.IN, "strip pattern: expected a character class")
        for op, av in item[1]:
            if op == sc.LITERAL:
                ranges.append((av, av))
            elif op == sc.RANGE:
                ranges.append((av[0], av[1]))
            elif op == sc.CATEGORY and av == sc.CATEGORY_DIGIT:
                has_d = True
            else:
                raise ExtractError(f"strip pattern: unsupported class item {op} {av}")
    return {"strip_open": [v for _, v in lits], "strip_close": close[1], "strip_ranges": ranges, "strip_d": has_d}


TRANSLATED = {  # what is translated by harness/lib/pytranslate.py, with the parameter types (dyn = any Python value)
    "_ColorSequences._make_seq_element": ["dyn", "bool"],
    "_ColorSequences.make": ["dyn"] * 9,
}


def _translate(src):
    """_ColorSequences._make_seq_element and .make of the current source -> coq/gen/C09_Translated.v (fail closed);
    coq/C09/TransEq.v proves them equal to the hand model, coq/C09/PropsTranslated.v restates the main theorems"""
    tr = pytranslate.Translator(src, pytranslate.Config(source_name="ak/color.py"))
    rts = {k: tr.add_function(k, t) for k, t in TRANSLATED.items()}
    tr.check_hygiene()
    if rts["_ColorSequences._make_seq_element"] != "str":
        raise pytranslate.Unsupported(f"_make_seq_element returns {rts['_ColorSequences._make_seq_element']}, str expected")
    if tr.coq_type(rts["_ColorSequences.make"]) != "(list Z * list Z)":
        raise pytranslate.Unsupported(f"make returns {rts['_ColorSequences.make']}, a pair of str / bytes expected")
    return tr.emit("_ColorSequences")


def _translation_stub(reason):
    return pytranslate.stub(pytranslate.Config(source_name="ak/color.py"), reason, [
        ("T__ColorSequences__make_seq_element", "(v : pyval) (b : bool) : res (list Z)"),
        ("T__ColorSequences_make", "(v1 v2 v3 v4 v5 v6 v7 v8 v9 : pyval) : res (list Z * list Z)")])


def gen_consts(repo):
    """constants (ast extractor below) + translation (harness/lib/pytranslate.py).  The translation of THIS source (or the stub
    saying why there is none) is written even when the constant extractor refuses the source, so that the obligations of
    coq/C09/TransEq.v are checked against the current text in every case; any refusal is raised (= proof step broken)."""
    src = open(os.path.join(repo, "ak", "color.py")).read()
    try:
        translated, terr = _translate(src), None
    except pytranslate.Unsupported as e:
        translated, terr = _translation_stub(str(e)), e
    from harness.lib import coqrun
    try:
        gens = _gen_consts_only(src)
    except Exception:
        with coqrun.Lock():
            coqrun.write_gen("C09_Translated", translated)
        raise
    gens["C09_Translated"] = translated
    if terr is not None:
        with coqrun.Lock():
            for name, text in gens.items():
                coqrun.write_gen(name, text)
        raise ExtractError(f"translator (harness/lib/pytranslate.py): {terr}")
    return gens


def _gen_consts_only(src):
    tree = ast.parse(src)
    classes = {n.name: n for n in tree.body if isinstance(n, ast.ClassDef)}
    _need("_ColorSequences" in classes and "CHText" in classes, "classes _ColorSequences / CHText not found")
    cs = classes["_ColorSequences"]
    C = {}
    tbl = None
    for n in cs.body:
        if isinstance(n, ast.Assign) and _is_name(n.targets[0], "_COLORS"):
            try:
                tbl = ast.literal_eval(n.value)
            except Exception:
                raise ExtractError("_COLORS is not a literal")
    _need(isinstance(tbl, dict) and tbl and all(isinstance(k, str) and isinstance(v, str) for k, v in tbl.items()), "_COLORS: dict of str -> str")
    dict_node = [n for n in cs.body if isinstance(n, ast.Assign) and _is_name(n.targets[0], "_COLORS")][0].value
    _need(isinstance(dict_node, ast.Dict) and len(dict_node.keys) == len(tbl), "_COLORS: duplicate keys")
    fns = {n.name: n for n in cs.body if isinstance(n, ast.FunctionDef)}
    _need(set(fns) == {"make", "_make_seq_element"}, "_ColorSequences: unexpected methods")
    C.update(_extract_make(fns["make"]))
    C.update(_extract_elem(fns["_make_seq_element"]))
    C.update(_extract_strip(classes["CHText"]))
    # ColorFmt / ColorBytes must delegate to make positionally in the known order
    for cname, nbytes in (("ColorFmt", False), ("ColorBytes", True)):
        _need(cname in classes, f"class {cname} not found")
        init = [n for n in classes[cname].body if isinstance(n, ast.FunctionDef) and n.name == "__init__"]
        _need(len(init) == 1, f"{cname}.__init__")
        calls = [n for n in ast.walk(init[0]) if isinstance(n, ast.Call) and isinstance(n.func, ast.Attribute) and n.func.attr == "make"]
        _need(len(calls) == 1 and [getattr(a, "id", None) for a in calls[0].args] == ["color", "bg_color"] + EFFECTS + ["no_color"],
              f"{cname}.__init__: _ColorSequences.make(color, bg_color, <effects>, no_color)")
        kws = {k.arg: k.value for k in calls[0].keywords}
        if nbytes:
            _need(set(kws) == {"make_bytes"} and isinstance(kws["make_bytes"], ast.Constant) and kws["make_bytes"].value is True,
                  "ColorBytes: make_bytes=True")
        else:
            _need(not kws, "ColorFmt: no keyword arguments to make")

    def zl(s):
        return SX.cZlist(ord(c) for c in s)
    rows = "; ".join(f"({zl(k)}, {zl(v)})" for k, v in tbl.items())
    rng = "; ".join(f"({SX.cZ(a)}, {SX.cZ(b)})" for a, b in C["strip_ranges"])
    text = (
        "(* generated from ak/color.py by harness/props/c09.py -- do not edit *)\n"
        "From Coq Require Import ZArith List.\nImport ListNotations.\nOpen Scope Z_scope.\n"
        f"Definition colors_tbl : list (list Z * list Z) := [{rows}].\n"
        f"Definition fg_id : list Z := {zl(C['fg_id'])}.\n"
        f"Definition bg_id : list Z := {zl(C['bg_id'])}.\n"
        f"Definition idx_infix : list Z := {zl(C['idx_infix'])}.\n"
        f"Definition effect_codes : list (list Z) := [{'; '.join(zl(c) for c in C['effect_codes'])}].\n"
        f"Definition seq_open : list Z := {zl(C['seq_open'])}.\n"
        f"Definition seq_sep : list Z := {zl(C['seq_sep'])}.\n"
        f"Definition seq_close : list Z := {zl(C['seq_close'])}.\n"
        f"Definition seq_reset : list Z := {zl(C['seq_reset'])}.\n"
        f"Definition name_lookup_guarded : bool := {SX.cbool(C['name_lookup_guarded'])}.\n"
        f"Definition idx_int_conv : bool := {SX.cbool(C['idx_int_conv'])}.\n"
        f"Definition comp_guarded : bool := {SX.cbool(C['comp_guarded'])}.\n"
        f"Definition seq_len : nat := {SX.cnat(C['seq_len'])}.\n"
        f"Definition comp_lo : Z := {SX.cZ(C['comp_lo'])}.\nDefinition comp_hi : Z := {SX.cZ(C['comp_hi'])}.\n"
        f"Definition cube_base : Z := {SX.cZ(C['cube_base'])}.\nDefinition cube_r : Z := {SX.cZ(C['cube_r'])}.\n"
        f"Definition cube_g : Z := {SX.cZ(C['cube_g'])}.\nDefinition cube_b : Z := {SX.cZ(C['cube_b'])}.\n"
        f"Definition gray_prefix : list Z := {zl(C['gray_prefix'])}.\n"
        f"Definition gray_except : Z := {SX.cZ(C['gray_except'])}.\n"
        f"Definition gray_lo : Z := {SX.cZ(C['gray_lo'])}.\nDefinition gray_hi : Z := {SX.cZ(C['gray_hi'])}.\n"
        f"Definition gray_base : Z := {SX.cZ(C['gray_base'])}.\n"
        f"Definition int_lo : Z := {SX.cZ(C['int_lo'])}.\nDefinition int_hi : Z := {SX.cZ(C['int_hi'])}.\n"
        f"Definition strip_open : list Z := {SX.cZlist(C['strip_open'])}.\n"
        f"Definition strip_close : Z := {SX.cZ(C['strip_close'])}.\n"
        f"Definition strip_ranges : list (Z * Z) := [{rng}].\n"
        f"Definition strip_d : bool := {SX.cbool(C['strip_d'])}.\n")
    return {"C09_Consts": text}


# ------------------------------------------------------------------ case encoding
# colour spec in JSON: null | {"s": str} | {"i": int} | {"b": bool} | {"t": [elem]} (tuple) | {"l": [elem]} (list)
#                      | {"f": float} | {"y": str} (bytes) | {"d": 1} (dict) | {"e": 1} (set)
# elem: int | {"b": bool} | {"f": float} | {"s": str} | null
def _py_elem(e):
    if isinstance(e, dict):
        if "b" in e:
            return bool(e["b"])
        if "f" in e:
            return float(e["f"])
        return e["s"]
    return e


def _py_color(c):
    if c is None:
        return None
    if "s" in c:
        return c["s"]
    if "i" in c:
        return c["i"]
    if "b" in c:
        return bool(c["b"])
    if "t" in c:
        return tuple(_py_elem(e) for e in c["t"])
    if "l" in c:
        return [_py_elem(e) for e in c["l"]]
    if "f" in c:
        return float(c["f"])
    if "y" in c:
        return c["y"].encode()
    if "d" in c:
        return {}
    if "e" in c:
        return set()
    raise ValueError(c)


def _kwargs(a):
    kw = {"bg_color": _py_color(a.get("bg"))}
    for e in EFFECTS:
        if e in a:
            kw[e] = a[e]
    if "no_color" in a:
        kw["no_color"] = a["no_color"]
    return _py_color(a.get("color")), kw


def _coq_elem(e):
    if isinstance(e, dict):
        if "b" in e:
            return f"EInt {1 if e['b'] else 0}"
        if "f" in e:
            x = float(e["f"])
            return f"EFloat {SX.cbool(not (x < 0 or x > 5))}"
        return "EBad"
    if e is None:
        return "EBad"
    return f"EInt {SX.cZ(e)}"


def _coq_color(c):
    if c is None:
        return "CNone"
    if "s" in c:
        return f"(CStr {SX.cstr(c['s'])})"
    if "i" in c:
        return f"(CInt {SX.cZ(c['i'])})"
    if "b" in c:
        return f"(CBool {SX.cbool(c['b'])})"
    if "t" in c:
        return f"(CSeq false {_clist(_coq_elem(e) for e in c['t'])})"
    if "l" in c:
        return f"(CSeq true {_clist(_coq_elem(e) for e in c['l'])})"
    if "f" in c or "y" in c:
        return "COther"
    return "CUnhash"


def _clist(items):
    items = list(items)
    return "[" + "; ".join(items) + "]" if items else "[]"


def _coq_args(a):
    effs = " ".join(SX.cbool(bool(a.get(e))) for e in EFFECTS)
    return f"(mkArgs {_coq_color(a.get('color'))} {_coq_color(a.get('bg'))} {effs} {SX.cbool(bool(a.get('no_color')))})"


def coq_case(case, obs):
    k = case["k"]
    if k == "fmt":
        return f"Fmt {_coq_args(case['args'])} {SX.cstr(case['text'])}"
    if k == "text":
        items = []
        for it in case["items"]:
            if "args" in it:
                items.append(f"(Some {_coq_args(it['args'])}, {SX.cstr(it['text'])})")
            else:
                items.append(f"(@None fmtargs, {SX.cstr(it['text'])})")
        return f"Text {_clist(items)}"
    if k == "seq":
        return _coq_seq(case)
    if k == "pad":
        left, right = _pad_lr(case["text"], case["spec"])
        return f"Pad {_coq_args(case['args'])} {SX.cstr(case['text'])} {SX.cstr(left)} {SX.cstr(right)}"
    return f"Strip {SX.cstr(case['s'])}"


def _pad_lr(text, spec):
    """the fill characters str.__format__ puts before / behind a str of this length (the spec is of the form
    [[fill]align][width][s], the fill is never NUL)"""
    n = len(text)
    w = format("\x00" * n, spec)
    left = w.index("\x00")
    return w[:left], w[left + n:]


def _cnats(ns):
    ns = list(ns)
    return "[" + "; ".join(SX.cnat(n) for n in ns) + "]" if ns else "(@nil nat)"


def _coq_op(op):
    o = op[0]
    if o == "add":
        return f"OAdd {SX.cnat(op[1])} {_cnats(op[2])}"
    if o == "addx":
        return f"OAddText {SX.cnat(op[1])} {SX.cnat(op[2])}"
    if o == "new":
        return f"ONew {SX.cnat(op[1])} {_cnats(op[2])}"
    if o == "copy":
        return f"OCopy {SX.cnat(op[1])} {SX.cnat(op[2])}"
    if o == "plus":
        return f"OPlus {SX.cnat(op[1])} {SX.cnat(op[2])} {_cnats(op[3])}"
    if o == "rplus":
        return f"ORPlus {SX.cnat(op[1])} {SX.cnat(op[2])} {SX.cnat(op[3])}"
    if o == "r":
        return f"ORender {SX.cnat(op[1])}"
    if o == "rp":
        return f"ORenderPiece {SX.cnat(op[1])}"
    if o == "b":
        return f"OBytes {SX.cnat(op[1])} {SX.cstr(op[2])}"
    raise ValueError(op)


def _coq_seq(case):
    fmts = _clist(_coq_args(a) for a in case["fmts"])
    if not case["fmts"]:
        fmts = "(@nil fmtargs)"
    pcs = _clist((f"(Some {SX.cnat(pc['f'])}, {SX.cstr(pc['text'])})" if pc.get("f") is not None
                  else f"(@None nat, {SX.cstr(pc['text'])})") for pc in case["pieces"])
    if not case["pieces"]:
        pcs = "(@nil (option nat * list Z))"
    ops = _clist(_coq_op(op) for op in case["ops"])
    if not case["ops"]:
        ops = "(@nil op)"
    return f"SeqOps {fmts} {pcs} {SX.cnat(case['n'])} {ops}"


def _strings(case):
    if case["k"] in ("fmt", "pad"):
        return [case["text"]]
    if case["k"] == "seq":
        return [pc["text"] for pc in case["pieces"]] + [op[2] for op in case["ops"] if op[0] == "b"]
    if case["k"] == "text":
        return [it["text"] for it in case["items"]]
    return [case["s"]]


def _all_colors(case):
    out = []
    if case["k"] == "seq":
        for a in case["fmts"]:
            out += [a.get("color"), a.get("bg")]
        return out
    for a in ([case["args"]] if case["k"] in ("fmt", "pad") else [it["args"] for it in case.get("items", []) if "args" in it]):
        out += [a.get("color"), a.get("bg")]
    return out


def in_model(case, obs):
    # \d of the str pattern also matches non-ASCII decimal digits: only relevant behind an ESC inside a text
    for s in _strings(case):
        if ESC in s and any(ord(ch) > 127 and ch.isdecimal() for ch in s):
            return False
        if any(0xD800 <= ord(ch) <= 0xDFFF for ch in s):
            return False
    # int() on the tail of a grey is modelled for ASCII only (and below the 4300 digit limit)
    for c in _all_colors(case):
        if c and "s" in c and c["s"].startswith("g") and (not c["s"].isascii() or len(c["s"]) > 4000):
            return False
    return True


# ------------------------------------------------------------------ implementation
def _exc(e):
    if type(e).__name__ == "Hang":
        raise e
    return ["err", SX.exc_name(e)]


def impl_run(case):
    from ak.color import ColorFmt, ColorBytes, CHText
    k = case["k"]
    if k == "strip":
        return {"stripped": CHText.strip_colors(case["s"])}
    if k == "fmt":
        color, kw = _kwargs(case["args"])
        text = case["text"]
        obs = {}
        try:
            chunk = ColorFmt(color, **kw)(text)
            s = str(chunk)
            obs["t"] = ["ok", s, chunk.strip_colors(s), chunk.plain_text()]
        except BaseException as e:  # noqa
            obs["t"] = _exc(e)
        try:
            b = ColorBytes(color, **kw)(text.encode())
            obs["b"] = ["ok", list(b)] if isinstance(b, bytes) else ["err", "NotBytes"]
        except BaseException as e:  # noqa
            obs["b"] = _exc(e)
        return obs
    if k == "seq":
        return _impl_seq(case, ColorFmt, ColorBytes, CHText)
    if k == "pad":
        # format with fill / align / width of the bare chunk a formatter returns, or of the one-chunk text
        color, kw = _kwargs(case["args"])
        spec = case["spec"]
        try:
            chunk = ColorFmt(color, **kw)(case["text"])
            obj = chunk if case["bare"] else CHText(chunk)
            how = case.get("how", "format")
            if how == "fstr":
                s = f"{obj:{spec}}"
            elif how == "strformat":
                s = "{:{}}".format(obj, spec)
            else:
                s = format(obj, spec)
            if not isinstance(s, str):
                raise TypeError("format result is not a str")
            return {"r": ["ok", s, CHText.strip_colors(s)], "str": str(obj)}
        except BaseException as e:  # noqa
            return {"r": _exc(e)}
    # CHText of several parts
    parts = []
    strs = []
    try:
        for it in case["items"]:
            if "args" in it:
                color, kw = _kwargs(it["args"])
                ch = ColorFmt(color, **kw)(it["text"])
                parts.append(ch)
                strs.append(str(ch))
            else:
                parts.append(it["text"])
                strs.append(it["text"])
        x = CHText(*parts)
        s = str(x)
        return {"r": ["ok", s, x.plain_text(), len(x), CHText.strip_colors(s)], "parts": strs}
    except BaseException as e:  # noqa
        return {"r": _exc(e)}


def _impl_seq(case, ColorFmt, ColorBytes, CHText):
    """One pool of formatter objects, one pool of piece objects (chunks / strs, each created once and
    possibly added to several texts, several times), n texts that are extended, copied and RENDERED in
    between.  Every observation is what a user sees at that moment: str(), plain_text(), len()."""
    out = []
    try:
        fmts, bfmts = [], []
        for a in case["fmts"]:
            color, kw = _kwargs(a)
            fmts.append(ColorFmt(color, **kw))
            bfmts.append(ColorBytes(color, **kw))
        pieces = [fmts[pc["f"]](pc["text"]) if pc.get("f") is not None else pc["text"] for pc in case["pieces"]]
        texts = [CHText() for _ in range(case["n"])]
        for op in case["ops"]:
            o = op[0]
            if o == "add":
                x = texts[op[1]]
                sel = [pieces[p] for p in op[2]]
                how = op[3]
                if how == "one":
                    x += sel[0]
                elif how == "tuple":
                    x += tuple(sel)
                else:
                    x += sel
                texts[op[1]] = x
            elif o == "addx":
                x = texts[op[1]]
                x += texts[op[2]]
                texts[op[1]] = x
            elif o == "new":
                texts[op[1]] = CHText(*[pieces[p] for p in op[2]])
            elif o == "copy":
                texts[op[1]] = CHText(texts[op[2]])
            elif o == "plus":
                sel = [pieces[p] for p in op[3]]
                texts[op[1]] = texts[op[2]] + (sel[0] if op[4] == "one" else tuple(sel) if op[4] == "tuple" else sel)
            elif o == "rplus":
                texts[op[1]] = pieces[op[2]] + texts[op[3]]
            elif o == "r":
                x = texts[op[1]]
                s = str(x)
                out.append([s, x.plain_text(), len(x), CHText.strip_colors(s)])
            elif o == "rp":
                pc = pieces[op[1]]
                out.append([str(pc), pc if isinstance(pc, str) else pc.plain_text(), len(pc)])
            elif o == "b":
                b = bfmts[op[1]](op[2].encode())
                out.append(list(b) if isinstance(b, bytes) else None)
            else:
                raise RuntimeError(f"harness: unknown op {op!r}")
    except RuntimeError:
        raise
    except BaseException as e:  # noqa
        return {"r": _exc(e)}
    return {"r": ["ok", out]}


# ------------------------------------------------------------------ reference terminal (independent of coq/C09/Term.v)
DEFAULT_ATTRS = {"fg": [0], "bg": [0], "bold": 0, "faint": 0, "underline": 0, "blink": 0, "crossed": 0}
_CSI = re.compile(r"\x1b\[([0-?]*)", re.S)
_FLAG = {1: "bold", 2: "faint", 4: "underline", 5: "blink", 9: "crossed"}


def _sgr(attrs, body):
    """new attrs, or None when a parameter is not understood"""
    a = dict(attrs)
    for p in body.split(";"):
        nums = []
        for sub in p.split(":"):
            if sub == "":
                nums.append(0)
            elif all("0" <= ch <= "9" for ch in sub):
                nums.append(int(sub))
            else:
                return None
        if len(nums) == 1:
            n = nums[0]
            if n == 0:
                a = dict(DEFAULT_ATTRS)
            elif n in _FLAG:
                a[_FLAG[n]] = 1
            elif 30 <= n <= 37:
                a["fg"] = [1, n - 30]
            elif 40 <= n <= 47:
                a["bg"] = [1, n - 40]
            else:
                return None
        elif len(nums) == 3 and nums[0] in (38, 48) and nums[1] == 5 and 0 <= nums[2] <= 255:
            a["fg" if nums[0] == 38 else "bg"] = [2, nums[2]]
        else:
            return None
    return a


def py_term(s):
    """-> dict(bad, ground, attrs, shown=[(cp, attrs)]) : what a terminal starting in default state does with s"""
    attrs = dict(DEFAULT_ATTRS)
    bad = False
    ground = True
    shown = []
    i, n = 0, len(s)
    while i < n:
        ch = s[i]
        if ch != ESC:
            shown.append((ord(ch), attrs))
            i += 1
            continue
        if i + 1 >= n:
            ground = False
            break
        if s[i + 1] != "[":
            bad = True
            i += 2
            continue
        m = _CSI.match(s, i)
        j = m.end()
        if j >= n:
            ground = False
            break
        if s[j] == "m":
            new = _sgr(attrs, m.group(1))
            if new is None:
                bad = True
            else:
                attrs = new
        else:
            bad = True
        i = j + 1
    return {"bad": bad, "ground": ground, "attrs": attrs, "shown": shown}


def _sx_attrs(a):
    return [a["fg"], a["bg"], a["bold"], a["faint"], a["underline"], a["blink"], a["crossed"]]


def _sx_term(s):
    t = py_term(s)
    runs = []
    for cp, a in t["shown"]:
        if runs and runs[-1][0] == a:
            runs[-1][1].append(cp)
        else:
            runs.append((a, [cp]))
    return [1 if t["bad"] else 0, 1 if t["ground"] else 0, _sx_attrs(t["attrs"]), [[_sx_attrs(a), cps] for a, cps in runs]]


def expected_sx(case, obs):
    k = case["k"]
    if k == "strip":
        return SX.dumps([SX.s(obs["stripped"]), _sx_term(case["s"])])
    if k == "fmt":
        t, b = obs["t"], obs["b"]
        ts = SX.ok([SX.s(t[1]), SX.s(t[2]), _sx_term(t[1])]) if t[0] == "ok" else SX.err(t[1])
        bs = SX.ok(b[1]) if b[0] == "ok" else SX.err(b[1])
        return SX.dumps([ts, bs])
    r = obs["r"]
    if r[0] != "ok":
        return SX.dumps(SX.err(r[1]))
    if k == "pad":
        return SX.dumps(SX.ok([SX.s(r[1]), SX.s(r[2]), _sx_term(r[1])]))
    if k == "seq":
        res = []
        obs_ops = [op for op in case["ops"] if op[0] in ("r", "rp", "b")]
        for op, o in zip(obs_ops, r[1]):
            if op[0] == "r":
                res.append([SX.s(o[0]), SX.s(o[1]), o[2], SX.s(o[3])])
            elif op[0] == "rp":
                res.append([SX.s(o[0]), SX.s(o[1]), o[2]])
            else:
                res.append(SX.ok(o) if o is not None else SX.err("NotBytes"))
        return SX.dumps(SX.ok(res))
    return SX.dumps(SX.ok([SX.s(r[1]), SX.s(r[2]), r[3], SX.s(r[4]), _sx_term(r[1])]))


# ------------------------------------------------------------------ oracle: the statement, independently of the model
_CANON = re.compile(r"g(0|[1-9][0-9]*)\Z")
_WF_PREFIX = re.compile(r"\x1b\[[0-9]+(:[0-9]+)*(;[0-9]+(:[0-9]+)*)*m\Z")
RESET = ESC + "[0m"


def ref_colour(c):
    """-> ('valid', colour) | ('invalid', None) | ('unclaimed', None)   (colour in the sx encoding of the terminal)"""
    if c is None:
        return "valid", [0]
    if "s" in c:
        s = c["s"]
        if s in ANSI_NAMES:
            return "valid", [1, ANSI_NAMES.index(s)]
        m = _CANON.match(s)
        if m and int(m.group(1)) <= 23:
            return "valid", [2, 232 + int(m.group(1))]
        if s.startswith("g"):
            # spellings that int() may accept beside the canonical decimal: not claimed either way,
            # unless they cannot denote 0..23 under any reading
            tail = s[1:]
            try:
                v = int(tail)
            except ValueError:
                return "invalid", None
            return ("unclaimed", None) if 0 <= v <= 23 else ("invalid", None)
        return "invalid", None
    if "i" in c:
        return ("valid", [2, c["i"]]) if 0 <= c["i"] <= 255 else ("invalid", None)
    if "b" in c:
        # isinstance(True, int): either reading of the documentation is accepted -- rendered as the
        # int 1 / 0, or rejected with ValueError (see oracle: signature bool-color-malformed)
        return "valid", [2, 1 if c["b"] else 0]
    if "t" in c or "l" in c:
        el = c.get("t", c.get("l"))
        vals = [_py_elem(e) for e in el]
        # bool components are ints (True == 1)
        if len(vals) == 3 and all(isinstance(v, int) and 0 <= v <= 5 for v in vals):
            return "valid", [2, 16 + 36 * int(vals[0]) + 6 * int(vals[1]) + int(vals[2])]
        return "invalid", None
    return "invalid", None


def _want(args):
    """-> (status, attrs) for one formatter"""
    if args.get("no_color"):
        return "nocolor", dict(DEFAULT_ATTRS)
    sf, fg = ref_colour(args.get("color"))
    sb, bg = ref_colour(args.get("bg"))
    if "invalid" in (sf, sb):
        # the first invalid argument must raise; an unclaimed one before it may raise something else first
        if sf == "unclaimed":
            return "unclaimed", None
        return "invalid", None
    if "unclaimed" in (sf, sb):
        return "unclaimed", None
    a = {"fg": fg, "bg": bg}
    for e in EFFECTS:
        a[e] = 1 if args.get(e) else 0
    return "valid", a


def _is_list_color(args):
    return any(c is not None and "l" in c for c in (args.get("color"), args.get("bg")))


def _has_nonnumeric_component(args):
    for c in (args.get("color"), args.get("bg")):
        if c is not None and ("t" in c or "l" in c):
            if any(e is None or (isinstance(e, dict) and "s" in e) for e in c.get("t", c.get("l"))):
                return True
    return False


def _reject_sig(args, exc):
    """signature for an invalid value that raised something else than ValueError"""
    if exc == "TypeError" and _has_nonnumeric_component(args):
        return "component-typeerror"
    if exc == "TypeError" and _is_list_color(args):
        return "list-color-typeerror"
    return "invalid-not-valueerror"


def _check_rendered(s, text, status, want, out, label):
    """clauses about one rendered mono-coloured piece: s = str(ColorFmt(...)(text))"""
    if ESC in text:
        return
    t = py_term(s)
    if t["bad"] or not t["ground"]:
        out.append(("malformed-sgr", f"{label}: {s!r} contains a sequence an ECMA-48 terminal does not understand"))
    elif t["attrs"] != DEFAULT_ATTRS:
        out.append(("bleed", f"{label}: terminal is left in state {t['attrs']} after {s!r}"))
    if status in ("valid", "nocolor"):
        exp = [(ord(ch), want) for ch in text]
        if t["shown"] != exp:
            got = t["shown"][0][1] if t["shown"] else None
            out.append(("wrong-attrs", f"{label}: {s!r} shows {[chr(c) for c, _ in t['shown']]} with {got}, requested {want}"))
        plain = want == DEFAULT_ATTRS
        if plain and ESC in s:
            out.append(("no-color-esc", f"{label}: formatter without colour/effects emitted {s!r}"))
    # shape: prefix text suffix, prefix = ESC [ p (; p)* m
    if ESC in s:
        if not (s.endswith(text + RESET) and _WF_PREFIX.match(s[:len(s) - len(text) - len(RESET)])):
            out.append(("malformed-sgr", f"{label}: {s!r} is not ESC[p(;p)*m text ESC[0m"))


def _has_bool_color(case):
    return any(c is not None and "b" in c for c in _all_colors(case))


def oracle(case, obs):
    out = _oracle(case, obs)
    if out and _has_bool_color(case):
        # a bool colour may also be rejected with ValueError; anything else is the bool defect
        r = obs.get("t") or obs.get("r")
        if r[0] == "err" and r[1] == "ValueError" and all(sig in ("valid-rejected", "bytes-differ") for sig, _ in out) \
                and obs.get("b", r) == r:
            return []
        # (in an operation sequence the bool formatter is one of a pool: the failure keeps its own signature)
        if case["k"] != "seq" and any(sig in ("malformed-sgr", "wrong-attrs", "valid-rejected") for sig, _ in out):
            return [("bool-color-malformed", msg) for _, msg in out]
    return out


def _oracle(case, obs):
    if "__hang__" in obs:
        return [("hang", "call did not return")]
    out = []
    k = case["k"]
    if k == "strip":
        return out
    if k == "seq":
        return _oracle_seq(case, obs)
    if k == "pad":
        return _oracle_pad(case, obs)
    if k == "fmt":
        args, text = case["args"], case["text"]
        status, want = _want(args)
        t, b = obs["t"], obs["b"]
        label = f"ColorFmt({_descr(args)})({text!r})"
        if t[0] == "err":
            if status in ("valid", "nocolor"):
                sig = "list-color-typeerror" if _is_list_color(args) and t[1] == "TypeError" else "valid-rejected"
                out.append((sig, f"{label} raised {t[1]}"))
            elif status == "invalid" and t[1] != "ValueError":
                out.append((_reject_sig(args, t[1]), f"{label} raised {t[1]}, the property demands ValueError"))
            if b != t:
                out.append(("bytes-differ", f"{label}: ColorBytes gave {b}, ColorFmt raised {t[1]}"))
            return out
        s, stripped, plain = t[1], t[2], t[3]
        if status == "unclaimed":
            return out
        if status == "invalid":
            out.append(("invalid-accepted", f"{label} returned {s!r}, the property demands ValueError"))
            return out
        _check_rendered(s, text, status, want, out, label)
        if ESC not in text:
            if stripped != text or plain != text:
                out.append(("strip-leaves-sequence", f"strip_colors({s!r}) = {stripped!r}, plain text is {text!r}"))
        try:
            enc = list(s.encode())
        except UnicodeEncodeError:
            enc = None
        if enc is not None and b != ["ok", enc]:
            out.append(("bytes-differ", f"{label}: ColorBytes gave {bytes(b[1]) if b[0] == 'ok' else b!r}, text formatter {s!r}"))
        return out
    # CHText
    items = case["items"]
    sts = [_want(it["args"]) if "args" in it else ("valid", dict(DEFAULT_ATTRS)) for it in items]
    r = obs["r"]
    label = "CHText(" + ", ".join((f"ColorFmt({_descr(it['args'])})({it['text']!r})" if "args" in it else repr(it["text"])) for it in items) + ")"
    first_bad = next((i for i, (st, _) in enumerate(sts) if st in ("invalid", "unclaimed")), None)
    if r[0] == "err":
        if first_bad is None:
            lst = any("args" in it and _is_list_color(it["args"]) for it in items) and r[1] == "TypeError"
            out.append(("list-color-typeerror" if lst else "valid-rejected", f"{label} raised {r[1]}"))
        elif sts[first_bad][0] == "invalid" and r[1] != "ValueError":
            out.append((_reject_sig(items[first_bad]["args"], r[1]), f"{label} raised {r[1]}, the property demands ValueError"))
        return out
    if any(st == "invalid" for st, _ in sts):
        out.append(("invalid-accepted", f"{label} was built, the property demands ValueError"))
        return out
    if any(st == "unclaimed" for st, _ in sts):
        return out
    s, plain, ln, stripped = r[1], r[2], r[3], r[4]
    texts = [it["text"] for it in items]
    if any(ESC in t for t in texts):
        return out
    for i, (ps, it) in enumerate(zip(obs["parts"], items)):
        _check_rendered(ps, it["text"], sts[i][0], sts[i][1], out, f"part {i} of {label}")
    whole = "".join(texts)
    t = py_term(s)
    if t["bad"] or not t["ground"]:
        out.append(("malformed-sgr", f"{label}: {s!r} contains a sequence an ECMA-48 terminal does not understand"))
    elif t["attrs"] != DEFAULT_ATTRS:
        out.append(("bleed", f"{label}: terminal is left in state {t['attrs']} after {s!r}"))
    if all(st in ("valid", "nocolor") for st, _ in sts):
        exp = [(ord(ch), w) for it, (_, w) in zip(items, sts) for ch in it["text"]]
        if t["shown"] != exp:
            out.append(("wrong-attrs", f"{label}: {s!r} is not shown as requested"))
    else:
        if [c for c, _ in t["shown"]] != [ord(ch) for ch in whole]:
            out.append(("wrong-attrs", f"{label}: {s!r} does not show the text {whole!r}"))
    if plain != whole or ln != len(whole):
        out.append(("plain-text", f"{label}: plain_text() = {plain!r}, len = {ln}; parts are {texts!r}"))
    if stripped != plain:
        out.append(("strip-leaves-sequence", f"strip_colors({s!r}) = {stripped!r}, plain_text() = {plain!r}"))
    return out


def _oracle_pad(case, obs):
    """format(obj, '[[fill]align][width][s]') of a bare chunk / a one-chunk text: the reference terminal shows
    format(text, spec); the characters of the text have the requested attributes, every fill character is shown in
    DEFAULT state (colour is switched off after the chunk and not yet on before it), the terminal ends in default state"""
    out = []
    args, text, spec = case["args"], case["text"], case["spec"]
    status, want = _want(args)
    if status not in ("valid", "nocolor") or ESC in text:
        return out
    what = "ColorFmt(..)(text)" if case["bare"] else "CHText(ColorFmt(..)(text))"
    label = f"format({what}, {spec!r}) [{case.get('how', 'format')}] with ColorFmt({_descr(args)}), text {text!r}"
    r = obs["r"]
    plain = format(text, spec)
    if r[0] != "ok":
        out.append(("format-raises", f"{label} raised {r[1]}; format({text!r}, {spec!r}) = {plain!r}"))
        return out
    s = r[1]
    t = py_term(s)
    if t["bad"] or not t["ground"]:
        out.append(("malformed-sgr", f"{label}: {s!r} contains a sequence an ECMA-48 terminal does not understand"))
    elif t["attrs"] != DEFAULT_ATTRS:
        out.append(("bleed", f"{label}: terminal is left in state {t['attrs']} after {s!r}"))
    if r[2] != plain or CHText_strip_ref(s) != plain:
        out.append(("format-visible", f"{label}: strip_colors of the result is {r[2]!r}, format of the plain text {plain!r}"))
        return out
    if [c for c, _ in t["shown"]] != [ord(ch) for ch in plain]:
        out.append(("format-visible", f"{label}: {s!r} shows {''.join(chr(c) for c, _ in t['shown'])!r}, expected {plain!r}"))
        return out
    left = len(_pad_lr(text, spec)[0])
    for i, (c, a) in enumerate(t["shown"]):
        if left <= i < left + len(text):
            if a != want:
                out.append(("wrong-attrs", f"{label}: character {chr(c)!r} of the text (column {i}) is shown with {a}, requested {want}: {s!r}"))
                break
        elif a != DEFAULT_ATTRS:
            out.append(("padding-bleed", f"{label}: fill character {chr(c)!r} at column {i} is shown with attributes {a} "
                                         f"instead of the default state -- the chunk's colour is active in the padding: {s!r}"))
            break
    return out


def _script(case, upto=None):
    """the operations as a python-like script (for messages)"""
    ops = case["ops"] if upto is None else case["ops"][:upto + 1]
    bits = []
    for op in ops:
        o = op[0]
        if o == "add":
            ps = [f"p{p}" for p in op[2]]
            arg = ps[0] if op[3] == "one" else ("(" + ", ".join(ps) + ",)" if op[3] == "tuple" else "[" + ", ".join(ps) + "]")
            bits.append(f"x{op[1]} += {arg}")
        elif o == "addx":
            bits.append(f"x{op[1]} += x{op[2]}")
        elif o == "new":
            bits.append(f"x{op[1]} = CHText({', '.join(f'p{p}' for p in op[2])})")
        elif o == "copy":
            bits.append(f"x{op[1]} = CHText(x{op[2]})")
        elif o == "plus":
            ps = [f"p{p}" for p in op[3]]
            arg = ps[0] if op[4] == "one" else ("(" + ", ".join(ps) + ",)" if op[4] == "tuple" else "[" + ", ".join(ps) + "]")
            bits.append(f"x{op[1]} = x{op[2]} + {arg}")
        elif o == "rplus":
            bits.append(f"x{op[1]} = p{op[2]} + x{op[3]}")
        elif o == "r":
            bits.append(f"str(x{op[1]})")
        elif o == "rp":
            bits.append(f"str(p{op[1]})")
        else:
            bits.append(f"B{op[1]}({op[2].encode()!r})")
    used = sorted({p for op in ops if op[0] in ("add", "new") for p in op[2]} | {op[1] for op in ops if op[0] == "rp"}
                  | {p for op in ops if op[0] == "plus" for p in op[3]} | {op[2] for op in ops if op[0] == "rplus"})
    defs = []
    for p in used:
        pc = case["pieces"][p]
        defs.append(f"p{p} = F{pc['f']}({pc['text']!r})" if pc.get("f") is not None else f"p{p} = {pc['text']!r}")
    fused = sorted({case["pieces"][p]["f"] for p in used if case["pieces"][p].get("f") is not None}
                   | {op[1] for op in ops if op[0] == "b"})
    fdefs = [f"F{k}/B{k} = ColorFmt/ColorBytes({_descr(case['fmts'][k])})" for k in fused]
    return "; ".join(fdefs + defs + bits)


def _oracle_seq(case, obs):
    """the statement on every observation of an operation sequence: whatever was done to a text before
    (rendered, extended, copied, shares pieces with another text), str() shows exactly the pieces that
    were put into it, each with the attributes it was asked for; strip_colors(str(x)) == x.plain_text()"""
    out = []
    fmts, pcs, ops = case["fmts"], case["pieces"], case["ops"]
    fsts = [_want(a) for a in fmts]
    r = obs["r"]
    first_bad = next((i for i, (st, _) in enumerate(fsts) if st in ("invalid", "unclaimed")), None)
    if r[0] == "err":
        label = _script(case)
        if first_bad is None:
            lst = any(_is_list_color(a) for a in fmts) and r[1] == "TypeError"
            out.append(("list-color-typeerror" if lst else "valid-rejected", f"{label} raised {r[1]}"))
        elif fsts[first_bad][0] == "invalid" and r[1] != "ValueError":
            out.append((_reject_sig(fmts[first_bad], r[1]), f"{label} raised {r[1]}, the property demands ValueError"))
        return out
    if any(st == "invalid" for st, _ in fsts):
        out.append(("invalid-accepted", f"ColorFmt({_descr(fmts[first_bad])}) was built, the property demands ValueError"))
        return out
    if first_bad is not None or any(ESC in t for t in _strings(case)):
        return out
    psts = [fsts[pc["f"]] if pc.get("f") is not None else ("valid", dict(DEFAULT_ATTRS)) for pc in pcs]
    hist = [[] for _ in range(case["n"])]
    seen = [[] for _ in range(case["n"])]     # (text, rendered string) of earlier renderings of the same object
    results = iter(r[1])
    for step, op in enumerate(ops):
        o = op[0]
        if o == "add":
            hist[op[1]] = hist[op[1]] + list(op[2])
        elif o == "addx":
            hist[op[1]] = hist[op[1]] + hist[op[2]]
        elif o == "new":
            hist[op[1]] = list(op[2])
            seen[op[1]] = []
        elif o == "copy":
            hist[op[1]] = list(hist[op[2]])
            seen[op[1]] = []
        elif o == "plus":
            hist[op[1]] = hist[op[2]] + list(op[3])
            seen[op[1]] = []
        elif o == "rplus":
            hist[op[1]] = [op[2]] + hist[op[3]]
            seen[op[1]] = []
        elif o == "r":
            s, plain, ln, stripped = next(results)
            h = hist[op[1]]
            label = _script(case, step)
            exp = [(ord(ch), psts[p][1]) for p in h for ch in pcs[p]["text"]]
            whole = "".join(pcs[p]["text"] for p in h)
            t = py_term(s)
            if t["bad"] or not t["ground"]:
                out.append(("malformed-sgr", f"{label}: {s!r} contains a sequence an ECMA-48 terminal does not understand"))
            elif t["attrs"] != DEFAULT_ATTRS:
                out.append(("bleed", f"{label}: terminal is left in state {t['attrs']} after {s!r}"))
            if t["shown"] != exp:
                stale = any(s == s0 and w0 != whole for w0, s0 in seen[op[1]])
                if stale:
                    out.append(("stale-render", f"{label}: the last str() returned {s!r}, a rendering from before the text "
                                                f"was extended; the text now consists of {whole!r}"))
                else:
                    out.append(("wrong-attrs", f"{label}: the last str() returned {s!r}, which does not show {whole!r} with "
                                               f"the requested attributes"))
            if plain != whole or ln != len(whole):
                out.append(("plain-text", f"{label}: plain_text() = {plain!r}, len = {ln}; the pieces are {whole!r}"))
            if stripped != plain:
                out.append(("strip-leaves-sequence", f"{label}: strip_colors({s!r}) = {stripped!r}, plain_text() = {plain!r}"))
            seen[op[1]].append((whole, s))
        elif o == "rp":
            s, plain, ln = next(results)
            pc = pcs[op[1]]
            label = _script(case, step)
            _check_rendered(s, pc["text"], psts[op[1]][0], psts[op[1]][1], out, label)
            if plain != pc["text"] or ln != len(pc["text"]):
                out.append(("plain-text", f"{label}: plain_text() = {plain!r}, len = {ln}; the text is {pc['text']!r}"))
            if CHText_strip_ref(s) != pc["text"]:
                out.append(("strip-leaves-sequence", f"{label}: {s!r} minus its ESC[..m sequences is not {pc['text']!r}"))
        elif o == "b":
            b = next(results)
            label = _script(case, step)
            try:
                s = bytes(b).decode() if b is not None else None
            except (UnicodeDecodeError, ValueError):
                s = None
            if s is None:
                out.append(("bytes-differ", f"{label}: the bytes formatter returned {b!r}"))
            else:
                n0 = len(out)
                _check_rendered(s, op[2], fsts[op[1]][0], fsts[op[1]][1], out, label)
                out[n0:] = [("bytes-differ", m) for _, m in out[n0:]]
    return out


_REF_SGR = re.compile(r"\x1b\[[0-9;:]*m")


def CHText_strip_ref(s):
    """what strip_colors has to do with an emitted string (independent of the implementation's pattern)"""
    return _REF_SGR.sub("", s)


def _descr(a):
    color, kw = _kwargs(a)
    bits = [repr(color)] + [f"{k}={v!r}" for k, v in kw.items() if v is not None and not (k == "no_color" and v is False)]
    return ", ".join(bits)


# ------------------------------------------------------------------ generators
TEXT_ALPHA = ["a", "b", "Z", "0", "1", "5", "m", ";", ":", "[", "]", " ", "\n", "\t", "é", "中", "\U0001f600", "٣", "~", "?"]


def _text(rng, lo=0, hi=8):
    return "".join(rng.choice(TEXT_ALPHA) for _ in range(rng.randint(lo, hi)))


def _valid_color(rng):
    r = rng.random()
    if r < 0.2:
        return {"s": rng.choice(ANSI_NAMES)}
    if r < 0.5:
        return {"i": rng.randrange(256)}
    if r < 0.7:
        return {rng.choice("tl"): [rng.randrange(6) for _ in range(3)]}
    if r < 0.85:
        return {"s": "g%d" % rng.randrange(24)}
    return None


INVALID_COLORS = [
    {"i": -1}, {"i": 256}, {"i": 1000}, {"i": -255}, {"i": 2 ** 70},
    {"s": ""}, {"s": "PURPLE"}, {"s": "red"}, {"s": "Red"}, {"s": "RED "}, {"s": "31"}, {"s": "0"}, {"s": "G5"},
    {"s": "g"}, {"s": "g24"}, {"s": "g25"}, {"s": "g-1"}, {"s": "gx"}, {"s": "g1.5"}, {"s": "g0x1"}, {"s": "g256"}, {"s": "grey"},
    {"s": "g_1"}, {"s": "g1_"}, {"s": "g1__0"}, {"s": "g+ 5"}, {"s": "g5 5"}, {"s": "g\x1c5"}, {"s": "g99999999999999999999"},
    {"s": "BLACKRED"}, {"s": "é"},
    {"t": []}, {"t": [1]}, {"t": [1, 2]}, {"t": [1, 2, 3, 4]}, {"t": [6, 0, 0]}, {"t": [0, 6, 0]}, {"t": [0, 0, 6]},
    {"t": [-1, 0, 0]}, {"t": [0, -1, 0]}, {"t": [0, 0, -1]}, {"t": [5, 5, 6]}, {"t": [255, 0, 0]},
    {"l": []}, {"l": [1, 2]}, {"l": [9, 9, 9]}, {"l": [0, 0, -1]}, {"l": [1, 2, 3, 4]},
    {"t": [{"f": 1.5}, 2, 3]}, {"t": [1, 2, {"f": 5.5}]}, {"t": [{"f": 1.0}, {"f": 2.0}, {"f": 3.0}]}, {"l": [{"f": 0.5}, 0, 0]},
    {"f": 2.0}, {"f": 0.5}, {"y": "RED"}, {"d": 1}, {"e": 1},
]
LENIENT_COLORS = [{"s": "g+5"}, {"s": "g 5"}, {"s": "g5 "}, {"s": "g5\n"}, {"s": "g\t7"}, {"s": "g1_0"}, {"s": "g007"}, {"s": "g-0"},
                  {"s": "g+0"}, {"s": "g025"}, {"s": "g0_0"}, {"s": "g2_3"}, {"s": "g2_4"}, {"s": "g٣"}, {"s": "g 5"},
                  {"s": "g1٣"}, {"s": "g00000000000000000000000000023"}]
BOOL_COLORS = [{"b": True}, {"b": False}]
UNCLAIMED_COLORS = [{"t": [{"b": True}, 2, 3]}, {"l": [{"b": False}, {"b": True}, 5]}, {"t": [{"b": True}, 6, 0]}, {"t": [{"s": "a"}, 1, 2]}, {"t": [9, {"s": "a"}, 2]},
                    {"t": [1, 2, None]}, {"t": [1, {"f": 9.0}, None]}, {"l": [None, 1, 2]}, {"t": [{"f": 2.0}, {"s": "x"}, 1]}]
REPR_COLORS = [None, {"s": "RED"}, {"i": 200}, {"t": [1, 2, 3]}, {"l": [5, 0, 5]}, {"s": "g7"}, {"i": 0}]


def _effects(mask, truthy=True):
    return {e: truthy for i, e in enumerate(EFFECTS) if mask >> i & 1}


def _fmt(args, text):
    return {"k": "fmt", "args": args, "text": text}


# ---- operation sequences on mutable texts over shared formatter / piece objects
def _variants(rng, a):
    """formatters that a cache keyed too coarsely would confuse with `a`"""
    out = []
    b = dict(a)
    b.update({e: not a.get(e) for e in rng.sample(EFFECTS, rng.randint(1, 2))})
    out.append(b)                                                       # same colours, other effects
    out.append(dict(a, color=a.get("bg"), bg=a.get("color")))           # fg and bg swapped
    out.append(dict(a, no_color=True))
    c = a.get("color")
    if c is not None and "i" in c:
        if c["i"] in (0, 1):
            out.append(dict(a, color={"b": bool(c["i"])}))              # 1 == True, 0 == False
        out.append(dict(a, color={"i": (c["i"] + rng.choice([1, 10, 100])) % 256}))
        if c["i"] == 0:
            out.append(dict(a, color=None))
    if c is not None and ("t" in c or "l" in c):
        v = c.get("t", c.get("l"))
        out.append(dict(a, color={"l" if "t" in c else "t": list(v)}))  # tuple vs list: equal prefix
        out.append(dict(a, color={"i": 16 + 36 * v[0] + 6 * v[1] + v[2]}))
        out.append(dict(a, color={"t": list(reversed(v))}))
    if c is not None and "s" in c and c["s"].startswith("g"):
        out.append(dict(a, color={"i": 232 + int(c["s"][1:])}))
    if c is not None and "s" in c and c["s"] in ANSI_NAMES:
        out.append(dict(a, color={"i": ANSI_NAMES.index(c["s"])}))      # RED (31) vs 1 (38:5:1)
        out.append(dict(a, bg=c, color=None))
    return [{k: v for k, v in x.items() if v is not None or k == "color"} for x in out]


def _seq_pool(rng):
    fmts = []
    for _ in range(rng.randint(1, 2)):
        a = {"color": _valid_color(rng) if rng.random() < 0.9 else {"i": rng.choice([0, 1])},
             "bg": _valid_color(rng) if rng.random() < 0.3 else None}
        a.update(_effects(rng.randrange(32) if rng.random() < 0.4 else 0))
        a = {k: v for k, v in a.items() if v is not None or k == "color"}
        fmts.append(a)
        vs = _variants(rng, a)
        fmts += rng.sample(vs, min(len(vs), rng.randint(0, 2)))
    if rng.random() < 0.3:
        fmts.append({"color": None})
    if rng.random() < 0.03:
        fmts.insert(rng.randrange(len(fmts) + 1), {"color": rng.choice(INVALID_COLORS)})
    rng.shuffle(fmts)
    return fmts[:5]


def _seq_pieces(rng, fmts, lo=3, hi=7):
    pcs = []
    for _ in range(rng.randint(lo, hi)):
        if rng.random() < 0.25:
            pcs.append({"text": _text(rng, 0, 3)})
        elif pcs and rng.random() < 0.15:
            pcs.append(dict(rng.choice(pcs)))                           # an equal piece, another object
        else:
            pcs.append({"f": rng.randrange(len(fmts)), "text": _text(rng, 0, 4)})
    return pcs


MAX_OBS = 8


def _seq_random(rng):
    fmts = _seq_pool(rng)
    pcs = _seq_pieces(rng, fmts)
    n = rng.randint(1, 3)
    ops = []
    nobs = 0
    last_added = {}
    for _ in range(rng.randint(4, 12)):
        r = rng.random()
        i = rng.randrange(n)
        if r < 0.30:
            p = rng.randrange(len(pcs))
            if i in last_added and rng.random() < 0.5:
                # the same piece again, or one of the same formatter: merged into the last chunk
                same = [q for q in range(len(pcs)) if pcs[q].get("f") == pcs[last_added[i]].get("f")]
                p = rng.choice(same)
            ops.append(["add", i, [p], "one"])
            last_added[i] = p
        elif r < 0.40:
            ps = [rng.randrange(len(pcs)) for _ in range(rng.randint(0, 3))]
            ops.append(["add", i, ps, rng.choice(["list", "tuple"])])
            if ps:
                last_added[i] = ps[-1]
        elif r < 0.48:
            ops.append(["addx", i, rng.randrange(n)])
        elif r < 0.53:
            ps = [rng.randrange(len(pcs)) for _ in range(rng.randint(0, 3))]
            ops.append(["new", i, ps])
            last_added.pop(i, None)
            if ps:
                last_added[i] = ps[-1]
        elif r < 0.58:
            ops.append(["copy", i, rng.randrange(n)])
        elif r < 0.63:
            ps = [rng.randrange(len(pcs)) for _ in range(rng.randint(1, 2))]
            ops.append(["plus", i, rng.randrange(n), ps, "one" if len(ps) == 1 and rng.random() < 0.7 else rng.choice(["list", "tuple"])])
            last_added[i] = ps[-1]
        elif r < 0.66:
            ops.append(["rplus", i, rng.randrange(len(pcs)), rng.randrange(n)])
            last_added.pop(i, None)
        elif nobs < MAX_OBS:
            nobs += 1
            if r < 0.90:
                ops.append(["r", i])
                if rng.random() < 0.15 and nobs < MAX_OBS:
                    nobs += 1
                    ops.append(["r", i])                                # twice, nothing in between
            elif r < 0.95:
                ops.append(["rp", rng.randrange(len(pcs))])
            else:
                ops.append(["b", rng.randrange(len(fmts)), _text(rng, 0, 4)])
    if nobs < MAX_OBS:
        ops.append(["r", rng.randrange(n)])
    # a text that was changed is looked at again: render it right after about half of the changes
    out = []
    for op in ops:
        out.append(op)
        if op[0] in ("add", "addx", "new", "copy", "plus", "rplus") and nobs < MAX_OBS and rng.random() < 0.5:
            nobs += 1
            out.append(["r", op[1] if rng.random() < 0.8 else rng.randrange(n)])
    return {"k": "seq", "fmts": fmts, "pieces": pcs, "n": n, "ops": out}


def _seq_templates(rng):
    """the histories a memoised / aliased implementation gets wrong, over a random pool"""
    out = []
    fmts = _seq_pool(rng)
    fmts = [a for a in fmts if ref_colour(a.get("color"))[0] == "valid"] or [{"color": {"i": 9}}]
    k = rng.randrange(len(fmts))
    k2 = rng.randrange(len(fmts))
    t = [_text(rng, 1, 3) for _ in range(5)]
    pcs = [{"f": k, "text": t[0]}, {"f": k, "text": t[1]}, {"text": t[2]}, {"text": t[3]}, {"f": k2, "text": t[4]},
           {"f": k, "text": t[0]}]

    def mk(n, ops):
        out.append({"k": "seq", "fmts": fmts, "pieces": pcs, "n": n, "ops": ops})
    # render, extend with the same colour (merge into the last chunk), render, render
    mk(1, [["add", 0, [0], "one"], ["r", 0], ["add", 0, [1], "one"], ["r", 0], ["r", 0]])
    mk(1, [["new", 0, [4, 0]], ["r", 0], ["add", 0, [1], rng.choice(["list", "tuple"])], ["r", 0], ["add", 0, [4], "one"], ["r", 0]])
    # plain after plain
    mk(1, [["add", 0, [2], "one"], ["r", 0], ["add", 0, [3], "one"], ["r", 0], ["add", 0, [0], "one"], ["r", 0]])
    # the empty text is rendered first
    mk(1, [["r", 0], ["add", 0, [0], "one"], ["r", 0], ["add", 0, [2], "one"], ["r", 0]])
    # a copy and its source go separate ways
    mk(2, [["new", 0, [0, 2]], ["r", 0], ["copy", 1, 0], ["r", 1], ["add", 0, [3], "one"], ["add", 1, [1], "one"], ["r", 1], ["r", 0]])
    mk(2, [["add", 0, [0], "one"], ["copy", 1, 0], ["add", 0, [1], "one"], ["r", 1], ["r", 0]])
    mk(2, [["add", 0, [0], "one"], ["addx", 1, 0], ["add", 1, [5], "one"], ["r", 0], ["r", 1], ["add", 0, [1], "one"], ["r", 1], ["r", 0]])
    # one piece object in two texts, both extended with the same colour; the piece itself afterwards
    mk(2, [["add", 0, [0], "one"], ["add", 1, [0], "one"], ["add", 0, [1], "one"], ["r", 1], ["r", 0], ["rp", 0], ["add", 1, [5], "one"], ["r", 1], ["rp", 0]])
    # a text added to itself, rendered before and after
    mk(1, [["new", 0, [0, 4]], ["r", 0], ["addx", 0, 0], ["r", 0], ["addx", 0, 0], ["r", 0]])
    # render / change / render twice: every kind of += at every kind of seam; then the source of a
    # `+= text` is changed and both are looked at again
    others = [j for j in range(len(fmts)) if _want(fmts[j])[1] != _want(fmts[k])[1]]
    kd = rng.choice(others) if others else k
    pcs2 = [{"f": k, "text": t[0]}, {"f": k, "text": t[1]}, {"text": t[2]}, {"text": t[3]}, {"f": kd, "text": t[4]},
            {"f": k, "text": ""}, {"text": ""}]
    seams = {"same": ([4, 0], [1]), "diff": ([0], [4]), "plain": ([0, 2], [3]), "empty": ([0], [5, 6]), "first": ([], [0]),
             "several": ([2, 0], [1, 4, 3])}
    for seam, (init, added) in seams.items():
        for how in ("one", "list", "tuple", "addx", "self"):
            if how == "one":
                ops = [["new", 0, init], ["r", 0]] + [["add", 0, [p], "one"] for p in added] + [["r", 0], ["r", 0]]
            elif how in ("list", "tuple"):
                ops = [["new", 0, init], ["r", 0], ["add", 0, added, how], ["r", 0], ["r", 0]]
            elif how == "addx":
                ops = [["new", 0, init], ["new", 1, added], ["r", 0], ["r", 1], ["addx", 0, 1], ["r", 0], ["r", 1],
                       ["add", 1, [1], "one"], ["r", 0], ["r", 1]]
            else:
                ops = [["new", 0, init + added], ["r", 0], ["addx", 0, 0], ["r", 0], ["r", 0]]
            out.append({"k": "seq", "fmts": fmts, "pieces": pcs2, "n": 2, "ops": ops})
    # x + piece and piece + x are new texts: the operand is not changed, and later changes of either do not show in the other
    for seam, (init, added) in seams.items():
        how = rng.choice(["one", "list", "tuple"]) if len(added) == 1 else rng.choice(["list", "tuple"])
        out.append({"k": "seq", "fmts": fmts, "pieces": pcs2, "n": 2,
                    "ops": [["new", 0, init], ["r", 0], ["plus", 1, 0, added, how], ["r", 0], ["r", 1], ["add", 0, [1], "one"], ["r", 1],
                            ["r", 0], ["plus", 0, 0, added, how], ["r", 0]]})
        out.append({"k": "seq", "fmts": fmts, "pieces": pcs2, "n": 2,
                    "ops": [["new", 0, added], ["r", 0], ["rplus", 1, (init or [0])[-1], 0], ["r", 0], ["r", 1], ["add", 1, [1], "one"],
                            ["r", 0], ["r", 1]]})
    # pieces of one formatter with different texts, of different formatters with the same text
    mk(1, [["rp", 0], ["rp", 1], ["rp", 5], ["rp", 4], ["rp", 0]])
    # one bytes formatter for several texts, several bytes formatters for one text
    mk(1, [["b", k, t[0]], ["b", k, t[1]], ["b", k2, t[0]], ["b", k, t[0]], ["rp", 0]])
    return out


PAD_FILLS = [" ", "*", "0", "x", "_", ".", "<", ">", "^", "s", "m", "[", ";", "7", "é", "中", "\t"]


def _pad_case(rng, i):
    """format(obj, [[fill]align][width][s]); obj = the chunk ColorFmt(..)(text) (3 of 4) or CHText(chunk); the formatter
    has a background / an effect / a colour (a visible fill character shows a colour too); width mostly > len(text)"""
    r = rng.random()
    a = {"color": _valid_color(rng)}
    if r < 0.45:
        a["bg"] = _valid_color(rng) or {"s": rng.choice(ANSI_NAMES)}
    if r > 0.3:
        a.update(_effects(rng.randrange(1, 32)))
    if rng.random() < 0.06:
        a["no_color"] = True
    text = _text(rng, 1, 5)
    align = rng.choice(["", "", "<", ">", "^", ">", "^"])
    fill = rng.choice(PAD_FILLS) if align and rng.random() < 0.6 else ""
    width = rng.choice([0, len(text), len(text) + 1, len(text) + 2, len(text) + 3, len(text) + rng.randint(1, 7), rng.randint(1, 12)])
    spec = fill + align + (str(width) if width else "") + rng.choice(["", "", "s"])
    return {"k": "pad", "args": a, "text": text, "spec": spec, "bare": i % 4 != 3,
            "how": rng.choice(["format", "format", "fstr", "strformat"])}


def gen_cases(rng, tier):
    big = tier == "thorough"
    cases = []
    # --- exhaustive sweeps of the finite colour space
    for name in ANSI_NAMES:
        cases.append(_fmt({"color": {"s": name}}, _text(rng, 1, 4)))
        cases.append(_fmt({"bg": {"s": name}}, _text(rng, 1, 4)))
    for n in range(256):
        cases.append(_fmt({"color": {"i": n}}, _text(rng, 1, 4)))
        cases.append(_fmt({"bg": {"i": n}, "color": rng.choice(REPR_COLORS)}, _text(rng, 0, 4)))
    for r in range(6):
        for g in range(6):
            for b in range(6):
                kind = "tl"[(r + g + b) % 2]
                cases.append(_fmt({"color": {kind: [r, g, b]}}, _text(rng, 1, 3)))
                if big or (r * 36 + g * 6 + b) % 3 == 0:
                    cases.append(_fmt({"bg": {"tl"[(r + g + b + 1) % 2]: [r, g, b]}, "color": rng.choice(REPR_COLORS)}, _text(rng, 1, 3)))
    for k in range(26):
        cases.append(_fmt({"color": {"s": f"g{k}"}}, _text(rng, 1, 3)))
        cases.append(_fmt({"bg": {"s": f"g{k}"}}, _text(rng, 1, 3)))
    for mask in range(32):
        for c in REPR_COLORS:
            cases.append(_fmt(dict(color=c, **_effects(mask)), _text(rng, 1, 4)))
        cases.append(_fmt(dict(color=rng.choice(REPR_COLORS), bg=rng.choice(REPR_COLORS), **_effects(mask)), _text(rng, 0, 4)))
    # --- effect arguments that are falsy / truthy non-bools
    for val in (False, 0, 1, "x", ""):
        cases.append(_fmt({"color": {"s": "BLUE"}, "bold": val, "crossed": val}, "t"))
        cases.append(_fmt({"color": None, "underline": val}, "t"))
    # --- invalid, lenient and unclaimed values, as fg and as bg, with and without no_color
    for c in INVALID_COLORS + LENIENT_COLORS + UNCLAIMED_COLORS + BOOL_COLORS:
        cases.append(_fmt({"color": c}, "ab"))
        cases.append(_fmt({"bg": c}, "ab"))
        cases.append(_fmt({"color": {"s": "RED"}, "bg": c, "bold": True}, "x"))
    for c in INVALID_COLORS[:12] + [{"l": [1, 2, 3]}, {"i": 5}, None]:
        cases.append(_fmt({"color": c, "no_color": True, "bold": True}, _text(rng, 0, 4)))
    cases.append(_fmt({"color": {"i": -1}, "bg": {"l": [9, 9, 9]}}, "x"))
    cases.append(_fmt({"color": {"l": [9, 9, 9]}, "bg": {"i": -1}}, "x"))
    cases.append(_fmt({"color": {"t": [{"s": "a"}, 1, 2]}, "bg": {"i": -1}}, "x"))
    cases.append(_fmt({"color": None}, "plain"))
    cases.append(_fmt({"color": None}, ""))
    cases.append(_fmt({"color": {"i": 7}}, ""))
    # --- texts that look like parameters, or contain ESC (correspondence only)
    for text in ["0m", ";1m", "m", "[0m", "1;2", ":5:1m", "38:5:1", "٣m", "x\x1b[0my", "\x1b", "\x1b[", "\x1b[31", "a\x1b[1mb", "\x1b[٣m"]:
        cases.append(_fmt({"color": {"i": 9}}, text))
        cases.append(_fmt({"color": {"s": "GREEN"}, "bg": {"s": "g3"}, "blink": True}, text))
        cases.append(_fmt({"color": None}, text))
    # --- random combinations
    for _ in range(3000 if big else 250):
        a = {"color": _valid_color(rng), "bg": _valid_color(rng)}
        a.update(_effects(rng.randrange(32)))
        if rng.random() < 0.05:
            a["no_color"] = True
        if rng.random() < 0.08:
            a[rng.choice(["color", "bg"])] = rng.choice(INVALID_COLORS + LENIENT_COLORS + UNCLAIMED_COLORS + BOOL_COLORS)
        cases.append(_fmt(a, _text(rng)))
    # --- CHText of several parts
    for _ in range(2500 if big else 250):
        pool = []
        for _ in range(rng.randint(1, 3)):
            a = {"color": _valid_color(rng), "bg": _valid_color(rng) if rng.random() < 0.4 else None}
            a.update(_effects(rng.randrange(32) if rng.random() < 0.5 else 0))
            pool.append(a)
        if rng.random() < 0.3:
            pool.append({"color": None})
        if rng.random() < 0.1:
            pool.append({"color": {"s": "RED"}, "no_color": True})
        if rng.random() < 0.04:
            pool.append({"color": rng.choice(INVALID_COLORS)})
        items = []
        for _ in range(rng.randint(1, 6)):
            if rng.random() < 0.25:
                items.append({"text": _text(rng, 0, 4)})
            else:
                items.append({"args": rng.choice(pool), "text": _text(rng, 0, 5)})
        cases.append({"k": "text", "items": items})
    # same colour spelled differently: equal prefixes merge
    cases.append({"k": "text", "items": [{"args": {"color": {"t": [0, 0, 0]}}, "text": "ab"}, {"args": {"color": {"i": 16}}, "text": "cd"},
                                         {"args": {"color": {"l": [0, 0, 0]}}, "text": "ef"}]})
    cases.append({"k": "text", "items": [{"args": {"color": {"s": "g0"}}, "text": "ab"}, {"args": {"color": {"i": 232}}, "text": ""},
                                         {"text": ""}, {"args": {"color": {"i": 232}}, "text": "cd"}, {"text": "x"}, {"text": "y"}]})
    cases.append({"k": "text", "items": [{"args": {"color": {"b": True}}, "text": "ab"}, {"args": {"color": {"i": 1}}, "text": "cd"}]})
    cases.append({"k": "text", "items": []})
    cases.append({"k": "text", "items": [{"args": {"color": {"i": 300}}, "text": "a"}, {"args": {"color": {"d": 1}}, "text": "b"}]})
    # --- texts are mutable: operation sequences (render, extend, render again ...) over shared objects
    for _ in range(2500 if big else 260):
        cases.append(_seq_random(rng))
    for _ in range(60 if big else 8):
        cases += _seq_templates(rng)
    # every pair of formatters a coarse cache key confuses, in one process, used after all were created
    conf = [{"color": {"i": 1}}, {"color": {"b": True}}, {"bg": {"i": 1}, "color": None}, {"color": {"i": 1}, "bold": True},
            {"color": {"i": 1}, "no_color": True}, {"color": {"s": "RED"}}, {"color": {"t": [0, 0, 1]}}, {"color": {"l": [0, 0, 1]}},
            {"color": {"i": 17}}, {"color": {"i": 0}}, {"color": None}, {"color": {"b": False}}, {"color": {"s": "g1"}}, {"color": {"i": 233}},
            {"color": {"i": 1}, "bg": {"i": 2}}, {"color": {"i": 2}, "bg": {"i": 1}}, {"color": None, "bold": True}, {"color": None, "faint": True}]
    for lo in range(0, len(conf), 3):
        fm = conf[lo:] + conf[:lo]
        fm = fm[:6]
        cases.append({"k": "seq", "fmts": fm, "pieces": [{"f": i, "text": "ab"[i % 2]} for i in range(6)], "n": 1,
                      "ops": [["rp", i] for i in range(3)] + [["b", i, "c"] for i in range(3, 6)]})
        cases.append({"k": "seq", "fmts": fm, "pieces": [{"f": i, "text": "xy"} for i in range(6)], "n": 2,
                      "ops": [["new", 0, [0, 1, 2, 3, 4, 5]], ["r", 0], ["new", 1, [5, 4, 3]], ["add", 1, [3], "one"], ["r", 1], ["r", 0]]})
    # values that are == (and hash alike) but are different colour specifications: 2 / 2.0, True / 1.0, (1,2,3) / (1.0,2.0,3.0)
    for first, second in (({"i": 2}, {"f": 2.0}), ({"b": True}, {"f": 1.0}), ({"i": 0}, {"f": 0.0}), ({"i": 1}, {"b": True}),
                          ({"t": [1, 2, 3]}, {"t": [{"f": 1.0}, {"f": 2.0}, {"f": 3.0}]}), ({"t": [1, 0, 0]}, {"t": [{"b": True}, 0, 0]}),
                          ({"i": 0}, {"b": False})):
        for slot in ("color", "bg"):
            fm = [{"color": None, slot: first, "bold": True}, {"color": None, slot: second, "bold": True}]
            cases.append({"k": "seq", "fmts": fm, "pieces": [{"f": 0, "text": "a"}, {"f": 1, "text": "b"}], "n": 1,
                          "ops": [["rp", 0], ["rp", 1], ["b", 0, "c"], ["b", 1, "d"]]})
    # --- round 5: fill / align / width applied to the bare chunk a formatter returns and to the one-chunk text
    for i in range(1500 if big else 160):
        cases.append(_pad_case(rng, i))
    # --- strip_colors on arbitrary strings (model fidelity of the pattern; no claim)
    alpha = [ESC, ESC, "[", "[", ";", ":", "0", "1", "3", "8", "m", "m", "a", "K", "?", " ", "é", "\n"]
    for _ in range(2000 if big else 250):
        cases.append({"k": "strip", "s": "".join(rng.choice(alpha) for _ in range(rng.randint(0, 16)))})
    for s in ["", ESC, ESC + "[", ESC + "[m", ESC + "[0m", ESC + "[38:5:200m", ESC + "[38;5;200m", ESC + "[1;2;4;5;9m", ESC + "[?25l",
              ESC + "[2J", ESC + ESC + "[0m", ESC + "[" + ESC + "[0m", ESC + "[0;" + ESC + "[1mm", ESC + "[0mm", ESC + "[;;m", ESC + "[::m",
              ESC + "[39m", ESC + "[90m", ESC + "[38:5:256m", ESC + "[38:5m", ESC + "[38:2:1:2:3m", ESC + "[010m", ESC + "[31" + "m" * 3,
              "x" + ESC + "]0;title\x07y", ESC + "[٣m", ESC + "[31٣m", ESC + "(B", ESC + "[31 m", ESC + "[31\x7fm", ESC + "[38:5:Truem"]:
        cases.append({"k": "strip", "s": s})
    return cases


def kind(case):
    return case["k"]


def nontrivial(case, obs):
    if case["k"] == "strip":
        return ESC in case["s"]
    if case["k"] == "seq":
        return any(pc.get("f") is not None for pc in case["pieces"]) and any(op[0] in ("r", "rp", "b") for op in case["ops"])
    if case["k"] in ("fmt", "pad"):
        a = case["args"]
        return any(a.get(k) for k in ["color", "bg"] + EFFECTS)
    return any("args" in it for it in case["items"])


def outcome(case, obs):
    if "__hang__" in obs:
        return "hang"
    if case["k"] == "strip":
        return "strip"
    r = obs["t"] if case["k"] == "fmt" else obs["r"]
    if case["k"] == "seq" and r[0] == "ok":
        ops = case["ops"]
        again = any(ops[j][0] == "r" and any(ops[m][0] == "r" and ops[m][1] == ops[j][1] for m in range(j)) for j in range(len(ops)))
        return "seq:ok:" + ("re-rendered" if again else "rendered-once")
    return case["k"] + ":" + (r[0] if r[0] == "ok" else r[1])


def shrink_candidates(case):
    if case["k"] == "fmt":
        a = case["args"]
        if len(case["text"]) > 1:
            yield _fmt(a, case["text"][:1])
            yield _fmt(a, "x")
        for key in list(a):
            if key in EFFECTS or (key in ("color", "bg") and a[key] is not None and len([k for k in ("color", "bg") if a.get(k)]) > 1):
                b = dict(a)
                del b[key]
                yield _fmt(b, case["text"])
    elif case["k"] == "seq":
        ops = case["ops"]
        for i in range(len(ops)):
            yield dict(case, ops=ops[:i] + ops[i + 1:])
        for i, op in enumerate(ops):
            if op[0] == "plus" and len(op[3]) > 1:
                for j in range(len(op[3])):
                    yield dict(case, ops=ops[:i] + [op[:3] + [op[3][:j] + op[3][j + 1:]] + op[4:]] + ops[i + 1:])
            if op[0] in ("add", "new") and len(op[2]) > 1:
                for j in range(len(op[2])):
                    yield dict(case, ops=ops[:i] + [op[:2] + [op[2][:j] + op[2][j + 1:]] + op[3:]] + ops[i + 1:])
    elif case["k"] == "text":
        items = case["items"]
        if len(items) == 1 and "args" in items[0]:
            yield _fmt(items[0]["args"], items[0]["text"])
        for i in range(len(items)):
            if len(items) > 1:
                yield {"k": "text", "items": items[:i] + items[i + 1:]}


TECHNIQUE = ("Second tie to the code: _ColorSequences._make_seq_element and .make are translated from the current source to Gallina on "
             "every run by the shared fail-closed translator harness/lib/pytranslate.py (coq/gen/C09_Translated.v), proved equal to the "
             "hand model on ALL Python values (coq/C09/TransEq.v) and the main theorems are restated for the translated functions "
             "(coq/C09/PropsTranslated.v); the correspondence run evaluates the translated make next to the hand model's.  First tie: "
             "Coq proof (induction over chunk lists and parameter lists, exhaustive computation over the 256 colour codes) on a "
             "hand-written Gallina model + reference ECMA-48 terminal as specification + per-run correspondence check "
             "(vm_compute vs implementation, single calls and operation sequences on shared mutable objects) + constants "
             "regenerated from the source")
LEVEL_TEXT = ("Full, about the model of ak/color.py, for unbounded lists of parts and texts: term_shows / chunk_shows (a reference "
              "ECMA-48 terminal starting in default state shows every character with exactly the requested fg, bg and effects, for "
              "the 8 names, ints 0..255, (r,g,b) tuples/lists, g0..g23, all 32 effect combinations, and ends in default state), "
              "no_bleed (default state after every chunk and every initial segment, for everything make accepts), strip_render "
              "(strip_colors(str(x)) == x.plain_text() == the texts), sgr_wellformed (ESC[p(;p)*m, p = digits(:digits)*, suffix "
              "ESC[0m), no_color_no_esc, bytes_same (ColorBytes == encoded ColorFmt, same accept/reject), invalid_raises (everything "
              "outside the exactly characterised accepted set raises ValueError, colour first then background) with accepted_exact, "
              "colour_of_iff.  Texts are mutable: incremental_same (x += parts, x += other text, CHText(other) give exactly the chunk "
              "list of the text built at once), seq_incremental (after ANY sequence of +=, CHText(..), x + p, p + x on n texts over shared "
              "pieces every text is the text built at once from the pieces of its history), seq_strip_render and seq_shows (strip_render, "
              "no bleed and term_shows in every reachable state).  That the implementation's str()/plain_text()/len() depend on the "
              "current chunk list only (no memo, no aliasing between texts) is NOT a theorem: it is what the correspondence check on "
              "~710 operation sequences per run (render, change, render again) tests.  The name table, effect codes and order, prefix/suffix literals, all thresholds/multipliers, the "
              "isinstance guards added by the repairs and the strip pattern's character class are re-read from the source on every "
              "run and the obligations about them (table = ANSI table, all 256 codes parse back to Idx n, class covers digits ; : "
              "and excludes m, ...) are re-proved by computation.  The model is compared with the implementation on ~2950 (quick) / "
              "~15000 (thorough) cases per run including the exhaustive sweep of the finite colour space.  Not proved, tested only: "
              "int() on non-ASCII digit strings after 'g' and \\d matching non-ASCII digits (outside the model, oracle only).")
LEVEL_NOTE = ("For translated_mse_eq, translated_make_eq, sgr_wellformed_translated, term_shows_translated, no_bleed_translated, "
              "strip_render_translated, invalid_raises_translated (coq/C09/PropsTranslated.v, closed under the global context) the trusted "
              "part is the translator harness/lib/pytranslate.py + coq/Common/PyLib.v (self-tested against CPython, not verified) and the "
              "declared parameter types, NOT the hand model's fidelity for _ColorSequences; an edit of those two methods that changes "
              "behaviour breaks TransEq.v (or leaves the translator's subset = broken proof step), a behaviour-preserving edit the proof "
              "script does not survive is reported as a broken obligation without failing input.  For everything else -- "
              "Trusted: Coq kernel + vm_compute; the hand model's fidelity (checked by correspondence, not proved; the model is a pure "
              "function of the operation history, so hidden state of the implementation shows only on the histories that are run); the reference "
              "terminal Term.v as the meaning of 'shows'; re.sub / int() / str.encode semantics; the ast extractor and harness.")
DESIGN_REF = "DESIGN.md section 8, C09"
