(* C20/PyLib.v -- the target vocabulary of harness/props/c20_translate.py.
   Each definition gives the meaning of ONE Python construct of the supported
   subset (CPython 3 semantics), on the representations
     int -> Z     bool -> bool     str -> list Z (code points)
     list[T] -> list T     dict[K, V] -> list (K * V) in insertion order
     "any object" -> pyobj     exceptions -> Common.Err.res
   A one-character string is a str of length 1 (Python has no char type): the
   elements of list("ab") and the items of a `for c in "ab"` are [97] and [98].
   This file is part of the trusted base of the translated theorems.
   No proofs here (lemmas: PyLibLemmas.v). *)
From Coq Require Import ZArith List Bool.
From AK Require Import Common.Sx Common.Err.
Import ListNotations.
Open Scope Z_scope.

(* an argument of unknown type: all the subset can do with it is isinstance(_, str) *)
Inductive pyobj := PyStr (s : list Z) | PyOther.

(* how a block containing `return` ends: with the function's result, or normally *)
Inductive flow (R S : Type) : Type := Return (r : R) | Next (s : S).
Arguments Return {R S} r.
Arguments Next {R S} s.

(* what the module imports from the standard library (module uuid).  Every
   translated function takes such a record as its first parameter. *)
Record uuid_lib : Type := {
  UUID : Type;                               (* uuid.UUID objects *)
  UUID_of_int : Z -> res UUID;               (* uuid.UUID(int=n) *)
  UUID_of_str : list Z -> res UUID;          (* uuid.UUID(s), s a str *)
  UUID_int : UUID -> Z                       (* u.int *)
}.

(* ---- truth values, numbers ---- *)
Definition py_truthy_int (n : Z) : bool := negb (n =? 0).
Definition py_truthy_list {A} (l : list A) : bool := match l with [] => false | _ :: _ => true end.

(* //, %, divmod: floor division, remainder with the sign of the divisor (= Z.div / Z.modulo);
   ZeroDivisionError has no code of its own in Common/Err.v *)
Definition py_floordiv (a b : Z) : res Z := if b =? 0 then Err OtherErr else Ok (a / b).
Definition py_mod (a b : Z) : res Z := if b =? 0 then Err OtherErr else Ok (a mod b).
Definition py_divmod (a b : Z) : res (Z * Z) := if b =? 0 then Err OtherErr else Ok (a / b, a mod b).

(* ---- sequences ---- *)
Definition py_len {A} (l : list A) : Z := Z.of_nat (length l).
Definition py_chars (s : list Z) : list (list Z) := map (fun c => [c]) s.   (* list(s), iter(s) *)
Definition py_join (sep : list Z) (parts : list (list Z)) : list Z :=
  match parts with
  | [] => []
  | p :: r => p ++ flat_map (fun q => sep ++ q) r
  end.
Definition py_str_mul (s : list Z) (n : Z) : list Z := concat (repeat s (Z.to_nat n)).   (* n <= 0 gives "" *)

Fixpoint py_str_eqb (a b : list Z) : bool :=
  match a, b with
  | [], [] => true
  | x :: a', y :: b' => (x =? y) && py_str_eqb a' b'
  | _, _ => false
  end.

(* seq[i]: negative i counts from the end, IndexError outside *)
Definition py_index_pos (len i : Z) : option nat :=
  let j := if i <? 0 then i + len else i in
  if (0 <=? j) && (j <? len) then Some (Z.to_nat j) else None.
Definition py_list_get {A} (l : list A) (i : Z) : res A :=
  match py_index_pos (py_len l) i with
  | Some k => match nth_error l k with Some x => Ok x | None => Err IndexErr end
  | None => Err IndexErr
  end.
Definition py_str_get (s : list Z) (i : Z) : res (list Z) :=
  match py_list_get s i with Ok c => Ok [c] | Err e => Err e end.

(* seq[lo:hi] (step 1), bounds clamped as Python does; None = omitted *)
Definition py_clamp (len : Z) (i : option Z) (dflt : Z) : Z :=
  match i with
  | None => dflt
  | Some i => let j := if i <? 0 then i + len else i in Z.max 0 (Z.min len j)
  end.
Definition py_slice {A} (l : list A) (lo hi : option Z) : list A :=
  let n := py_len l in
  let a := py_clamp n lo 0 in
  let b := py_clamp n hi n in
  firstn (Z.to_nat (b - a)) (skipn (Z.to_nat a) l).

Definition py_range (lo hi : Z) : list Z := map (fun k => lo + Z.of_nat k) (seq 0 (Z.to_nat (hi - lo))).

Fixpoint py_enumerate_from {A} (start : Z) (l : list A) : list (Z * A) :=
  match l with
  | [] => []
  | x :: r => (start, x) :: py_enumerate_from (start + 1) r
  end.

(* x in seq, seq.index(x) (first position, ValueError when absent) *)
Definition py_in {A} (eqb : A -> A -> bool) (x : A) (l : list A) : bool := existsb (eqb x) l.
Fixpoint py_list_index_from {A} (eqb : A -> A -> bool) (x : A) (l : list A) (pos : Z) : res Z :=
  match l with
  | [] => Err ValueErr
  | y :: r => if eqb y x then Ok pos else py_list_index_from eqb x r (pos + 1)
  end.
Definition py_list_index {A} (eqb : A -> A -> bool) (l : list A) (x : A) : res Z := py_list_index_from eqb x l 0.

(* str.rjust / str.ljust (TypeError unless the fill is one character),
   str.strip / lstrip / rstrip with an explicit set of characters *)
Definition py_rjust (s : list Z) (w : Z) (fill : list Z) : res (list Z) :=
  match fill with [c] => Ok (repeat c (Z.to_nat (w - py_len s)) ++ s) | _ => Err TypeErr end.
Definition py_ljust (s : list Z) (w : Z) (fill : list Z) : res (list Z) :=
  match fill with [c] => Ok (s ++ repeat c (Z.to_nat (w - py_len s))) | _ => Err TypeErr end.
Fixpoint py_lstrip (s chars : list Z) : list Z :=
  match s with
  | [] => []
  | c :: r => if existsb (Z.eqb c) chars then py_lstrip r chars else s
  end.
Definition py_rstrip (s chars : list Z) : list Z := rev (py_lstrip (rev s) chars).
Definition py_strip (s chars : list Z) : list Z := py_rstrip (py_lstrip s chars) chars.

(* ---- dict as the list of (key, value) in insertion order; a later pair with
   the same key wins (dict(pairs), dict comprehension); d[k] raises KeyError *)
Fixpoint py_dict_find {K V} (eqb : K -> K -> bool) (d : list (K * V)) (k : K) (found : option V) : option V :=
  match d with
  | [] => found
  | (k', v) :: r => py_dict_find eqb r k (if eqb k' k then Some v else found)
  end.
Definition py_dict_get {K V} (eqb : K -> K -> bool) (d : list (K * V)) (k : K) : res V :=
  match py_dict_find eqb d k None with Some v => Ok v | None => Err KeyErr end.
Definition py_dict_has {K V} (eqb : K -> K -> bool) (d : list (K * V)) (k : K) : bool :=
  match py_dict_find eqb d k None with Some _ => true | None => false end.

(* ---- objects, exceptions ---- *)
Definition py_isinstance_str (o : pyobj) : bool := match o with PyStr _ => true | PyOther => false end.

(* except (C1, C2, ...): does the clause catch e?  (running out of fuel is not an exception) *)
Definition py_catches (classes : list err) (e : err) : bool :=
  match e with Hang => false | _ => existsb (err_eqb e) classes end.
