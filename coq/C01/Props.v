(* C01/Props.v -- the property theorems, nothing else.
   Every parse result is a valid derivation of the user's grammar.

   Vocabulary (LLP/*.v = model of ak/llparser.py, C01/Spec.v, C01/Run.v):
     ugrammar            the productions as the user wrote them: symbol -> ordered alternatives
     uprods ug s         the user's alternatives of s ([] if s is not one of the user's symbols)
     factorize / build   _factorize_productions (common-prefix factorization, 'smart' undo) /
                         the constructor pipeline; p_grammar = prods_map, p_sfxs = _suffix_symbols
     parse is_term table sfxs toks k start    the main loop of LLParser.parse on the token list
                         toks (non-skipped tokens, $END$ last) with a budget of 2^k iterations;
                         Ok t = a tree was returned (Err Hang = budget exhausted, excluded)
     p_parse p k toks    the same for a built parser p
     valid_tree ug t     every inner node (name, names of its children) is one of the user's
                         productions of that symbol; a childless node is an empty production
     no_helper sfxs t    no node or leaf of t is named by a suffix (helper) symbol
     kinds_ok is_term t  leaves are named by terminals, inner nodes by non-terminals
     leaves t            (name, value) of the leaves, left to right;  tok_pair tk = (tname tk, tvalue tk)
     fact_ok ug fg sfxs  executable validator of a factorization: suffix symbols occur only as
                         the last symbol of a production, no user symbol is a suffix symbol, keys
                         of fg are distinct, the non-suffix keys are the user's symbols in order and
                         their productions with suffix symbols expanded are EXACTLY the user's
                         productions, in order
     hyps_ok ug start p  fact_ok for p + no suffix symbol is a terminal + start is a user symbol
   Results: parse_sound (the loop, any table contained in the grammar, any factorization the validator
   accepts), table_sub, factorize_ok (the validator accepts every factorization the constructor makes),
   parse_sound_constructor (C01 for every accepted constructor call, no validator hypothesis). *)
From Coq Require Import ZArith List Bool.
From AK Require Import LLP.Build C01.Spec C01.Run C01.Lemmas C01.LemmasFact C01.LemmasTable C01.FactSmart4 C01.FactFuel C01.LemmasTop.
Import ListNotations.
Open Scope Z_scope.

(* ---- the parse loop: all token lists, all budgets, ANY table contained in the grammar ---- *)
Theorem parse_sound : forall ug fg sfxs is_term table toks k start t,
  fact_ok ug fg sfxs = true ->
  (forall nt tok r, In r (table nt tok) -> In r (grules fg nt)) ->
  (forall s, mem s sfxs = true -> is_term s = false) ->
  is_term END_TOKEN = true ->
  In start (map fst ug) ->
  parse is_term table sfxs toks k start = Ok t ->
  tree_name t = start /\ valid_tree ug t /\ no_helper sfxs t /\ kinds_ok is_term t /\
  exists n tk, nth_error toks n = Some tk /\ tname tk = END_TOKEN /\
               leaves t = map tok_pair (firstn n toks).
Proof. exact parse_sound_l. Qed.
Print Assumptions parse_sound.

(* the token list as the tokenizer delivers it: $END$ last and only there *)
Theorem parse_sound_tokens : forall ug fg sfxs is_term table body e k start t,
  fact_ok ug fg sfxs = true ->
  (forall nt tok r, In r (table nt tok) -> In r (grules fg nt)) ->
  (forall s, mem s sfxs = true -> is_term s = false) ->
  is_term END_TOKEN = true ->
  In start (map fst ug) ->
  (forall b, In b body -> tname b <> END_TOKEN) ->
  parse is_term table sfxs (body ++ [e]) k start = Ok t ->
  tree_name t = start /\ valid_tree ug t /\ no_helper sfxs t /\ kinds_ok is_term t /\
  leaves t = map tok_pair body.
Proof. exact parse_sound_tokens_l. Qed.
Print Assumptions parse_sound_tokens.

(* ---- the table the constructor builds is contained in the grammar ---- *)
Theorem table_sub : forall g terms start nt tok r,
  In r (table_get (make_tables g terms start) nt tok) -> In r (grules g nt).
Proof. exact LemmasTable.table_sub. Qed.
Print Assumptions table_sub.

(* ---- a parser made by the constructor ---- *)
Theorem parse_sound_build : forall ug terminals smart start p k body e t,
  build ug terminals smart start = Ok p ->
  hyps_ok ug start p = true ->
  (forall b, In b body -> tname b <> END_TOKEN) ->
  p_parse p k (body ++ [e]) = Ok t ->
  tree_name t = start /\ valid_tree ug t /\ no_helper (p_sfxs p) t /\
  kinds_ok (fun s => mem s (p_terminals p)) t /\ leaves t = map tok_pair body.
Proof. exact parse_sound_build_h. Qed.
Print Assumptions parse_sound_build.

(* ---- the hypotheses are satisfiable: nested common prefixes, a nullable symbol, a roll-back ---- *)
Definition xS := [83]. Definition xE := [69]. Definition xA := [65]. Definition xX := [88].
Definition xa := [97]. Definition xb := [98]. Definition xc := [99]. Definition xd := [100]. Definition xe := [101].
(* S -> E X ;  E -> A b c | A b d | A e ;  A -> a | <empty> ;  X -> a b | c | a d *)
Definition ex_ug : ugrammar :=
  [(xS, [[xE; xX]]); (xE, [[xA; xb; xc]; [xA; xb; xd]; [xA; xe]]); (xA, [[xa]; []]); (xX, [[xa; xb]; [xc]; [xa; xd]])].
Definition ex_terms := [xa; xb; xc; xd; xe].
Definition ex_body := [mkTok xb [98; 49] (1, 1) (1, 3); mkTok xd xd (1, 4) (1, 5);
                       mkTok xa xa (1, 6) (1, 7); mkTok xd [100; 55] (1, 8) (1, 10)].
Definition ex_end := mkTok END_TOKEN [] (1, 10) (1, 10).
Definition ex_tree (t : tree) : bool :=
  match t with
  | Node s [Node e [Node a [] _; Leaf b1 _ _; Leaf d1 _ _] _; Node x [Leaf a2 _ _; Leaf d2 _ _] _] _ =>
      sym_eqb s xS && sym_eqb e xE && sym_eqb a xA && sym_eqb b1 xb && sym_eqb d1 xd
      && sym_eqb x xX && sym_eqb a2 xa && sym_eqb d2 xd
  | _ => false
  end.

(* E is factorized twice (E__S00, E__S00__S00); A is matched by its empty production; the table
   offers two productions for (X, a) and the first fails after having matched 'a' (roll-back) *)
Example parse_sound_build_nonvacuous : forall smart,
  exists p t, build ex_ug ex_terms smart xS = Ok p /\ hyps_ok ex_ug xS p = true /\
    (forall b, In b ex_body -> tname b <> END_TOKEN) /\
    p_parse p 6 (ex_body ++ [ex_end]) = Ok t /\ ex_tree t = true /\
    length (p_sfxs p) = (if smart then 1 else 2)%nat /\
    length (table_get (p_tables p) xX xa) = 2%nat.
Proof.
  intros [|]; vm_compute; (eexists; eexists; repeat split; try reflexivity;
    intros b [<-|[<-|[<-|[<-|[]]]]]; discriminate).
Qed.
Print Assumptions parse_sound_build_nonvacuous.

(* ---- the factorization: the validator accepts whatever the constructor produces ---- *)
(* all user grammars, both smart_factorization settings.  [factorize] includes the code's
   assertions (no '__' in a production key or inside a production, no symbol produced twice);
   when one fails the result is Err AssertErr and nothing is claimed *)
Theorem factorize_ok : forall ug terminals smart g sfxs,
  factorize ug terminals smart = Ok (g, sfxs) -> fact_ok ug g sfxs = true.
Proof. exact factorize_ok_l. Qed.
Print Assumptions factorize_ok.

(* ... and the model of _factorize_productions fails only where the code raises AssertionError
   (in particular the fuel of the modelled recursion always suffices: never Hang) *)
Theorem factorize_fails_only_by_assertion : forall ug terminals smart e,
  factorize ug terminals smart = Err e -> e = AssertErr.
Proof. exact factorize_err_l. Qed.
Print Assumptions factorize_fails_only_by_assertion.

(* the check evaluated on every grammar of the correspondence run cannot fail *)
Theorem build_hyps_ok : forall ug terminals smart start p,
  build ug terminals smart start = Ok p -> In start (map fst ug) -> hyps_ok ug start p = true.
Proof. exact build_hyps_ok_l. Qed.
Print Assumptions build_hyps_ok.

(* ---- C01 for every parser the constructor model accepts: no validator hypothesis left ---- *)
Theorem parse_sound_constructor : forall ug terminals smart start p k body e t,
  build ug terminals smart start = Ok p ->
  (forall b, In b body -> tname b <> END_TOKEN) ->
  p_parse p k (body ++ [e]) = Ok t ->
  tree_name t = start /\ valid_tree ug t /\ no_helper (p_sfxs p) t /\
  kinds_ok (fun s => mem s (p_terminals p)) t /\ leaves t = map tok_pair body.
Proof. exact parse_sound_constructor_l. Qed.
Print Assumptions parse_sound_constructor.

(* a user production that mentions a helper name (A -> a b | a c | d A__S00) used to be accepted
   and 'd b' was parsed to A(d b), which the user did not write; since /repo 6e22989 the
   constructor asserts that no symbol inside a production, and not the start symbol, contains '__' *)
Definition xAS00 := [65; 95; 95; 83; 48; 48].
Definition bad_ug : ugrammar := [(xA, [[xa; xb]; [xa; xc]; [xd; xAS00]])].
Example reserved_name_in_production_rejected : forall smart,
  factorize bad_ug [xa; xb; xc; xd] smart = Err AssertErr.
Proof. intros [|]; reflexivity. Qed.
Print Assumptions reserved_name_in_production_rejected.

Example reserved_name_as_start_rejected : forall smart,
  build ex_ug ex_terms smart xAS00 = Err AssertErr.
Proof. intros [|]; reflexivity. Qed.
Print Assumptions reserved_name_as_start_rejected.
