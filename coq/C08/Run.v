(* C08/Run.v -- entry point of the correspondence check: one case = one program.
   The observation of a program (one entry per statement, then the final state of
   every variable) is large, so the bulky parts (format results, chunks, whole
   texts) are printed as a 61-bit polynomial hash of their canonical sx encoding;
   the harness hashes the implementation's observation the same way.
   [run_full] prints everything (for debugging a disagreement). *)
From Coq Require Import ZArith List.
From AK Require Export Common.Sx Common.Err C08.PyStr C08.Model.
Import ListNotations.
Open Scope Z_scope.

Inductive case :=
| Prog (p : list stmt).

Definition hP : Z := 2305843009213693951.   (* 2^61 - 1 *)
Definition hM : Z := 1000003.

Fixpoint sx_hash (s : sx) : Z :=
  match s with
  | SZ z => ((z mod hP) * 2 + 1) mod hP
  | SL l =>
      let fix go (l : list sx) (h : Z) : Z :=
        match l with
        | [] => h
        | x :: r => go r ((h * hM + sx_hash x + 3) mod hP)
        end in
      (go l 5 * 2) mod hP
  end.

(* (0 payload) -> (0 hash(payload)) for the bulky kinds; small observations stay in clear *)
Definition compact_stmt (s : stmt) (o : sx) : sx :=
  match s, o with
  | (OFormat _ _ | OChunkIndex _ _ | OChunkSlice _ _ _ | OChunkFormat _ _ | OIter _ | ORevIter _), SL [SZ 0; payload] =>
      SL [SZ 0; SZ (sx_hash payload)]
  | _, _ => o
  end.

Definition compact_text (t : chtext) : sx :=
  SL [SZ (scrlen t); sx_nat (length (chunks t)); SZ (sx_hash (sx_text t))].

Definition run_full (c : case) : sx :=
  match c with
  | Prog p => let '(st, obs) := exec init_state p in SL [SL obs; SL (dump st)]
  end.

Definition run (c : case) : sx :=
  match c with
  | Prog p =>
      let '(st, obs) := exec init_state p in
      SL [SL (map (fun so => compact_stmt (fst so) (snd so)) (combine p obs));
          SL (map (fun id => compact_text (hget (heap st) id)) (vars st))]
  end.
