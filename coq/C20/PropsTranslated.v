(* C20/PropsTranslated.v -- the property theorems of Props.v once more, for the functions
   translated from the current source; nothing else.  (A file of its own so that Props.v,
   which speaks about the hand-written model only, still checks when the translated code
   has left the hand model: then THIS file is the broken obligation.) *)
From Coq Require Import ZArith List.
From AK Require Import Common.Err gen.C20_Consts C20.Model C20.Lemmas.
From AK Require Import C20.PyLib gen.C20_Translated C20.TransInst C20.TransEq.
Import ListNotations.
Open Scope Z_scope.

(* ==================================================================
   The same property for the functions TRANSLATED from the current text of
   ak/short_uuid.py (gen/C20_Translated.v, written by harness/props/c20_translate.py
   on every run; T_<name> = the Python function <name>).  [mk_lib of_str] supplies the
   standard library's contracts (uuid.UUID(int=n): ValueError unless 0 <= n < 2^128;
   u.int; uuid.UUID(str) = of_str), [fuel] bounds the iterations of the while loop of
   _int_to_str: running out of it is the distinct error [Hang], never a wrong answer.

   First: translated code = hand model, on all inputs. *)
Theorem translated_str_to_int_eq : forall L fuel s, T__str_to_int L fuel s = str_to_int s.
Proof. exact TransEq.translated_str_to_int_eq. Qed.
Print Assumptions translated_str_to_int_eq.

(* fuel: two more than the binary length of the number is enough *)
Theorem translated_int_to_str_eq : forall L fuel n, 0 <= n -> (Z.to_nat (Z.log2 n) + 2 <= fuel)%nat ->
  T__int_to_str L fuel n = Ok (int_to_str n).
Proof. exact TransEq.translated_int_to_str_eq. Qed.
Print Assumptions translated_int_to_str_eq.

Theorem translated_to_short_eq : forall of_str fuel u, 0 <= u -> (Z.to_nat (Z.log2 u) + 2 <= fuel)%nat ->
  T_uuid_to_short_str (mk_lib of_str) fuel u = Ok (uuid_to_short_str u).
Proof. exact TransEq.translated_to_short_eq. Qed.
Print Assumptions translated_to_short_eq.

Theorem translated_from_short_eq : forall of_str fuel a,
  T_uuid_from_short_str (mk_lib of_str) fuel (obj_of a) = uuid_from_short_str a.
Proof. exact TransEq.translated_from_short_eq. Qed.
Print Assumptions translated_from_short_eq.

Theorem translated_from_str_eq : forall std fuel s,
  T_uuid_from_str (mk_lib (of_str_oracle s std)) fuel s = uuid_from_str std s.
Proof. exact TransEq.translated_from_str_eq. Qed.
Print Assumptions translated_from_str_eq.

(* every history of calls is answered by the translated functions as by the model *)
Theorem translated_seq_eq : forall l,
  Forall (fun c => match c with CToShort u => 0 <= u < 2 ^ 128 | _ => True end) l ->
  tr_eval_seq l = eval_seq l.
Proof. exact tr_eval_seq_eq. Qed.
Print Assumptions translated_seq_eq.

(* Then: the property itself, stated of the translated functions (130 iterations are
   enough for every 128-bit value). *)
Theorem roundtrip_translated : forall of_str fuel, (130 <= fuel)%nat -> forall n, 0 <= n < 2 ^ 128 ->
  exists s, T_uuid_to_short_str (mk_lib of_str) fuel n = Ok s /\
            T_uuid_from_short_str (mk_lib of_str) fuel (PyStr s) = Ok n.
Proof. exact roundtrip_t. Qed.
Print Assumptions roundtrip_translated.

Theorem shape_translated : forall of_str fuel, (130 <= fuel)%nat -> forall n, 0 <= n < 2 ^ 128 ->
  exists s, T_uuid_to_short_str (mk_lib of_str) fuel n = Ok s /\
            length s = short_len /\ Forall (fun c => In c alphabet) s.
Proof. exact shape_t. Qed.
Print Assumptions shape_translated.

Theorem injective_translated : forall of_str fuel, (130 <= fuel)%nat -> forall n m,
  0 <= n < 2 ^ 128 -> 0 <= m < 2 ^ 128 ->
  T_uuid_to_short_str (mk_lib of_str) fuel n = T_uuid_to_short_str (mk_lib of_str) fuel m -> n = m.
Proof. exact injective_t. Qed.
Print Assumptions injective_translated.

Theorem accept_iff_translated : forall of_str fuel s n,
  T_uuid_from_short_str (mk_lib of_str) fuel (PyStr s) = Ok n <->
  (length s = short_len /\ Forall (fun c => In c alphabet) s /\ value s < 2 ^ 128) /\ n = value s.
Proof. exact accept_iff_t. Qed.
Print Assumptions accept_iff_translated.

Theorem surjective_on_valid_translated : forall of_str fuel, (130 <= fuel)%nat -> forall s n,
  T_uuid_from_short_str (mk_lib of_str) fuel (PyStr s) = Ok n ->
  0 <= n < 2 ^ 128 /\ T_uuid_to_short_str (mk_lib of_str) fuel n = Ok s.
Proof. exact surjective_t. Qed.
Print Assumptions surjective_on_valid_translated.

Theorem reject_value_error_translated : forall of_str fuel a,
  (forall s, a = PyStr s ->
     ~ (length s = short_len /\ Forall (fun c => In c alphabet) s /\ value s < 2 ^ 128)) ->
  T_uuid_from_short_str (mk_lib of_str) fuel a = Err ValueErr.
Proof. exact reject_t. Qed.
Print Assumptions reject_value_error_translated.

(* uuid_from_str; the oracle answers for the string of the call: Some n = uuid.UUID
   returned n, None = it raised ValueError *)
Theorem from_str_both_translated : forall fuel n, (130 <= fuel)%nat ->
  (forall s, T_uuid_from_str (mk_lib (of_str_oracle s (Some n))) fuel s = Ok n) /\
  (0 <= n < 2 ^ 128 ->
     T_uuid_from_str (mk_lib (of_str_oracle (uuid_to_short_str n) None)) fuel (uuid_to_short_str n) = Ok n) /\
  (forall s, ~ (length s = short_len /\ Forall (fun c => In c alphabet) s /\ value s < 2 ^ 128) ->
             T_uuid_from_str (mk_lib (of_str_oracle s None)) fuel s = Err ValueErr).
Proof. exact from_str_t. Qed.
Print Assumptions from_str_both_translated.

(* non-vacuity: the translated functions run (fuel 200), largest uuid and the three kinds of rejection;
   too little fuel is reported as such *)
Example roundtrip_max_translated :
  match T_uuid_to_short_str lib0 200 (2 ^ 128 - 1) with
  | Ok s => length s = 22%nat /\ T_uuid_from_short_str lib0 200 (PyStr s) = Ok (2 ^ 128 - 1)
  | Err _ => False
  end /\
  T_uuid_from_short_str lib0 0 (PyStr (repeat 48 22)) = Err ValueErr /\
  T_uuid_from_short_str lib0 0 (PyStr (repeat 122 22)) = Err ValueErr /\
  T_uuid_from_short_str lib0 0 (PyStr (repeat 50 21)) = Err ValueErr /\
  T_uuid_from_short_str lib0 0 PyOther = Err ValueErr /\
  T_uuid_to_short_str lib0 5 (2 ^ 128 - 1) = Err Hang.
Proof. vm_compute. repeat split. Qed.
Print Assumptions roundtrip_max_translated.
