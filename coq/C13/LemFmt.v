(* C13/LemFmt.v -- the serialized column / table format is parsed back *)
From Coq Require Import ZArith List Bool Lia.
From AK Require Import Common.Sx Common.Err C13.Model C13.LemStr.
Import ListNotations.
Open Scope Z_scope.

(* ------------------------------------------------------------------ *)
(* the stated character set *)
Definition name_char (c : Z) : bool :=
  negb ((c =? ch_comma) || (c =? ch_colon) || (c =? ch_semi) || (c =? ch_bang) || (c =? ch_slash)).
Definition name_okb (n : str) : bool :=
  forallb name_char n && negb (has_arrow n) && edge_ok is_space n.
Definition mod_char (c : Z) : bool :=
  negb (is_space c || (c =? ch_comma) || (c =? ch_colon) || (c =? ch_semi) || (c =? ch_bang) || (c =? ch_lt)).
Definition modstr_okb (m : str) : bool := forallb mod_char m.
Definition col_okb (c : column) : bool :=
  name_okb (c_name c) && match c_mod c with None => true | Some m => modstr_okb m end
  && (0 <=? c_min c) && (0 <=? c_max c).

(* what the parser must return for a column: everything but the negotiated width *)
Definition pcol_of (c : column) : pcol :=
  mkPcol (c_name c) (c_mod c) (c_break c) None (Some (c_min c)) (Some (c_max c)).

Lemma forallb_lacks (P : Z -> bool) d s :
  P d = false -> forallb P s = true -> lacks d s = true.
Proof.
  intros Hd H. unfold lacks, none_of. rewrite forallb_forall in *. intros c Hc.
  destruct (d =? c) eqn:E; [|reflexivity]. apply Z.eqb_eq in E. subst c.
  rewrite (H d Hc) in Hd. discriminate.
Qed.

Lemma forallb_none_of (P p : Z -> bool) s :
  (forall c, P c = true -> p c = false) -> forallb P s = true -> none_of p s = true.
Proof.
  intros Hp H. unfold none_of. rewrite forallb_forall in *. intros c Hc. rewrite (Hp c (H c Hc)). reflexivity.
Qed.

Lemma mod_char_nospace c : mod_char c = true -> is_space c = false.
Proof. unfold mod_char. destruct (is_space c); [cbn; discriminate|reflexivity]. Qed.

(* ------------------------------------------------------------------ *)
(* width part *)
Definition paren (o : option Z) : str :=
  match o with Some w => ch_lpar :: str_of_int w ++ [ch_rpar] | None => [] end.

Lemma first_digit n : 0 <= n -> exists c r, str_of_int n = c :: r /\ is_digit c = true.
Proof.
  intros H. rewrite (str_of_int_nonneg n H). destruct (nat_str_spec n H) as (H1 & H2 & _).
  destruct (nat_str n) as [|c r]; [congruence|]. exists c, r. split; [reflexivity|].
  cbn [forallb] in H2. apply andb_prop in H2 as [H2 _]. exact H2.
Qed.

Lemma nonneg_lacks n d : 0 <= n -> is_digit d = false -> lacks d (str_of_int n) = true.
Proof. intros H Hd. rewrite (str_of_int_nonneg n H). apply nat_str_lacks; assumption. Qed.

Lemma parse_width_fixed a : 0 <= a -> parse_width (str_of_int a) = Ok (Some a, Some a).
Proof.
  intros Ha. destruct (first_digit a Ha) as (c & r & E & Hc).
  unfold parse_width. rewrite E.
  destruct (digit_props c Hc) as (_ & _ & Hm & _).
  cbn [str_eqb]. rewrite Hm. cbn [andb].
  rewrite <- E.
  rewrite (ends_with_lacks ch_rpar) by (apply nonneg_lacks; [exact Ha|reflexivity]).
  rewrite split_on_none by (apply nonneg_lacks; [exact Ha|reflexivity]).
  cbn [length Z.of_nat]. change (2 <? Z.of_nat 1) with false. cbn [map_res].
  rewrite int_of_str_of_int. reflexivity.
Qed.

Lemma parse_width_range a b o : 0 <= a -> 0 <= b ->
  parse_width (str_of_int a ++ ch_minus :: str_of_int b ++ paren o) = Ok (Some a, Some b).
Proof.
  intros Ha Hb. destruct (first_digit a Ha) as (c & r & E & Hc).
  unfold parse_width.
  destruct (digit_props c Hc) as (_ & _ & Hm & _).
  assert (str_eqb (str_of_int a ++ ch_minus :: str_of_int b ++ paren o) [ch_minus; 49] = false) as E1.
  { rewrite E. cbn [app str_eqb]. rewrite Hm. reflexivity. }
  rewrite E1.
  assert (exists x y, str_of_int a ++ ch_minus :: str_of_int b ++ paren o = x :: y) as (x & y & E2).
  { rewrite E. eexists _, _. reflexivity. }
  rewrite E2. rewrite <- E2. clear E1 E2 x y.
  set (core := str_of_int a ++ ch_minus :: str_of_int b).
  assert (lacks ch_rpar core = true /\ lacks ch_lpar core = true) as [L1 L2].
  { unfold core. rewrite !lacks_app, !lacks_cons.
    rewrite !nonneg_lacks by (assumption || reflexivity). split; reflexivity. }
  assert ((if ends_with ch_rpar (str_of_int a ++ ch_minus :: str_of_int b ++ paren o)
           then match find_char ch_lpar (str_of_int a ++ ch_minus :: str_of_int b ++ paren o) with
                | Some (a0, _) => a0 | None => str_of_int a ++ ch_minus :: str_of_int b ++ paren o end
           else str_of_int a ++ ch_minus :: str_of_int b ++ paren o) = core) as E3.
  { destruct o as [w|]; cbn [paren].
    - replace (str_of_int a ++ ch_minus :: str_of_int b ++ ch_lpar :: str_of_int w ++ [ch_rpar])
        with ((core ++ ch_lpar :: str_of_int w) ++ [ch_rpar])
        by (unfold core; repeat (rewrite <- app_assoc; cbn [app]); reflexivity).
      rewrite ends_with_snoc. rewrite <- app_assoc. cbn [app].
      rewrite (find_char_app ch_lpar core _ L2). reflexivity.
    - rewrite app_nil_r. fold core. rewrite (ends_with_lacks ch_rpar core L1). reflexivity. }
  rewrite E3. unfold core.
  rewrite split_on_app by (apply nonneg_lacks; [exact Ha|reflexivity]).
  rewrite split_on_none by (apply nonneg_lacks; [exact Hb|reflexivity]).
  cbn [length Z.of_nat]. change (2 <? Z.of_nat 2) with false. cbn [map_res].
  rewrite !int_of_str_of_int. reflexivity.
Qed.

Lemma width_str_eq c :
  width_str c = ch_colon ::
    (if c_min c =? c_max c then str_of_int (c_min c)
     else str_of_int (c_min c) ++ ch_minus :: str_of_int (c_max c) ++ paren (c_width c)).
Proof. unfold width_str, paren. destruct (c_min c =? c_max c); [reflexivity|]. destruct (c_width c); reflexivity. Qed.

Definition wtext (c : column) : str :=
  if c_min c =? c_max c then str_of_int (c_min c)
  else str_of_int (c_min c) ++ ch_minus :: str_of_int (c_max c) ++ paren (c_width c).

Lemma parse_width_wtext c : 0 <= c_min c -> 0 <= c_max c ->
  parse_width (wtext c) = Ok (Some (c_min c), Some (c_max c)).
Proof.
  intros Ha Hb. unfold wtext. destruct (c_min c =? c_max c) eqn:E.
  - apply Z.eqb_eq in E. rewrite <- E. apply parse_width_fixed. exact Ha.
  - apply parse_width_range; assumption.
Qed.

(* characters of the width text: digits - ( ) *)
Lemma wtext_lacks c d : is_digit d = false -> (d =? ch_minus) = false -> (d =? ch_lpar) = false ->
  (d =? ch_rpar) = false -> lacks d (wtext c) = true.
Proof.
  intros H1 H2 H3 H4. unfold wtext, paren. destruct (c_min c =? c_max c).
  - apply str_of_int_lacks; assumption.
  - destruct (c_width c) as [w|]; rewrite ?lacks_app, ?lacks_cons, ?lacks_app, ?lacks_cons, ?lacks_app, ?lacks_cons;
      rewrite ?str_of_int_lacks by assumption; rewrite ?H2, ?H3, ?H4; reflexivity.
Qed.

Lemma wtext_nospace c : none_of is_space (wtext c) = true.
Proof.
  unfold wtext, paren. destruct (c_min c =? c_max c); [apply str_of_int_nospace|].
  destruct (c_width c) as [w|];
    rewrite ?none_of_app, ?none_of_cons, ?none_of_app, ?none_of_cons, ?none_of_app, ?none_of_cons;
    rewrite ?str_of_int_nospace; reflexivity.
Qed.

(* ------------------------------------------------------------------ *)
(* the part before ':' *)
Definition head_str (c : column) : str :=
  c_name c ++ match c_mod c with Some m => ch_slash :: m | None => [] end
  ++ (if c_break c then [ch_bang] else []).

Lemma col_to_str_eq c : col_to_str c = head_str c ++ ch_colon :: wtext c.
Proof.
  unfold col_to_str, head_str. rewrite width_str_eq. fold (wtext c). rewrite <- !app_assoc. reflexivity.
Qed.

Section Col.
  Variable c : column.
  Hypothesis Hok : col_okb c = true.

  Let Hname : forallb name_char (c_name c) = true.
  Proof. unfold col_okb, name_okb in Hok. repeat (apply andb_prop in Hok as [Hok ?]). exact Hok. Qed.
  Let Harrow : has_arrow (c_name c) = false.
  Proof. unfold col_okb, name_okb in Hok. repeat (apply andb_prop in Hok as [Hok ?]). apply negb_true_iff. assumption. Qed.
  Let Hedge : edge_ok is_space (c_name c) = true.
  Proof. unfold col_okb, name_okb in Hok. repeat (apply andb_prop in Hok as [Hok ?]). assumption. Qed.
  Let Hmod : match c_mod c with None => true | Some m => modstr_okb m end = true.
  Proof. unfold col_okb in Hok. repeat (apply andb_prop in Hok as [Hok ?]). assumption. Qed.
  Let Hmin : 0 <= c_min c.
  Proof. unfold col_okb in Hok. repeat (apply andb_prop in Hok as [Hok ?]). apply Z.leb_le. assumption. Qed.
  Let Hmax : 0 <= c_max c.
  Proof. unfold col_okb in Hok. repeat (apply andb_prop in Hok as [Hok ?]). apply Z.leb_le. assumption. Qed.

  Definition mod_part : str := match c_mod c with Some m => ch_slash :: m | None => [] end.
  Definition brk_part : str := if c_break c then [ch_bang] else [].

  (* a separator character that neither names nor modifiers may contain *)
  Lemma head_lacks d : name_char d = false -> mod_char d = false ->
    (d =? ch_slash) = false -> (d =? ch_bang) = false -> lacks d (head_str c) = true.
  Proof.
    intros H1 H2 H3 H4. unfold head_str. rewrite !lacks_app.
    rewrite (forallb_lacks name_char d _ H1 Hname).
    assert (lacks d (match c_mod c with Some m => ch_slash :: m | None => [] end) = true) as ->.
    { destruct (c_mod c) as [m|]; [|reflexivity]. rewrite lacks_cons, H3.
      cbn [negb andb]. apply (forallb_lacks mod_char d _ H2 Hmod). }
    destruct (c_break c); [rewrite lacks_cons, H4|]; reflexivity.
  Qed.

  Lemma head_lacks_colon : lacks ch_colon (head_str c) = true.
  Proof. apply head_lacks; reflexivity. Qed.
  Lemma head_lacks_comma : lacks ch_comma (head_str c) = true.
  Proof. apply head_lacks; reflexivity. Qed.
  Lemma head_lacks_semi : lacks ch_semi (head_str c) = true.
  Proof. apply head_lacks; reflexivity. Qed.

  Lemma suffix_nospace : none_of is_space (mod_part ++ brk_part) = true.
  Proof.
    unfold mod_part, brk_part. rewrite none_of_app. apply andb_true_intro. split.
    - destruct (c_mod c) as [m|]; [|reflexivity]. rewrite none_of_cons. apply andb_true_intro.
      split; [reflexivity|]. apply (forallb_none_of mod_char); [apply mod_char_nospace|exact Hmod].
    - destruct (c_break c); reflexivity.
  Qed.

  Lemma head_edge : edge_ok is_space (head_str c) = true.
  Proof.
    unfold head_str. apply edge_ok_app; [exact Hedge|]. apply none_of_edge_ok. apply suffix_nospace.
  Qed.

  Lemma suffix_lacks_lt : lacks ch_lt (mod_part ++ brk_part) = true.
  Proof.
    unfold mod_part, brk_part. rewrite lacks_app. apply andb_true_intro. split.
    - destruct (c_mod c) as [m|]; [|reflexivity]. rewrite lacks_cons. apply andb_true_intro.
      split; [reflexivity|]. apply (forallb_lacks mod_char); [reflexivity|exact Hmod].
    - destruct (c_break c); reflexivity.
  Qed.

  Lemma head_no_arrow : has_arrow (head_str c) = false.
  Proof.
    unfold head_str. apply has_arrow_app; [exact Harrow|apply suffix_lacks_lt|].
    destruct (c_mod c); [reflexivity|]. destruct (c_break c); reflexivity.
  Qed.

  Lemma name_mod_lacks_bang : lacks ch_bang (c_name c ++ mod_part) = true.
  Proof.
    rewrite lacks_app. rewrite (forallb_lacks name_char ch_bang _ eq_refl Hname).
    unfold mod_part. destruct (c_mod c) as [m|]; [|reflexivity]. rewrite lacks_cons.
    cbn [negb andb]. change (ch_bang =? ch_slash) with false. cbn [negb andb].
    apply (forallb_lacks mod_char); [reflexivity|exact Hmod].
  Qed.

  Theorem parse_col_roundtrip : parse_col (col_to_str c) = Ok (pcol_of c).
  Proof.
    unfold parse_col. rewrite col_to_str_eq.
    rewrite (split_on_app ch_colon _ _ head_lacks_colon).
    rewrite split_on_none by (apply wtext_lacks; reflexivity).
    cbn [map]. unfold strip.
    rewrite (strip_with_id _ _ head_edge).
    rewrite (strip_with_id _ (wtext c)) by (apply none_of_edge_ok, wtext_nospace).
    rewrite (find_arrow_none _ head_no_arrow).
    rewrite (parse_width_wtext c Hmin Hmax).
    assert (head_str c = (c_name c ++ mod_part) ++ brk_part) as Eh
      by (unfold head_str, mod_part, brk_part; rewrite app_assoc; reflexivity).
    assert (ends_with ch_bang (head_str c) = c_break c /\
            (if c_break c then removelast (head_str c) else head_str c) = c_name c ++ mod_part) as [E1 E2].
    { rewrite Eh. unfold brk_part. destruct (c_break c).
      - rewrite ends_with_snoc, removelast_last. split; reflexivity.
      - rewrite app_nil_r. split; [|reflexivity]. apply ends_with_lacks, name_mod_lacks_bang. }
    rewrite E1, E2.
    assert (lacks ch_slash (c_name c) = true) as Hs by (apply (forallb_lacks name_char); [reflexivity|exact Hname]).
    unfold mod_part, pcol_of. destruct (c_mod c) as [m|].
    - rewrite (find_char_app ch_slash _ _ Hs). reflexivity.
    - rewrite app_nil_r. rewrite (find_char_none ch_slash _ Hs). reflexivity.
  Qed.

  (* characters of the whole description *)
  Lemma col_to_str_lacks_comma : lacks ch_comma (col_to_str c) = true.
  Proof. rewrite col_to_str_eq, lacks_app, lacks_cons, head_lacks_comma. rewrite wtext_lacks; reflexivity. Qed.
  Lemma col_to_str_lacks_semi : lacks ch_semi (col_to_str c) = true.
  Proof. rewrite col_to_str_eq, lacks_app, lacks_cons, head_lacks_semi. rewrite wtext_lacks; reflexivity. Qed.
  Lemma col_to_str_has_colon : In ch_colon (col_to_str c).
  Proof. rewrite col_to_str_eq. apply in_or_app. right. left. reflexivity. Qed.
End Col.
