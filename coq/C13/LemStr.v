(* C13/LemStr.v -- string-level facts: strip, split, find, int <-> str *)
From Coq Require Import ZArith List Bool Lia.
From AK Require Import Common.Sx Common.Err C13.Model.
Import ListNotations.
Open Scope Z_scope.

(* ------------------------------------------------------------------ *)
(* "no character of s satisfies p" *)
Definition none_of (p : Z -> bool) (s : str) : bool := forallb (fun c => negb (p c)) s.
Definition lacks (d : Z) (s : str) : bool := none_of (Z.eqb d) s.

Lemma none_of_app p a b : none_of p (a ++ b) = none_of p a && none_of p b.
Proof. apply forallb_app. Qed.

Lemma none_of_cons p c s : none_of p (c :: s) = negb (p c) && none_of p s.
Proof. reflexivity. Qed.

Lemma lacks_app d a b : lacks d (a ++ b) = lacks d a && lacks d b.
Proof. apply none_of_app. Qed.

Lemma lacks_cons d c s : lacks d (c :: s) = negb (d =? c) && lacks d s.
Proof. reflexivity. Qed.

Lemma str_eqb_eq a : forall b, str_eqb a b = true <-> a = b.
Proof.
  induction a as [|x a IH]; intros [|y b]; cbn [str_eqb]; split; intros H; try congruence; try discriminate.
  - apply andb_prop in H as [H1 H2]. apply Z.eqb_eq in H1. apply IH in H2. congruence.
  - inversion H; subst. rewrite Z.eqb_refl. cbn. apply IH. reflexivity.
Qed.

Lemma str_eqb_refl a : str_eqb a a = true.
Proof. apply str_eqb_eq. reflexivity. Qed.

(* ------------------------------------------------------------------ *)
(* strip *)
Definition edge_ok (p : Z -> bool) (s : str) : bool :=
  match s with [] => true | c :: _ => negb (p c) end
  && match rev s with [] => true | c :: _ => negb (p c) end.

Lemma dropw_id p s : match s with [] => true | c :: _ => negb (p c) end = true -> dropw p s = s.
Proof.
  destruct s as [|c r]; [reflexivity|]. cbn [dropw]. intros H.
  apply negb_true_iff in H. rewrite H. reflexivity.
Qed.

Lemma strip_with_id p s : edge_ok p s = true -> strip_with p s = s.
Proof.
  unfold edge_ok, strip_with. intros H. apply andb_prop in H as [H1 H2].
  rewrite (dropw_id p s H1). rewrite (dropw_id p (rev s) H2). apply rev_involutive.
Qed.

Lemma none_of_edge_ok p s : none_of p s = true -> edge_ok p s = true.
Proof.
  intros H. unfold edge_ok. apply andb_true_intro. split.
  - destruct s as [|c r]; [reflexivity|]. cbn in H. apply andb_prop in H as [H _]. exact H.
  - assert (none_of p (rev s) = true) as Hr.
    { unfold none_of in *. rewrite forallb_forall in *. intros x Hx. apply H. apply in_rev. exact Hx. }
    destruct (rev s) as [|c r]; [reflexivity|]. cbn in Hr. apply andb_prop in Hr as [Hr _]. exact Hr.
Qed.

Lemma edge_ok_app p a b : edge_ok p a = true -> edge_ok p b = true -> edge_ok p (a ++ b) = true.
Proof.
  intros Ha Hb. destruct a as [|x a']; [exact Hb|].
  destruct b as [|y b']; [rewrite app_nil_r; exact Ha|].
  unfold edge_ok in *. apply andb_prop in Ha as [Ha1 _]. apply andb_prop in Hb as [_ Hb2].
  apply andb_true_intro. split; [exact Ha1|].
  rewrite rev_app_distr.
  destruct (rev (y :: b')) as [|z r] eqn:E.
  - apply (f_equal (@length Z)) in E. rewrite rev_length in E. discriminate.
  - cbn. exact Hb2.
Qed.

(* ------------------------------------------------------------------ *)
(* split / join / find *)
Lemma split_on_none d a : lacks d a = true -> split_on d a = [a].
Proof.
  induction a as [|c r IH]; [reflexivity|]. rewrite lacks_cons. intros H.
  apply andb_prop in H as [H1 H2]. apply negb_true_iff in H1.
  cbn [split_on]. rewrite Z.eqb_sym in H1. rewrite H1. rewrite (IH H2). reflexivity.
Qed.

Lemma split_on_app d a b : lacks d a = true -> split_on d (a ++ d :: b) = a :: split_on d b.
Proof.
  induction a as [|c r IH]; intros H.
  - cbn [app split_on]. rewrite Z.eqb_refl. reflexivity.
  - rewrite lacks_cons in H. apply andb_prop in H as [H1 H2]. apply negb_true_iff in H1.
    cbn [app split_on]. rewrite Z.eqb_sym in H1. rewrite H1. rewrite (IH H2). reflexivity.
Qed.

Lemma split_join d l : l <> [] -> forallb (lacks d) l = true -> split_on d (join d l) = l.
Proof.
  induction l as [|x r IH]; [congruence|]. intros _ H. cbn [forallb] in H.
  apply andb_prop in H as [Hx Hr].
  destruct r as [|y r'].
  - cbn [join]. apply split_on_none. exact Hx.
  - change (join d (x :: y :: r')) with (x ++ d :: join d (y :: r')).
    rewrite (split_on_app d x _ Hx). rewrite IH; [reflexivity|discriminate|exact Hr].
Qed.

Lemma find_char_none d a : lacks d a = true -> find_char d a = None.
Proof.
  induction a as [|c r IH]; [reflexivity|]. rewrite lacks_cons. intros H.
  apply andb_prop in H as [H1 H2]. apply negb_true_iff in H1.
  cbn [find_char]. rewrite Z.eqb_sym in H1. rewrite H1. rewrite (IH H2). reflexivity.
Qed.

Lemma find_char_app d a b : lacks d a = true -> find_char d (a ++ d :: b) = Some (a, b).
Proof.
  induction a as [|c r IH]; intros H.
  - cbn [app find_char]. rewrite Z.eqb_refl. reflexivity.
  - rewrite lacks_cons in H. apply andb_prop in H as [H1 H2]. apply negb_true_iff in H1.
    cbn [app find_char]. rewrite Z.eqb_sym in H1. rewrite H1. rewrite (IH H2). reflexivity.
Qed.

Lemma ends_with_snoc d s : ends_with d (s ++ [d]) = true.
Proof. unfold ends_with. rewrite rev_app_distr. cbn. apply Z.eqb_refl. Qed.

Lemma ends_with_lacks d s : lacks d s = true -> ends_with d s = false.
Proof.
  intros H. unfold ends_with.
  assert (lacks d (rev s) = true) as Hr.
  { unfold lacks, none_of in *. rewrite forallb_forall in *. intros x Hx. apply H. apply in_rev. exact Hx. }
  destruct (rev s) as [|c r]; [reflexivity|]. rewrite lacks_cons in Hr.
  apply andb_prop in Hr as [Hr _]. apply negb_true_iff in Hr. rewrite Z.eqb_sym. exact Hr.
Qed.

(* '<-' does not occur *)
Fixpoint has_arrow (s : str) : bool :=
  match s with
  | [] => false
  | c :: r => match r with
              | c2 :: _ => ((c =? ch_lt) && (c2 =? ch_minus)) || has_arrow r
              | [] => false
              end
  end.

Lemma find_arrow_none s : has_arrow s = false -> find_arrow s = None.
Proof.
  induction s as [|c r IH]; [reflexivity|]. cbn [has_arrow find_arrow].
  destruct r as [|c2 r2]; [reflexivity|]. intros H. apply orb_false_elim in H as [H1 H2].
  rewrite H1. rewrite (IH H2). reflexivity.
Qed.

Lemma has_arrow_app a b :
  has_arrow a = false -> lacks ch_lt b = true ->
  match b with [] => true | c :: _ => negb (c =? ch_minus) end = true ->
  has_arrow (a ++ b) = false.
Proof.
  intros Ha Hb Hh. induction a as [|c r IH].
  - cbn [app]. clear Hh. induction b as [|x b' IHb]; [reflexivity|].
    rewrite lacks_cons in Hb. apply andb_prop in Hb as [Hb1 Hb2]. apply negb_true_iff in Hb1.
    cbn [has_arrow]. destruct b' as [|y b'']; [reflexivity|].
    rewrite Z.eqb_sym in Hb1. rewrite Hb1. cbn [andb orb]. apply IHb. exact Hb2.
  - cbn [has_arrow] in Ha. destruct r as [|c2 r2].
    + cbn [app]. cbn [has_arrow]. destruct b as [|x b']; [reflexivity|].
      apply negb_true_iff in Hh. rewrite Hh. rewrite andb_false_r. cbn [orb].
      apply (IH eq_refl).
    + apply orb_false_elim in Ha as [H1 H2].
      change ((c :: c2 :: r2) ++ b) with (c :: c2 :: (r2 ++ b)). cbn [has_arrow].
      rewrite H1. cbn [orb]. apply (IH H2).
Qed.

(* ------------------------------------------------------------------ *)
(* digits *)
Definition is_digit (c : Z) : bool := (48 <=? c) && (c <=? 57).

Lemma digits_acc_step c rest a pd :
  is_digit c = true -> digits_acc (c :: rest) a pd = digits_acc rest (a * 10 + (c - 48)) true.
Proof.
  intros H. cbn [digits_acc]. unfold is_digit in H. rewrite H.
  apply andb_prop in H as [H1 H2]. apply Z.leb_le in H1, H2.
  unfold ch_us. destruct (c =? 95) eqn:E; [apply Z.eqb_eq in E; lia|reflexivity].
Qed.

Lemma is_digit_48 d : 0 <= d < 10 -> is_digit (48 + d) = true.
Proof. intros H. unfold is_digit. apply andb_true_intro. split; apply Z.leb_le; lia. Qed.

Lemma pos_digits_spec f : forall n acc, (0 < f)%nat -> 0 <= n < 2 ^ Z.of_nat f ->
  exists ds k, pos_digits f n acc = ds ++ acc /\ ds <> [] /\ forallb is_digit ds = true /\ 0 <= k /\
    forall rest a pd, digits_acc (ds ++ rest) a pd = digits_acc rest (a * 10 ^ k + n) true.
Proof.
  induction f as [|f IH]; intros n acc Hf Hn; [lia|].
  cbn [pos_digits]. destruct (n <? 10) eqn:E.
  - apply Z.ltb_lt in E. exists [48 + n], 1.
    assert (is_digit (48 + n) = true) as Hd by (apply is_digit_48; lia).
    split; [reflexivity|]. split; [discriminate|]. split; [cbn [forallb]; rewrite Hd; reflexivity|].
    split; [lia|].
    intros rest a pd. cbn [app]. rewrite (digits_acc_step _ _ _ _ Hd).
    f_equal. rewrite Z.pow_1_r. lia.
  - apply Z.ltb_ge in E.
    assert (0 < f)%nat as Hf'.
    { destruct f; [|lia]. change (2 ^ Z.of_nat 1) with 2 in Hn. lia. }
    assert (0 <= n / 10 < 2 ^ Z.of_nat f) as Hd.
    { split; [apply Z.div_pos; lia|].
      rewrite Nat2Z.inj_succ, Z.pow_succ_r in Hn by lia.
      apply Z.div_lt_upper_bound; lia. }
    destruct (IH (n / 10) ((48 + n mod 10) :: acc) Hf' Hd) as (ds & k & E1 & E2 & E3 & E4 & E5).
    pose proof (Z.mod_pos_bound n 10 ltac:(lia)) as Hm.
    assert (is_digit (48 + n mod 10) = true) as Hdg by (apply is_digit_48; lia).
    exists (ds ++ [48 + n mod 10]), (k + 1).
    split; [rewrite E1, <- app_assoc; reflexivity|].
    split; [destruct ds; discriminate|].
    split; [rewrite forallb_app, E3; cbn [forallb]; rewrite Hdg; reflexivity|].
    split; [lia|].
    intros rest a pd. rewrite <- app_assoc. cbn [app]. rewrite E5.
    rewrite (digits_acc_step _ _ _ _ Hdg).
    f_equal. rewrite Z.pow_add_r by lia. rewrite Z.pow_1_r.
    pose proof (Z.div_mod n 10 ltac:(lia)). lia.
Qed.

Lemma nat_str_spec n : 0 <= n ->
  nat_str n <> [] /\ forallb is_digit (nat_str n) = true /\
  digits_acc (nat_str n) 0 false = Some n.
Proof.
  intros Hn. unfold nat_str.
  assert (0 <= n < 2 ^ Z.of_nat (S (Z.to_nat (Z.log2 n)))) as Hb.
  { split; [exact Hn|]. rewrite Nat2Z.inj_succ, Z2Nat.id by apply Z.log2_nonneg.
    destruct (Z.eq_dec n 0) as [->|Hz]; [cbn; lia|].
    apply Z.log2_spec. lia. }
  destruct (pos_digits_spec _ n [] (Nat.lt_0_succ _) Hb) as (ds & k & E1 & E2 & E3 & E4 & E5).
  rewrite E1, app_nil_r. repeat split; [exact E2|exact E3|].
  specialize (E5 [] 0 false). rewrite app_nil_r in E5. rewrite E5. cbn [digits_acc]. f_equal; lia.
Qed.

Lemma digit_props c : is_digit c = true ->
  is_space c = false /\ is_space_int c = false /\ (c =? ch_minus) = false /\ (c =? ch_plus) = false /\
  (c =? ch_colon) = false /\ (c =? ch_comma) = false /\ (c =? ch_semi) = false /\
  (c =? ch_lpar) = false /\ (c =? ch_rpar) = false /\ (c =? ch_star) = false.
Proof.
  unfold is_digit. intros H. apply andb_prop in H as [H1 H2]. apply Z.leb_le in H1, H2.
  assert (is_space c = false) as Hs.
  { unfold is_space.
    repeat match goal with
    | |- context [?a <=? ?b] => let E := fresh in destruct (a <=? b) eqn:E; [apply Z.leb_le in E|apply Z.leb_gt in E]
    | |- context [?a =? ?b] => let E := fresh in destruct (a =? b) eqn:E; [apply Z.eqb_eq in E|apply Z.eqb_neq in E]
    end; cbn; try reflexivity; lia. }
  unfold is_space_int, ch_minus, ch_plus, ch_colon, ch_comma, ch_semi, ch_lpar, ch_rpar, ch_star.
  rewrite Hs. repeat split; try reflexivity; apply Z.eqb_neq; lia.
Qed.

Lemma digits_none_of (p : Z -> bool) s :
  (forall c, is_digit c = true -> p c = false) -> forallb is_digit s = true -> none_of p s = true.
Proof.
  intros Hp H. unfold none_of. rewrite forallb_forall in *. intros c Hc.
  rewrite (Hp c (H c Hc)). reflexivity.
Qed.

Lemma nat_str_lacks n d : 0 <= n -> is_digit d = false -> lacks d (nat_str n) = true.
Proof.
  intros Hn Hd. destruct (nat_str_spec n Hn) as (_ & H & _).
  apply digits_none_of; [|exact H]. intros c Hc.
  destruct (d =? c) eqn:E; [|reflexivity]. apply Z.eqb_eq in E. congruence.
Qed.

Lemma int_of_nat_str n : 0 <= n -> int_of_str (nat_str n) = Ok n.
Proof.
  intros Hn. destruct (nat_str_spec n Hn) as (H1 & H2 & H3).
  unfold int_of_str.
  rewrite strip_with_id.
  2:{ apply none_of_edge_ok. apply digits_none_of; [|exact H2]. intros c Hc. apply (digit_props c Hc). }
  destruct (nat_str n) as [|c r] eqn:E; [congruence|].
  cbn [forallb] in H2. apply andb_prop in H2 as [Hc _].
  destruct (digit_props c Hc) as (_ & _ & Hm & Hp & _).
  rewrite Hm, Hp. rewrite H3. reflexivity.
Qed.

Lemma int_of_str_of_int n : int_of_str (str_of_int n) = Ok n.
Proof.
  unfold str_of_int. destruct (n <? 0) eqn:E.
  - apply Z.ltb_lt in E. destruct (nat_str_spec (- n) ltac:(lia)) as (H1 & H2 & H3).
    unfold int_of_str. rewrite strip_with_id.
    + rewrite Z.eqb_refl. rewrite H3. f_equal. lia.
    + change (ch_minus :: nat_str (- n)) with ([ch_minus] ++ nat_str (- n)).
      apply edge_ok_app; [reflexivity|]. apply none_of_edge_ok.
      apply digits_none_of; [|exact H2]. intros c Hc. apply (digit_props c Hc).
  - apply Z.ltb_ge in E. apply int_of_nat_str. exact E.
Qed.

Lemma str_of_int_nonneg n : 0 <= n -> str_of_int n = nat_str n.
Proof. intros H. unfold str_of_int. replace (n <? 0) with false; [reflexivity|]. symmetry. apply Z.ltb_ge. exact H. Qed.

(* characters of str(n): digits and possibly a leading '-' *)
Lemma str_of_int_lacks n d : is_digit d = false -> (d =? ch_minus) = false -> lacks d (str_of_int n) = true.
Proof.
  intros Hd Hm. unfold str_of_int. destruct (n <? 0) eqn:E.
  - apply Z.ltb_lt in E. rewrite lacks_cons, Hm. cbn [negb andb]. apply nat_str_lacks; [lia|exact Hd].
  - apply Z.ltb_ge in E. apply nat_str_lacks; assumption.
Qed.

Lemma str_of_int_nonempty n : str_of_int n <> [].
Proof.
  unfold str_of_int. destruct (n <? 0) eqn:E; [discriminate|].
  apply Z.ltb_ge in E. apply (nat_str_spec n E).
Qed.

Lemma str_of_int_nospace n : none_of is_space (str_of_int n) = true.
Proof.
  unfold str_of_int. destruct (n <? 0) eqn:E.
  - apply Z.ltb_lt in E. rewrite none_of_cons. apply andb_true_intro. split; [reflexivity|].
    destruct (nat_str_spec (- n) ltac:(lia)) as (_ & H & _).
    apply digits_none_of; [|exact H]. intros c Hc. apply (digit_props c Hc).
  - apply Z.ltb_ge in E. destruct (nat_str_spec n E) as (_ & H & _).
    apply digits_none_of; [|exact H]. intros c Hc. apply (digit_props c Hc).
Qed.

(* first character of str(n) is a digit or '-' *)
Lemma str_of_int_head n : exists c r, str_of_int n = c :: r /\ (is_digit c = true \/ c = ch_minus).
Proof.
  unfold str_of_int. destruct (n <? 0) eqn:E.
  - eexists _, _. split; [reflexivity|right; reflexivity].
  - apply Z.ltb_ge in E. destruct (nat_str_spec n E) as (H1 & H2 & _).
    destruct (nat_str n) as [|c r]; [congruence|]. exists c, r. split; [reflexivity|left].
    cbn in H2. apply andb_prop in H2 as [H2 _]. exact H2.
Qed.
