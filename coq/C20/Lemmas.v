(* C20/Lemmas.v -- proofs about the model of ak/short_uuid.py *)
From Coq Require Import ZArith List Bool Lia.
From AK Require Import Common.Sx Common.Err gen.C20_Consts C20.Model.
Import ListNotations.
Open Scope Z_scope.

(* ------------------------------------------------------------------ *)
(* obligations on the constants read from the source                    *)

Fixpoint nodupb (l : list Z) : bool :=
  match l with
  | [] => true
  | x :: r => negb (existsb (Z.eqb x) r) && nodupb r
  end.

Lemma nodupb_NoDup l : nodupb l = true -> NoDup l.
Proof.
  induction l as [|x r IH]; cbn [nodupb]; intros H; [constructor|].
  apply andb_prop in H as [H1 H2]. constructor; [|auto].
  intros Hin. apply negb_true_iff in H1.
  assert (existsb (Z.eqb x) r = true) as E.
  { apply existsb_exists. exists x. split; [exact Hin|apply Z.eqb_refl]. }
  congruence.
Qed.

Lemma alphabet_nodup : NoDup alphabet.
Proof. apply nodupb_NoDup. vm_compute. reflexivity. Qed.

Lemma base_ge_2 : 2 <= base.
Proof. vm_compute. discriminate. Qed.

Lemma bound_fits : uuid_bound <= base ^ Z.of_nat short_len.
Proof. vm_compute. discriminate. Qed.

Lemma keyerr_caught : existsb (err_eqb KeyErr) caught = true.
Proof. vm_compute. reflexivity. Qed.

Lemma valueerr_caught : existsb (err_eqb ValueErr) caught = true.
Proof. vm_compute. reflexivity. Qed.

Lemma base_pos : 0 < base. Proof. pose proof base_ge_2; lia. Qed.
Lemma base_len : base = Z.of_nat (length alphabet). Proof. reflexivity. Qed.

(* ------------------------------------------------------------------ *)
(* index_of is the inverse of nth on a duplicate-free alphabet          *)

Lemma index_from_spec c l pos found :
  index_from c l pos found =
  match index_from c l pos None with Some p => Some p | None => found end.
Proof.
  revert pos found. induction l as [|x r IH]; intros pos found; cbn [index_from]; [reflexivity|].
  destruct (x =? c); [|apply IH].
  rewrite (IH (pos + 1) (Some pos)).
  destruct (index_from c r (pos + 1) None); reflexivity.
Qed.

Lemma index_from_notin c l pos : ~ In c l -> index_from c l pos None = None.
Proof.
  revert pos. induction l as [|x r IH]; intros pos H; cbn [index_from]; [reflexivity|].
  destruct (Z.eqb_spec x c) as [->|_]; [exfalso; apply H; left; reflexivity|].
  apply IH. intros Hin. apply H. right. exact Hin.
Qed.

Lemma index_from_nth l : NoDup l -> forall i pos, (i < length l)%nat ->
  index_from (nth i l 0) l pos None = Some (pos + Z.of_nat i).
Proof.
  induction 1 as [|x r Hx Hnd IH]; intros i pos Hi; [cbn in Hi; lia|].
  cbn [index_from]. destruct i as [|i]; cbn [nth].
  - rewrite Z.eqb_refl. rewrite index_from_spec.
    rewrite (index_from_notin x r (pos + 1) Hx). f_equal. lia.
  - cbn [length] in Hi.
    destruct (Z.eqb_spec x (nth i r 0)) as [E|_].
    + exfalso. apply Hx. rewrite E. apply nth_In. lia.
    + rewrite IH by lia. f_equal. lia.
Qed.

Lemma index_from_some c l pos p :
  index_from c l pos None = Some p ->
  exists i, (i < length l)%nat /\ p = pos + Z.of_nat i /\ nth i l 0 = c.
Proof.
  revert pos p. induction l as [|x r IH]; intros pos p; cbn [index_from]; [discriminate|].
  rewrite index_from_spec. destruct (index_from c r (pos + 1) None) as [q|] eqn:E.
  - intros [= <-]. destruct (IH _ _ E) as (i & Hi & -> & Hn).
    exists (S i). cbn [length nth]. split; [lia|]. split; [lia|exact Hn].
  - destruct (Z.eqb_spec x c) as [->|_]; [|discriminate].
    intros [= <-]. exists 0%nat. cbn [length nth]. split; [lia|]. split; [lia|reflexivity].
Qed.

Lemma index_of_nth i : (i < length alphabet)%nat -> index_of (nth i alphabet 0) = Some (Z.of_nat i).
Proof. intros H. unfold index_of. rewrite (index_from_nth _ alphabet_nodup) by exact H. f_equal. Qed.

Lemma index_of_some c d : index_of c = Some d -> 0 <= d < base /\ nth (Z.to_nat d) alphabet 0 = c.
Proof.
  unfold index_of. intros H. destruct (index_from_some _ _ _ _ H) as (i & Hi & -> & Hn).
  rewrite base_len. split; [lia|]. rewrite Z.add_0_l, Nat2Z.id. exact Hn.
Qed.

Lemma index_of_none c : index_of c = None <-> ~ In c alphabet.
Proof.
  split.
  - intros H Hin. destruct (In_nth _ _ 0 Hin) as (i & Hi & E).
    rewrite <- E, index_of_nth in H by exact Hi. discriminate.
  - apply index_from_notin.
Qed.

Lemma index_of_in c : In c alphabet -> exists d, index_of c = Some d.
Proof.
  intros H. destruct (index_of c) eqn:E; [eauto|]. apply index_of_none in E. contradiction.
Qed.

(* ------------------------------------------------------------------ *)
(* specification-level notions                                          *)

(* little-endian value of a string whose characters are all in the alphabet *)
Fixpoint value (s : list Z) : Z :=
  match s with
  | [] => 0
  | c :: r => match index_of c with Some d => d | None => 0 end + base * value r
  end.

Definition in_alphabet (s : list Z) : Prop := Forall (fun c => In c alphabet) s.

(* the k least significant base-[base] digits of n, written with the alphabet *)
Fixpoint canon (n : Z) (k : nat) : list Z :=
  match k with
  | O => []
  | S k' => nth (Z.to_nat (n mod base)) alphabet 0 :: canon (n / base) k'
  end.

Lemma value_nonneg s : 0 <= value s.
Proof.
  induction s as [|c r IH]; cbn [value]; [lia|].
  pose proof base_pos. destruct (index_of c) as [d|] eqn:E; [apply index_of_some in E|]; nia.
Qed.

Lemma horner_app l1 l2 acc : horner (l1 ++ l2) acc = bind (horner l1 acc) (horner l2).
Proof.
  revert acc. induction l1 as [|c r IH]; intros acc; cbn [app horner bind]; [reflexivity|].
  destruct (index_of c); [apply IH|reflexivity].
Qed.

Lemma str_to_int_ok s : in_alphabet s -> str_to_int s = Ok (value s).
Proof.
  unfold str_to_int. induction 1 as [|c r Hc Hr IH]; cbn [rev value]; [reflexivity|].
  rewrite horner_app, IH. cbn [bind horner].
  destruct (index_of_in c Hc) as [d ->]. f_equal. lia.
Qed.

Lemma horner_err l acc e : horner l acc = Err e -> e = KeyErr.
Proof.
  revert acc. induction l as [|c r IH]; intros acc; cbn [horner]; [discriminate|].
  destruct (index_of c); [apply IH|congruence].
Qed.

Lemma str_to_int_bad s : ~ in_alphabet s -> str_to_int s = Err KeyErr.
Proof.
  unfold str_to_int. induction s as [|c r IH]; intros H; [exfalso; apply H; constructor|].
  cbn [rev]. rewrite horner_app.
  destruct (index_of c) as [d|] eqn:E.
  - rewrite IH; [reflexivity|]. intros Hr. apply H. constructor; [|exact Hr].
    destruct (index_of_some _ _ E) as [Hd <-]. apply nth_In. unfold base in *. lia.
  - destruct (horner (rev r) 0) as [a|e] eqn:Eh; cbn [bind horner]; [rewrite E; reflexivity|].
    apply horner_err in Eh. rewrite Eh. reflexivity.
Qed.

Lemma in_alphabet_dec s : {in_alphabet s} + {~ in_alphabet s}.
Proof. apply Forall_dec. intros c. apply in_dec. apply Z.eq_dec. Qed.

(* ------------------------------------------------------------------ *)
(* canon / value are mutually inverse                                   *)

Lemma canon_length n k : length (canon n k) = k.
Proof. revert n. induction k as [|k IH]; intros n; cbn [canon length]; [reflexivity|]. rewrite IH. reflexivity. Qed.

Lemma canon_in_alphabet n k : in_alphabet (canon n k).
Proof.
  revert n. induction k as [|k IH]; intros n; cbn [canon]; constructor; [|apply IH].
  apply nth_In. pose proof (Z.mod_pos_bound n base base_pos) as H. unfold base in *. lia.
Qed.

Lemma value_canon n k : 0 <= n -> n < base ^ Z.of_nat k -> value (canon n k) = n.
Proof.
  revert n. induction k as [|k IH]; intros n H0 Hn; cbn [canon value].
  - cbn in Hn. lia.
  - pose proof base_pos as Hb. pose proof (Z.mod_pos_bound n base Hb) as Hm.
    rewrite index_of_nth by (unfold base in *; lia).
    rewrite Z2Nat.id by lia. rewrite IH.
    + pose proof (Z.div_mod n base ltac:(lia)). lia.
    + apply Z.div_pos; lia.
    + rewrite Nat2Z.inj_succ, Z.pow_succ_r in Hn by lia.
      apply Z.div_lt_upper_bound; lia.
Qed.

Lemma canon_value s : in_alphabet s -> canon (value s) (length s) = s.
Proof.
  induction 1 as [|c r Hc Hr IH]; cbn [value length canon]; [reflexivity|].
  destruct (index_of_in c Hc) as [d E]. rewrite E.
  destruct (index_of_some _ _ E) as [Hd Hn].
  pose proof (value_nonneg r) as Hv.
  assert ((d + base * value r) mod base = d) as ->.
  { rewrite Z.mul_comm, Z.mod_add by lia. apply Z.mod_small. lia. }
  assert ((d + base * value r) / base = value r) as ->.
  { rewrite Z.mul_comm, Z.div_add by lia. rewrite Z.div_small by lia. lia. }
  rewrite Hn, IH. reflexivity.
Qed.

Lemma value_lt_pow s : in_alphabet s -> value s < base ^ Z.of_nat (length s).
Proof.
  induction 1 as [|c r Hc Hr IH]; cbn [value length]; [cbn; lia|].
  destruct (index_of_in c Hc) as [d E]. rewrite E. destruct (index_of_some _ _ E) as [Hd _].
  rewrite Nat2Z.inj_succ, Z.pow_succ_r by lia. nia.
Qed.

Lemma canon_zero k : canon 0 k = repeat a0 k.
Proof.
  induction k as [|k IH]; cbn [canon repeat]; [reflexivity|].
  rewrite Z.mod_0_l, Z.div_0_l by (pose proof base_pos; lia). rewrite IH. reflexivity.
Qed.

(* the loop of _int_to_str followed by the padding = canon *)
Lemma digits_pad fuel : forall n k, 0 <= n -> n < 2 ^ Z.of_nat fuel -> n < base ^ Z.of_nat k ->
  digits fuel n ++ repeat a0 (k - length (digits fuel n))%nat = canon n k.
Proof.
  induction fuel as [|f IH]; intros n k H0 Hf Hk.
  - cbn in Hf. assert (n = 0) as -> by lia. cbn [digits app length]. rewrite Nat.sub_0_r, canon_zero. reflexivity.
  - cbn [digits]. destruct (Z.eqb_spec n 0) as [->|Hn].
    + cbn [app length]. rewrite Nat.sub_0_r, canon_zero. reflexivity.
    + destruct k as [|k]; [cbn in Hk; lia|].
      cbn [length app canon Nat.sub]. f_equal.
      pose proof base_ge_2 as Hb.
      apply IH.
      * apply Z.div_pos; lia.
      * rewrite Nat2Z.inj_succ, Z.pow_succ_r in Hf by lia.
        apply Z.div_lt_upper_bound; [lia|].
        assert (0 < 2 ^ Z.of_nat f) by (apply Z.pow_pos_nonneg; lia). nia.
      * rewrite Nat2Z.inj_succ, Z.pow_succ_r in Hk by lia.
        apply Z.div_lt_upper_bound; lia.
Qed.

Lemma int_to_str_canon n : 0 <= n -> n < base ^ Z.of_nat short_len -> int_to_str n = canon n short_len.
Proof.
  intros H0 Hn. unfold int_to_str. apply digits_pad; [exact H0| |exact Hn].
  destruct (Z.eq_dec n 0) as [->|Hnz]; [cbn; lia|].
  rewrite Nat2Z.inj_succ, Z2Nat.id by apply Z.log2_nonneg.
  apply Z.log2_spec. lia.
Qed.

(* ------------------------------------------------------------------ *)
(* the property                                                         *)

Definition is_uuid (n : Z) : Prop := 0 <= n < uuid_bound.

Definition valid_short (s : list Z) : Prop :=
  length s = short_len /\ in_alphabet s /\ value s < uuid_bound.

Lemma uuid_lt_pow n : is_uuid n -> n < base ^ Z.of_nat short_len.
Proof. intros [_ H]. pose proof bound_fits. lia. Qed.

Lemma shape_l n : is_uuid n ->
  length (uuid_to_short_str n) = short_len /\ in_alphabet (uuid_to_short_str n).
Proof.
  intros H. unfold uuid_to_short_str.
  rewrite int_to_str_canon; [|apply H|apply uuid_lt_pow; exact H].
  split; [apply canon_length|apply canon_in_alphabet].
Qed.

Lemma from_short_valid s : valid_short s -> uuid_from_short_str (PStr s) = Ok (value s).
Proof.
  intros (Hl & Ha & Hv). unfold uuid_from_short_str. rewrite Hl, Nat.eqb_refl. cbn [negb].
  rewrite str_to_int_ok by exact Ha. pose proof (value_nonneg s).
  destruct (Z.leb_spec 0 (value s)); [|lia]. destruct (Z.ltb_spec (value s) uuid_bound); [|lia]. reflexivity.
Qed.

Lemma from_short_invalid s : ~ valid_short s -> uuid_from_short_str (PStr s) = Err ValueErr.
Proof.
  intros H. unfold uuid_from_short_str.
  destruct (Nat.eqb_spec (length s) short_len) as [Hl|Hl]; cbn [negb]; [|reflexivity].
  destruct (in_alphabet_dec s) as [Ha|Ha].
  - rewrite str_to_int_ok by exact Ha.
    destruct (Z.leb_spec 0 (value s)); cbn [andb]; [|unfold translate; rewrite valueerr_caught; reflexivity].
    destruct (Z.ltb_spec (value s) uuid_bound); [|unfold translate; rewrite valueerr_caught; reflexivity].
    exfalso. apply H. repeat split; assumption.
  - rewrite str_to_int_bad by exact Ha. unfold translate. rewrite keyerr_caught. reflexivity.
Qed.

Lemma valid_short_dec s : {valid_short s} + {~ valid_short s}.
Proof.
  unfold valid_short.
  destruct (Nat.eq_dec (length s) short_len); [|right; tauto].
  destruct (in_alphabet_dec s); [|right; tauto].
  destruct (Z_lt_dec (value s) uuid_bound); [left|right]; tauto.
Qed.

Lemma roundtrip_l n : is_uuid n -> uuid_from_short_str (PStr (uuid_to_short_str n)) = Ok n.
Proof.
  intros H. pose proof (uuid_lt_pow n H) as Hp. destruct (shape_l n H) as [Hl Ha].
  assert (value (uuid_to_short_str n) = n) as Hv.
  { unfold uuid_to_short_str. rewrite int_to_str_canon; [|apply H|exact Hp].
    apply value_canon; [apply H|exact Hp]. }
  rewrite from_short_valid; [rewrite Hv; reflexivity|].
  repeat split; auto. rewrite Hv. apply H.
Qed.

Lemma injective_l n m : is_uuid n -> is_uuid m -> uuid_to_short_str n = uuid_to_short_str m -> n = m.
Proof.
  intros Hn Hm E. pose proof (roundtrip_l n Hn) as R1. pose proof (roundtrip_l m Hm) as R2.
  rewrite E in R1. congruence.
Qed.

Lemma accept_iff_l s n : uuid_from_short_str (PStr s) = Ok n <-> valid_short s /\ n = value s.
Proof.
  split.
  - intros H. destruct (valid_short_dec s) as [V|V].
    + rewrite from_short_valid in H by exact V. split; [exact V|congruence].
    + rewrite from_short_invalid in H by exact V. discriminate.
  - intros [V ->]. apply from_short_valid. exact V.
Qed.

Lemma surjective_l s n : uuid_from_short_str (PStr s) = Ok n -> is_uuid n /\ uuid_to_short_str n = s.
Proof.
  intros H. apply accept_iff_l in H as [(Hl & Ha & Hv) ->].
  pose proof (value_nonneg s). split; [split; assumption|].
  unfold uuid_to_short_str. rewrite int_to_str_canon; [|assumption|pose proof bound_fits; lia].
  rewrite <- Hl. apply canon_value. exact Ha.
Qed.

Lemma reject_l a : (forall s, a = PStr s -> ~ valid_short s) -> uuid_from_short_str a = Err ValueErr.
Proof.
  destruct a as [s|]; intros H; [|reflexivity]. apply from_short_invalid. apply H. reflexivity.
Qed.

(* uuid_from_str: canonical form (accepted by the standard library) and short form *)
Lemma from_str_canonical n s : uuid_from_str (Some n) s = Ok n.
Proof. reflexivity. Qed.

Lemma from_str_short n : is_uuid n -> uuid_from_str None (uuid_to_short_str n) = Ok n.
Proof. intros H. unfold uuid_from_str. apply roundtrip_l. exact H. Qed.

Lemma from_str_reject s : ~ valid_short s -> uuid_from_str None s = Err ValueErr.
Proof. intros H. unfold uuid_from_str. apply from_short_invalid. exact H. Qed.

(* ------------------------------------------------------------------ *)
(* sequences of calls: what was called before (or after) does not matter *)

Lemma eval_seq_length l : length (eval_seq l) = length l.
Proof. apply map_length. Qed.

Lemma eval_seq_app l1 l2 : eval_seq (l1 ++ l2) = eval_seq l1 ++ eval_seq l2.
Proof. apply map_app. Qed.

Lemma calls_independent_l pre c post :
  nth_error (eval_seq (pre ++ c :: post)) (length pre) = Some (eval_call c).
Proof.
  rewrite eval_seq_app. rewrite nth_error_app2; rewrite eval_seq_length; [|apply Nat.le_refl].
  rewrite Nat.sub_diag. reflexivity.
Qed.

Lemma nth_error_split_at {A} (l : list A) i x :
  nth_error l i = Some x -> exists pre post, l = pre ++ x :: post /\ length pre = i.
Proof.
  intros H. apply nth_error_split in H as (pre & post & -> & <-). exists pre, post. split; reflexivity.
Qed.

Lemma seq_nth l i c : nth_error l i = Some c -> nth_error (eval_seq l) i = Some (eval_call c).
Proof.
  intros H. apply nth_error_split_at in H as (pre & post & -> & <-). apply calls_independent_l.
Qed.

(* the string argument of a decoding call (uuid.UUID did not accept it) *)
Definition decodes (c : call) (s : list Z) : Prop :=
  c = CFromShort (PStr s) \/ c = CFromStr None s.

Lemma decodes_eval c s : decodes c s -> eval_call c = ORes (uuid_from_short_str (PStr s)).
Proof. intros [-> | ->]; reflexivity. Qed.

Lemma seq_decode_valid l i c s : nth_error l i = Some c -> decodes c s -> valid_short s ->
  nth_error (eval_seq l) i = Some (ORes (Ok (value s))).
Proof.
  intros H D V. rewrite (seq_nth l i c H), (decodes_eval c s D), from_short_valid by exact V. reflexivity.
Qed.

Lemma seq_decode_invalid l i c s : nth_error l i = Some c -> decodes c s -> ~ valid_short s ->
  nth_error (eval_seq l) i = Some (ORes (Err ValueErr)).
Proof.
  intros H D V. rewrite (seq_nth l i c H), (decodes_eval c s D), from_short_invalid by exact V. reflexivity.
Qed.

Lemma seq_decode_injective l i j ci cj si sj n :
  nth_error l i = Some ci -> nth_error l j = Some cj -> decodes ci si -> decodes cj sj ->
  nth_error (eval_seq l) i = Some (ORes (Ok n)) -> nth_error (eval_seq l) j = Some (ORes (Ok n)) ->
  si = sj.
Proof.
  intros Hi Hj Di Dj Ri Rj.
  rewrite (seq_nth l i ci Hi), (decodes_eval ci si Di) in Ri.
  rewrite (seq_nth l j cj Hj), (decodes_eval cj sj Dj) in Rj.
  assert (uuid_from_short_str (PStr si) = Ok n) as Ei by congruence.
  assert (uuid_from_short_str (PStr sj) = Ok n) as Ej by congruence.
  apply surjective_l in Ei as [_ Ei]. apply surjective_l in Ej as [_ Ej]. congruence.
Qed.

Lemma seq_encode l i u : nth_error l i = Some (CToShort u) -> is_uuid u ->
  nth_error (eval_seq l) i = Some (OStr (uuid_to_short_str u)) /\
  forall j c, nth_error l j = Some c -> decodes c (uuid_to_short_str u) ->
              nth_error (eval_seq l) j = Some (ORes (Ok u)).
Proof.
  intros H U. split; [apply (seq_nth l i _ H)|].
  intros j c Hj D. rewrite (seq_nth l j c Hj), (decodes_eval c _ D), roundtrip_l by exact U. reflexivity.
Qed.
