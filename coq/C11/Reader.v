(* C11/Reader.v -- the reader used to state the round trip: a character-level
   lexer and a recursive-descent parser for the common syntax of JSON and of
   Python literals
       value := STRING | ATOM | '[' [value (',' value)*] ']'
              | '{' [key ':' value (',' key ':' value)*] '}'        key := STRING | ATOM
   Blanks and newlines are layout.  A STRING is everything between two quotes
   (the property excludes quote, backslash and control characters inside
   strings, so no escapes exist).  An ATOM is a maximal run of other characters
   (number lexemes, true/false/null, True/False/None); its interpretation is
   left to json.loads / ast.literal_eval (trusted, see c11.py TRUSTED_BASE).

   [tree_of] is the specification: the parse tree a value must read back as --
   the value itself with every dict in sorted key order.  Definitions only. *)
From Coq Require Import ZArith List Bool.
From AK Require Import gen.C11_Consts C11.Model.
Import ListNotations.

Inductive tok :=
| TLBrace | TRBrace | TLBrack | TRBrack | TComma | TColon
| TStr (s : str) | TAtom (a : str) | TErr.

Definition is_blank (c : Z) : bool := (c =? 32)%Z || (c =? 10)%Z.

Definition punct (c : Z) : option tok :=
  if (c =? 123)%Z then Some TLBrace else if (c =? 125)%Z then Some TRBrace
  else if (c =? 91)%Z then Some TLBrack else if (c =? 93)%Z then Some TRBrack
  else if (c =? 44)%Z then Some TComma else if (c =? 58)%Z then Some TColon
  else None.

(* characters that end an atom *)
Definition is_stop (c : Z) : bool :=
  is_blank c || (c =? 34)%Z || match punct c with Some _ => true | None => false end.

(* accumulators are reversed *)
Inductive lstate := Idle | InStr (acc : str) | InAtom (acc : str).

Definition idle_step (c : Z) : list tok * lstate :=
  if is_blank c then ([], Idle)
  else if (c =? 34)%Z then ([], InStr [])
  else match punct c with
       | Some t => ([t], Idle)
       | None => ([], InAtom [c])
       end.

Definition step (st : lstate) (c : Z) : list tok * lstate :=
  match st with
  | Idle => idle_step c
  | InStr a => if (c =? 34)%Z then ([TStr (rev a)], Idle) else ([], InStr (c :: a))
  | InAtom a =>
      if is_stop c then (TAtom (rev a) :: fst (idle_step c), snd (idle_step c))
      else ([], InAtom (c :: a))
  end.

(* an unterminated string gives [TErr], which no parser rule accepts *)
Fixpoint lex (st : lstate) (s : str) : list tok :=
  match s with
  | [] => match st with Idle => [] | InStr _ => [TErr] | InAtom a => [TAtom (rev a)] end
  | c :: r => fst (step st c) ++ lex (snd (step st c)) r
  end.

(* ---- parse trees ---- *)
Inductive pkey := PKStr (s : str) | PKAtom (a : str).
Inductive ptree :=
| PStr (s : str)
| PAtom (a : str)
| PList (l : list ptree)
| PDict (d : list (pkey * ptree)).

Fixpoint pvalue (fuel : nat) (ts : list tok) {struct fuel} : option (ptree * list tok) :=
  match fuel with
  | O => None
  | S f =>
      match ts with
      | TStr s :: r => Some (PStr s, r)
      | TAtom a :: r => Some (PAtom a, r)
      | TLBrack :: TRBrack :: r => Some (PList [], r)
      | TLBrack :: r =>
          match pvalue f r with
          | Some (x, r1) => pitems f [x] r1
          | None => None
          end
      | TLBrace :: TRBrace :: r => Some (PDict [], r)
      | TLBrace :: r =>
          match pentry f r with
          | Some (e, r1) => pentries f [e] r1
          | None => None
          end
      | _ => None
      end
  end
with pitems (fuel : nat) (acc : list ptree) (ts : list tok) {struct fuel} : option (ptree * list tok) :=
  match fuel with
  | O => None
  | S f =>
      match ts with
      | TRBrack :: r => Some (PList (rev acc), r)
      | TComma :: r =>
          match pvalue f r with
          | Some (x, r1) => pitems f (x :: acc) r1
          | None => None
          end
      | _ => None
      end
  end
with pentry (fuel : nat) (ts : list tok) {struct fuel} : option ((pkey * ptree) * list tok) :=
  match fuel with
  | O => None
  | S f =>
      match ts with
      | TStr s :: TColon :: r =>
          match pvalue f r with
          | Some (x, r1) => Some ((PKStr s, x), r1)
          | None => None
          end
      | TAtom a :: TColon :: r =>
          match pvalue f r with
          | Some (x, r1) => Some ((PKAtom a, x), r1)
          | None => None
          end
      | _ => None
      end
  end
with pentries (fuel : nat) (acc : list (pkey * ptree)) (ts : list tok) {struct fuel} : option (ptree * list tok) :=
  match fuel with
  | O => None
  | S f =>
      match ts with
      | TRBrace :: r => Some (PDict (rev acc), r)
      | TComma :: r =>
          match pentry f r with
          | Some (e, r1) => pentries f (e :: acc) r1
          | None => None
          end
      | _ => None
      end
  end.

(* the whole text must be one value; fuel 2 * #tokens + 1 always suffices (Lemmas.read_tokens) *)
Definition parse (ts : list tok) : option ptree :=
  match pvalue (2 * length ts + 1) ts with
  | Some (t, []) => Some t
  | _ => None
  end.

Definition read (text : str) : option ptree := parse (lex Idle text).

(* ---- specification: what a value must read back as ---- *)
Definition pkey_of (k : key) : pkey :=
  match k with
  | KStr s => PKStr s
  | KInt z => PKAtom (dec z)
  | KKw k => PKAtom (pystr k)
  end.

Fixpoint tree_of (m : mode) (v : value) {struct v} : ptree :=
  match v with
  | VKw k => PAtom (lit m k)
  | VNum a => PAtom a
  | VStr s => PStr s
  | VList l => PList (map (tree_of m) l)
  | VDict d =>
      PDict (map (fun it => (pkey_of (fst it), snd it))
                 (isort (map (fun kv : key * value => let (k, x) := kv in (k, tree_of m x)) d)))
  end.

(* the canonical token sequence of a parse tree (no layout) *)
Definition ktok (k : pkey) : tok := match k with PKStr s => TStr s | PKAtom a => TAtom a end.

Fixpoint ttoks (t : ptree) {struct t} : list tok :=
  match t with
  | PStr s => [TStr s]
  | PAtom a => [TAtom a]
  | PList l => [TLBrack] ++ sep_join [TComma] true (map ttoks l) ++ [TRBrack]
  | PDict d =>
      [TLBrace]
        ++ sep_join [TComma] true (map (fun e : pkey * ptree => let (k, x) := e in ktok k :: TColon :: ttoks x) d)
        ++ [TRBrace]
  end.

(* ---- the domain of the theorems ---- *)
(* an atom: non-empty, no blank, newline, quote or punctuation *)
Definition atom_ok (a : str) : bool :=
  match a with [] => false | _ :: _ => forallb (fun c => negb (is_stop c)) a end.
(* a string: no quote *)
Definition str_ok (s : str) : bool := forallb (fun c => negb (c =? 34)%Z) s.

Definition key_ok (k : key) : bool :=
  match k with KStr s => str_ok s | _ => true end.

Fixpoint wf (v : value) {struct v} : bool :=
  match v with
  | VKw _ => true
  | VNum a => atom_ok a
  | VStr s => str_ok s
  | VList l => forallb wf l
  | VDict d => forallb (fun kv : key * value => let (k, x) := kv in key_ok k && wf x) d
  end.

(* flat text of a chunk sequence: None is the line break *)
Definition flat (cs : list chunk) : str := concat (map ctext cs).
